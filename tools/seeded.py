#!/usr/bin/env python3
"""Import and evaluate an independently written breaking change.

  tools/seeded.py import <dir with patch.diff demo.sh meta.txt> <property> <name>
  tools/seeded.py run [name ...]      re-run the checks against every kept change

A change is kept under /verif/seeded/<name>/ only after it was confirmed here on a scratch
copy of /repo's HEAD (outside /repo and /verif, removed afterwards): the patch applies, the
tree builds, the 60 tests pass, demo.sh exits 0 on the unchanged build and non-zero on the
changed one.  Then every property check is run against the changed copy (static analysis of
the scratch sources; evidence goes to a temporary directory) and meta.json records which
checks and rules report it.
"""
import glob
import json
import os
import shutil
import subprocess
import sys
import tempfile

VERIF = os.path.dirname(os.path.dirname(os.path.abspath(__file__)))
REPO = "/repo"
PROPS = [json.loads(l)["id"] for l in open(os.path.join(VERIF, "properties.jsonl"))]


def sh(cmd, cwd=None, timeout=600, env=None):
    r = subprocess.run(cmd, shell=True, cwd=cwd, capture_output=True, text=True, timeout=timeout, env=env)
    return r.returncode, r.stdout + r.stderr


def scratch_repo():
    d = tempfile.mkdtemp(prefix="nvseed-")
    rc, out = sh("git -C %s archive HEAD | tar -x -C %s" % (REPO, d))
    assert rc == 0, out
    return d


def build_and_test(d):
    rc, out = sh("make 2>&1 | tail -3", cwd=d)
    if not os.path.exists(os.path.join(d, "vi")):
        return False, "build failed: " + out[-300:]
    tmp = os.path.join(d, ".t")
    os.makedirs(tmp, exist_ok=True)
    sh("sed 's#/tmp/.neatvi#%s/.neatvi#g' test.sh > .t/t.sh" % tmp, cwd=d)
    rc, out = sh("timeout 300 sh .t/t.sh", cwd=d)
    n_ok = out.count("OK")
    return (n_ok == 60 and "Failed" not in out), "%d/60 tests OK" % n_ok


PROP_DEPENDENT = {"T4"}      # rules whose scope depends on the property they run for


def run_checks(d):
    """Every property's rules on the scratch tree d, facts extracted once and every rule run once:
    {property: {exit, rules that reported a violation, first violation}} as ./check would exit."""
    sys.path.insert(0, VERIF)
    from nv import facts, report
    from nv.props import PROPS as SPECS, all_rules
    rules = all_rules()
    res = {}
    try:
        prog = facts.load_program(d)
    except facts.AnalysisBroken as e:
        return {p: {"exit": 2, "rules": [], "first": "extraction: %s" % str(e)[:200]} for p in PROPS if p in SPECS}
    per_rule = {}
    for p in PROPS:
        if p not in SPECS:
            continue
        for rid in SPECS[p]["rules"]:
            k_ = (rid, p) if rid in PROP_DEPENDENT else rid
            if k_ in per_rule or rid not in rules:
                continue
            ctx = report.Ctx(prog, p, "quick")
            ctx.run(rid, rules[rid])
            viol = [r for r in ctx.results if r.status == "violation"]
            bad = [r for r in ctx.results if r.status in ("broken", "inconclusive")]
            per_rule[k_] = (viol, bad)
    for p in PROPS:
        if p not in SPECS:
            continue
        get = lambda rid: per_rule.get((rid, p) if rid in PROP_DEPENDENT else rid, ([], []))
        vs = [(rid, r) for rid in SPECS[p]["rules"] for r in get(rid)[0]]
        bs = [(rid, r) for rid in SPECS[p]["rules"] for r in get(rid)[1]]
        first = ""
        if vs:
            rid, r = vs[0]
            first = ("violation rule=%s %s %s: %s" % (rid, r.func, r.construct, r.detail))[:300]
        elif bs:
            rid, r = bs[0]
            first = ("%s rule=%s %s %s: %s" % (r.status, rid, r.func, r.construct, r.detail))[:300]
        res[p] = {"exit": 1 if vs else (2 if bs else 0), "rules": sorted({rid for rid, r in vs}), "first": first}
    return res


def evaluate(sdir, confirm=True):
    meta_p = os.path.join(sdir, "meta.json")
    meta = json.load(open(meta_p)) if os.path.exists(meta_p) else {}
    base = scratch_repo()
    mut = scratch_repo()
    try:
        rc, out = sh("git apply --check %s 2>&1 || patch -p1 --dry-run < %s" % (
            os.path.join(sdir, "patch.diff"), os.path.join(sdir, "patch.diff")), cwd=mut)
        rc, out = sh("patch -p1 < %s" % os.path.join(sdir, "patch.diff"), cwd=mut)
        if rc != 0:
            meta["confirmed"] = False
            meta["why"] = "patch does not apply to HEAD: " + out[-200:]
            json.dump(meta, open(meta_p, "w"), indent=1)
            return meta
        if confirm:
            okb, tb = build_and_test(base)
            okm, tm = build_and_test(mut)
            demo = os.path.join(sdir, "demo.sh")
            asan = "ASan" in open(os.path.join(sdir, "meta.txt")).read() if os.path.exists(os.path.join(sdir, "meta.txt")) else False
            bdir, mdir = base, mut
            if asan:
                for dd in (base, mut):
                    sh("mkdir -p asan && cp *.c *.h Makefile asan/ && cd asan && make CC='clang -fsanitize=address,undefined -g' "
                       "CFLAGS=-O1 LDFLAGS='-fsanitize=address,undefined' >/dev/null 2>&1", cwd=dd)
                bdir, mdir = os.path.join(base, "asan"), os.path.join(mut, "asan")
            r0, o0 = sh("timeout 120 sh %s %s" % (demo, bdir), cwd=tempfile.gettempdir())
            r1, o1 = sh("timeout 120 sh %s %s" % (demo, mdir), cwd=tempfile.gettempdir())
            meta.update({"tests_unchanged": tb, "tests_changed": tm, "demo_unchanged_exit": r0,
                         "demo_changed_exit": r1, "needs_asan": asan,
                         "confirmed": bool(okb and okm and r0 == 0 and r1 != 0)})
        meta["checks"] = run_checks(mut)
        meta["detected_by"] = sorted(p for p, r in meta["checks"].items() if r["exit"] == 1)
        meta["analysis_broken"] = sorted(p for p, r in meta["checks"].items() if r["exit"] == 2)
        json.dump(meta, open(meta_p, "w"), indent=1)
        return meta
    finally:
        shutil.rmtree(base, ignore_errors=True)
        shutil.rmtree(mut, ignore_errors=True)


def main():
    if sys.argv[1] == "import":
        src, prop, name = sys.argv[2:5]
        dst = os.path.join(VERIF, "seeded", name)
        os.makedirs(dst, exist_ok=True)
        for fn in ("patch.diff", "demo.sh", "meta.txt"):
            if os.path.exists(os.path.join(src, fn)):
                shutil.copy(os.path.join(src, fn), dst)
        meta = {"name": name, "property": prop, "source": "independent sub-agent given only the property text",
                "needs": open(os.path.join(dst, "meta.txt")).read().strip() if os.path.exists(os.path.join(dst, "meta.txt")) else ""}
        json.dump(meta, open(os.path.join(dst, "meta.json"), "w"), indent=1)
        m = evaluate(dst)
        print(name, "confirmed" if m.get("confirmed") else "NOT CONFIRMED (%s)" % m.get("why", ""),
              "| detected by", m.get("detected_by"), "| broken", m.get("analysis_broken"))
        if not m.get("confirmed"):
            shutil.rmtree(dst)
    elif sys.argv[1] == "run":
        names = sys.argv[2:] or sorted(os.path.basename(p) for p in glob.glob(os.path.join(VERIF, "seeded", "*")))
        from concurrent.futures import ThreadPoolExecutor
        with ThreadPoolExecutor(max_workers=6) as ex:
            for n, m in zip(names, ex.map(lambda n: evaluate(os.path.join(VERIF, "seeded", n), confirm=False), names)):
                own = m["property"] in m.get("detected_by", [])
                print("%-10s %-4s own=%-5s detected_by=%s broken=%s" % (n, m["property"], own, m.get("detected_by"), m.get("analysis_broken")))


if __name__ == "__main__":
    main()
