// nvfacts: libTooling fact extractor for the neatvi static rules.
//
// Usage: nvfacts <unit.c> -o <out.json> -- <compile flags>
//
// For one translation unit it writes a JSON document with
//   records   : struct definitions (fields, types, array extents)
//   globals   : file-scope variables with type, array extent, byte size and
//               the full initialiser tree (constant tables)
//   functions : every function defined outside system headers, with
//                 - the statement/expression tree of its body (node ids),
//                 - clang's CFG (setAllAlwaysAdd, no pruning) as blocks of
//                   node ids in evaluation order, terminators, successors
//                   and case labels.
// Integer-typed expressions carry their constant-evaluated value ("cv") when
// clang can fold them, so the rules compare values and resolved declarations,
// never macro spellings, text or line numbers.
#include "clang/AST/ASTConsumer.h"
#include "clang/AST/ASTContext.h"
#include "clang/AST/Decl.h"
#include "clang/AST/Expr.h"
#include "clang/AST/Stmt.h"
#include "clang/AST/RecordLayout.h"
#include "clang/Analysis/CFG.h"
#include "clang/Basic/SourceManager.h"
#include "clang/Frontend/CompilerInstance.h"
#include "clang/Frontend/FrontendAction.h"
#include "clang/Tooling/CompilationDatabase.h"
#include "clang/Tooling/Tooling.h"
#include "llvm/Support/JSON.h"
#include "llvm/Support/raw_ostream.h"
#include <map>
#include <string>
#include <vector>

using namespace clang;
using llvm::json::OStream;

static std::string OutPath;

namespace {

struct Emitter {
  ASTContext &Ctx;
  SourceManager &SM;
  OStream &J;
  std::map<const Stmt *, int> StmtId;
  std::map<const Decl *, int> DeclId;
  std::map<const VarDecl *, int> VarNode;
  int NextNode = 1;
  int NextDecl = 1;

  Emitter(ASTContext &C, OStream &J) : Ctx(C), SM(C.getSourceManager()), J(J) {}

  int did(const Decl *D) {
    D = D->getCanonicalDecl();
    auto It = DeclId.find(D);
    if (It != DeclId.end())
      return It->second;
    return DeclId[D] = NextDecl++;
  }

  unsigned line(SourceLocation L) {
    if (L.isInvalid())
      return 0;
    return SM.getExpansionLineNumber(L);
  }
  std::string file(SourceLocation L) {
    if (L.isInvalid())
      return "";
    llvm::StringRef F = SM.getFilename(SM.getExpansionLoc(L));
    size_t P = F.rfind('/');
    return (P == llvm::StringRef::npos ? F : F.substr(P + 1)).str();
  }

  static std::string latin1(llvm::StringRef Bytes) {
    std::string Out;
    for (unsigned char B : Bytes) {
      if (B < 0x80)
        Out.push_back((char)B);
      else {
        Out.push_back((char)(0xC0 | (B >> 6)));
        Out.push_back((char)(0x80 | (B & 0x3F)));
      }
    }
    return Out;
  }

  void typeAttrs(QualType T) {
    J.attribute("ty", T.getAsString());
    if (const auto *AT = Ctx.getAsConstantArrayType(T)) {
      J.attribute("arr_n", (int64_t)AT->getSize().getZExtValue());
      J.attribute("arr_elem", AT->getElementType().getAsString());
      if (!AT->getElementType()->isIncompleteType())
        J.attribute("arr_esz",
                    (int64_t)Ctx.getTypeSizeInChars(AT->getElementType())
                        .getQuantity());
    }
    if (!T->isIncompleteType() && !T->isFunctionType() && !T->isVoidType())
      J.attribute("size", (int64_t)Ctx.getTypeSizeInChars(T).getQuantity());
  }

  void constVal(const Expr *E) {
    if (E->isValueDependent())
      return;
    QualType T = E->getType();
    if (!T->isIntegralOrEnumerationType())
      return;
    Expr::EvalResult R;
    if (E->EvaluateAsInt(R, Ctx) && !R.HasSideEffects)
      J.attribute("cv", (int64_t)R.Val.getInt().getExtValue());
  }

  const char *declCat(const ValueDecl *D) {
    if (isa<FunctionDecl>(D))
      return "func";
    if (isa<EnumConstantDecl>(D))
      return "enum";
    if (isa<ParmVarDecl>(D))
      return "param";
    if (const auto *V = dyn_cast<VarDecl>(D)) {
      if (V->isLocalVarDecl())
        return V->isStaticLocal() ? "slocal" : "local";
      return "global";
    }
    return "other";
  }

  void emitVar(const VarDecl *V) {
    J.object([&] {
      int Id = NextNode++;
      VarNode[V] = Id;
      J.attribute("k", "var");
      J.attribute("id", Id);
      J.attribute("ln", (int64_t)line(V->getLocation()));
      J.attribute("name", V->getName());
      J.attribute("did", did(V));
      J.attribute("cat", declCat(V));
      typeAttrs(V->getType());
      if (V->hasInit()) {
        J.attributeBegin("init");
        emitExpr(V->getInit());
        J.attributeEnd();
      }
    });
  }

  // ---- expressions --------------------------------------------------------
  static const Expr *strip(const Expr *E) {
    while (true) {
      if (const auto *P = dyn_cast<ParenExpr>(E))
        E = P->getSubExpr();
      else if (const auto *I = dyn_cast<ImplicitCastExpr>(E))
        E = I->getSubExpr();
      else if (const auto *C = dyn_cast<ConstantExpr>(E))
        E = C->getSubExpr();
      else
        return E;
    }
  }

  void head(const Stmt *S, const char *K) {
    int Id = NextNode++;
    StmtId[S] = Id;
    J.attribute("k", K);
    J.attribute("id", Id);
    J.attribute("ln", (int64_t)line(S->getBeginLoc()));
  }

  void emitExpr(const Expr *E0) {
    if (!E0) {
      J.value(nullptr);
      return;
    }
    const Expr *E = strip(E0);
    J.object([&] {
      if (const auto *IL = dyn_cast<IntegerLiteral>(E)) {
        head(E, "int");
        J.attribute("v", (int64_t)IL->getValue().getSExtValue());
      } else if (const auto *CL = dyn_cast<CharacterLiteral>(E)) {
        head(E, "int");
        J.attribute("v", (int64_t)CL->getValue());
        J.attribute("chr", true);
      } else if (const auto *SL = dyn_cast<StringLiteral>(E)) {
        head(E, "str");
        J.attribute("v", latin1(SL->getBytes()));
      } else if (const auto *FL = dyn_cast<FloatingLiteral>(E)) {
        head(E, "float");
        J.attribute("v", FL->getValueAsApproximateDouble());
      } else if (const auto *DR = dyn_cast<DeclRefExpr>(E)) {
        head(E, "ref");
        const ValueDecl *D = DR->getDecl();
        J.attribute("name", D->getName());
        J.attribute("cat", declCat(D));
        J.attribute("did", did(D));
        if (const auto *V = dyn_cast<VarDecl>(D)) {
          if (V->getStorageClass() == SC_Static && !V->isLocalVarDecl())
            J.attribute("static", true);
        }
      } else if (const auto *ME = dyn_cast<MemberExpr>(E)) {
        head(E, "member");
        J.attribute("field", ME->getMemberDecl()->getName());
        if (const auto *FD = dyn_cast<FieldDecl>(ME->getMemberDecl()))
          J.attribute("rec", FD->getParent()->getName());
        J.attribute("arrow", ME->isArrow());
        J.attributeBegin("base");
        emitExpr(ME->getBase());
        J.attributeEnd();
      } else if (const auto *AS = dyn_cast<ArraySubscriptExpr>(E)) {
        head(E, "sub");
        J.attributeBegin("base");
        emitExpr(AS->getBase());
        J.attributeEnd();
        J.attributeBegin("idx");
        emitExpr(AS->getIdx());
        J.attributeEnd();
      } else if (const auto *UO = dyn_cast<UnaryOperator>(E)) {
        head(E, "un");
        std::string Op = UnaryOperator::getOpcodeStr(UO->getOpcode()).str();
        if (UO->isIncrementDecrementOp())
          Op = (UO->isPrefix() ? "pre" : "post") + Op;
        J.attribute("op", Op);
        J.attributeBegin("e");
        emitExpr(UO->getSubExpr());
        J.attributeEnd();
      } else if (const auto *BO = dyn_cast<BinaryOperator>(E)) {
        head(E, "bin");
        J.attribute("op", BO->getOpcodeStr());
        J.attributeBegin("l");
        emitExpr(BO->getLHS());
        J.attributeEnd();
        J.attributeBegin("r");
        emitExpr(BO->getRHS());
        J.attributeEnd();
      } else if (const auto *CO = dyn_cast<ConditionalOperator>(E)) {
        head(E, "cond");
        J.attributeBegin("c");
        emitExpr(CO->getCond());
        J.attributeEnd();
        J.attributeBegin("t");
        emitExpr(CO->getTrueExpr());
        J.attributeEnd();
        J.attributeBegin("f");
        emitExpr(CO->getFalseExpr());
        J.attributeEnd();
      } else if (const auto *CE = dyn_cast<CallExpr>(E)) {
        head(E, "call");
        if (const FunctionDecl *FD = CE->getDirectCallee()) {
          J.attribute("fn", FD->getName());
          J.attribute("fdid", did(FD));
          if (FD->getStorageClass() == SC_Static)
            J.attribute("static", true);
        } else {
          J.attributeBegin("fnexpr");
          emitExpr(CE->getCallee());
          J.attributeEnd();
        }
        J.attributeArray("args", [&] {
          for (const Expr *A : CE->arguments())
            emitExpr(A);
        });
      } else if (const auto *CC = dyn_cast<CStyleCastExpr>(E)) {
        head(E, "cast");
        J.attribute("to", CC->getType().getAsString());
        J.attributeBegin("e");
        emitExpr(CC->getSubExpr());
        J.attributeEnd();
      } else if (const auto *SZ = dyn_cast<UnaryExprOrTypeTraitExpr>(E)) {
        head(E, "sizeof");
        if (SZ->isArgumentType())
          J.attribute("of_type", SZ->getArgumentType().getAsString());
        else {
          J.attributeBegin("of");
          emitExpr(SZ->getArgumentExpr());
          J.attributeEnd();
        }
      } else if (const auto *IL = dyn_cast<InitListExpr>(E)) {
        head(E, "init");
        const InitListExpr *Sem = IL->isSemanticForm() ? IL : IL->getSemanticForm();
        if (!Sem)
          Sem = IL;
        J.attributeArray("elems", [&] {
          for (const Expr *X : Sem->inits())
            emitExpr(X);
        });
        if (Sem->hasArrayFiller())
          J.attribute("filler", true);
      } else if (isa<ImplicitValueInitExpr>(E)) {
        head(E, "zero");
      } else if (const auto *CL = dyn_cast<CompoundLiteralExpr>(E)) {
        head(E, "compound_lit");
        J.attributeBegin("e");
        emitExpr(CL->getInitializer());
        J.attributeEnd();
      } else if (const auto *SE = dyn_cast<StmtExpr>(E)) {
        head(E, "stmtexpr");
        J.attributeBegin("body");
        emitStmt(SE->getSubStmt());
        J.attributeEnd();
      } else if (const auto *VA = dyn_cast<VAArgExpr>(E)) {
        head(E, "va_arg");
        J.attributeBegin("e");
        emitExpr(VA->getSubExpr());
        J.attributeEnd();
      } else if (const auto *DI = dyn_cast<DesignatedInitExpr>(E)) {
        head(E, "desig");
        J.attributeBegin("e");
        emitExpr(DI->getInit());
        J.attributeEnd();
      } else if (const auto *PE = dyn_cast<PredefinedExpr>(E)) {
        head(E, "str");
        J.attribute("v", PE->getFunctionName() ? latin1(PE->getFunctionName()->getBytes()) : "");
      } else {
        head(E, "unknown_expr");
        J.attribute("cls", E->getStmtClassName());
      }
      J.attribute("ty", E->getType().getAsString());
      if (E->getType()->isPointerType())
        J.attribute("ptr", true);
      if (!isa<IntegerLiteral>(E) && !isa<CharacterLiteral>(E) &&
          !isa<StringLiteral>(E) && !isa<InitListExpr>(E))
        constVal(E);
      // explicit cast through implicit conversions is visible in E0's type
      if (E0->getType() != E->getType())
        J.attribute("cty", E0->getType().getAsString());
    });
  }

  // ---- statements ---------------------------------------------------------
  void emitStmt(const Stmt *S) {
    if (!S) {
      J.value(nullptr);
      return;
    }
    if (const auto *E = dyn_cast<Expr>(S)) {
      emitExpr(E);
      return;
    }
    J.object([&] {
      if (const auto *CS = dyn_cast<CompoundStmt>(S)) {
        head(S, "block");
        J.attributeArray("body", [&] {
          for (const Stmt *C : CS->body())
            emitStmt(C);
        });
      } else if (const auto *IS = dyn_cast<IfStmt>(S)) {
        head(S, "if");
        J.attributeBegin("c");
        emitExpr(IS->getCond());
        J.attributeEnd();
        J.attributeBegin("t");
        emitStmt(IS->getThen());
        J.attributeEnd();
        J.attributeBegin("e");
        emitStmt(IS->getElse());
        J.attributeEnd();
      } else if (const auto *WS = dyn_cast<WhileStmt>(S)) {
        head(S, "while");
        J.attributeBegin("c");
        emitExpr(WS->getCond());
        J.attributeEnd();
        J.attributeBegin("body");
        emitStmt(WS->getBody());
        J.attributeEnd();
      } else if (const auto *DS = dyn_cast<DoStmt>(S)) {
        head(S, "do");
        J.attributeBegin("body");
        emitStmt(DS->getBody());
        J.attributeEnd();
        J.attributeBegin("c");
        emitExpr(DS->getCond());
        J.attributeEnd();
      } else if (const auto *FS = dyn_cast<ForStmt>(S)) {
        head(S, "for");
        J.attributeBegin("init");
        emitStmt(FS->getInit());
        J.attributeEnd();
        J.attributeBegin("c");
        emitExpr(FS->getCond());
        J.attributeEnd();
        J.attributeBegin("inc");
        emitExpr(FS->getInc());
        J.attributeEnd();
        J.attributeBegin("body");
        emitStmt(FS->getBody());
        J.attributeEnd();
      } else if (const auto *SS = dyn_cast<SwitchStmt>(S)) {
        head(S, "switch");
        J.attributeBegin("c");
        emitExpr(SS->getCond());
        J.attributeEnd();
        J.attributeBegin("body");
        emitStmt(SS->getBody());
        J.attributeEnd();
      } else if (const auto *CS2 = dyn_cast<CaseStmt>(S)) {
        head(S, "case");
        J.attributeBegin("v");
        emitExpr(CS2->getLHS());
        J.attributeEnd();
        J.attributeBegin("body");
        emitStmt(CS2->getSubStmt());
        J.attributeEnd();
      } else if (const auto *DF = dyn_cast<DefaultStmt>(S)) {
        head(S, "default");
        J.attributeBegin("body");
        emitStmt(DF->getSubStmt());
        J.attributeEnd();
      } else if (isa<BreakStmt>(S)) {
        head(S, "break");
      } else if (isa<ContinueStmt>(S)) {
        head(S, "continue");
      } else if (const auto *RS = dyn_cast<ReturnStmt>(S)) {
        head(S, "return");
        J.attributeBegin("e");
        emitExpr(RS->getRetValue());
        J.attributeEnd();
      } else if (const auto *GS = dyn_cast<GotoStmt>(S)) {
        head(S, "goto");
        J.attribute("label", GS->getLabel()->getName());
      } else if (const auto *LS = dyn_cast<LabelStmt>(S)) {
        head(S, "label");
        J.attribute("name", LS->getName());
        J.attributeBegin("body");
        emitStmt(LS->getSubStmt());
        J.attributeEnd();
      } else if (isa<NullStmt>(S)) {
        head(S, "null");
      } else if (const auto *DS2 = dyn_cast<DeclStmt>(S)) {
        head(S, "decl");
        J.attributeArray("vars", [&] {
          for (const Decl *D : DS2->decls())
            if (const auto *V = dyn_cast<VarDecl>(D))
              emitVar(V);
        });
      } else {
        head(S, "unknown_stmt");
        J.attribute("cls", S->getStmtClassName());
      }
    });
  }

  // ---- CFG ---------------------------------------------------------------
  int nodeOf(const Stmt *S) {
    if (!S)
      return 0;
    if (const auto *E = dyn_cast<Expr>(S))
      S = strip(E);
    auto It = StmtId.find(S);
    return It == StmtId.end() ? 0 : It->second;
  }

  void emitCFG(const FunctionDecl *FD) {
    CFG::BuildOptions BO;
    BO.setAllAlwaysAdd();
    BO.PruneTriviallyFalseEdges = false;
    BO.AddEHEdges = false;
    std::unique_ptr<CFG> G = CFG::buildCFG(FD, FD->getBody(), &Ctx, BO);
    if (!G) {
      J.attribute("cfg", nullptr);
      return;
    }
    J.attributeObject("cfg", [&] {
      J.attribute("entry", (int64_t)G->getEntry().getBlockID());
      J.attribute("exit", (int64_t)G->getExit().getBlockID());
      J.attributeArray("blocks", [&] {
        for (const CFGBlock *B : *G) {
          J.object([&] {
            J.attribute("id", (int64_t)B->getBlockID());
            J.attributeArray("ev", [&] {
              for (const CFGElement &El : *B) {
                if (auto CS = El.getAs<CFGStmt>()) {
                  const Stmt *S = CS->getStmt();
                  if (const auto *DS = dyn_cast<DeclStmt>(S)) {
                    for (const Decl *D : DS->decls())
                      if (const auto *V = dyn_cast<VarDecl>(D)) {
                        auto It = VarNode.find(V);
                        if (It != VarNode.end())
                          J.value(It->second);
                      }
                    continue;
                  }
                  if (isa<ImplicitCastExpr>(S) || isa<ParenExpr>(S) ||
                      isa<ConstantExpr>(S))
                    continue;
                  auto It = StmtId.find(S);
                  if (It != StmtId.end())
                    J.value(It->second);
                }
              }
            });
            if (const Stmt *T = B->getTerminatorStmt()) {
              J.attributeObject("term", [&] {
                const char *K = "other";
                if (isa<IfStmt>(T))
                  K = "if";
                else if (isa<WhileStmt>(T))
                  K = "while";
                else if (isa<ForStmt>(T))
                  K = "for";
                else if (isa<DoStmt>(T))
                  K = "do";
                else if (isa<SwitchStmt>(T))
                  K = "switch";
                else if (isa<ConditionalOperator>(T))
                  K = "cond";
                else if (const auto *BOp = dyn_cast<BinaryOperator>(T))
                  K = BOp->getOpcode() == BO_LAnd ? "and"
                      : BOp->getOpcode() == BO_LOr ? "or" : "other";
                else if (isa<GotoStmt>(T))
                  K = "goto";
                else if (isa<BreakStmt>(T))
                  K = "break";
                else if (isa<ContinueStmt>(T))
                  K = "continue";
                J.attribute("kind", K);
                J.attribute("stmt", nodeOf(T));
                // the deciding leaf: for `if (a && b)` the last block's condition is
                // `b`, which getLastCondition() returns (the terminator's own
                // condition would be the whole `a && b`).
                const Stmt *LC = B->getLastCondition();
                int CondId = LC ? nodeOf(LC) : 0;
                if (!CondId)
                  CondId = nodeOf(B->getTerminatorCondition());
                J.attribute("cond", CondId);
              });
            }
            if (const Stmt *L = B->getLabel()) {
              J.attributeObject("label", [&] {
                if (const auto *CS = dyn_cast<CaseStmt>(L)) {
                  J.attribute("kind", "case");
                  Expr::EvalResult R;
                  if (CS->getLHS()->EvaluateAsInt(R, Ctx))
                    J.attribute("v", (int64_t)R.Val.getInt().getExtValue());
                  J.attribute("stmt", nodeOf(L));
                } else if (isa<DefaultStmt>(L)) {
                  J.attribute("kind", "default");
                  J.attribute("stmt", nodeOf(L));
                } else if (const auto *LS = dyn_cast<LabelStmt>(L)) {
                  J.attribute("kind", "label");
                  J.attribute("name", LS->getName());
                }
              });
            }
            if (B->hasNoReturnElement())
              J.attribute("noreturn", true);
            J.attributeArray("succ", [&] {
              for (auto SI = B->succ_begin(); SI != B->succ_end(); ++SI) {
                const CFGBlock *SB = SI->getReachableBlock();
                if (!SB)
                  SB = SI->getPossiblyUnreachableBlock();
                if (SB)
                  J.value((int64_t)SB->getBlockID());
                else
                  J.value(nullptr);
              }
            });
          });
        }
      });
    });
  }

  // ---- top level ---------------------------------------------------------
  void emitFunction(const FunctionDecl *FD) {
    J.object([&] {
      J.attribute("name", FD->getName());
      J.attribute("did", did(FD));
      J.attribute("file", file(FD->getLocation()));
      J.attribute("line", (int64_t)line(FD->getBeginLoc()));
      J.attribute("end", (int64_t)line(FD->getEndLoc()));
      J.attribute("static", FD->getStorageClass() == SC_Static);
      J.attribute("ret", FD->getReturnType().getAsString());
      J.attribute("variadic", FD->isVariadic());
      J.attributeArray("params", [&] {
        for (const ParmVarDecl *P : FD->parameters()) {
          J.object([&] {
            J.attribute("name", P->getName());
            J.attribute("did", did(P));
            J.attribute("ty", P->getType().getAsString());
          });
        }
      });
      J.attributeBegin("body");
      emitStmt(FD->getBody());
      J.attributeEnd();
      emitCFG(FD);
    });
  }

  void emitRecord(const RecordDecl *RD) {
    J.object([&] {
      J.attribute("name", RD->getName());
      J.attribute("file", file(RD->getLocation()));
      J.attribute("line", (int64_t)line(RD->getLocation()));
      J.attribute("size",
                  (int64_t)Ctx.getTypeSizeInChars(Ctx.getRecordType(RD)).getQuantity());
      J.attributeArray("fields", [&] {
        for (const FieldDecl *F : RD->fields()) {
          J.object([&] {
            J.attribute("name", F->getName());
            typeAttrs(F->getType());
          });
        }
      });
    });
  }
};

class Consumer : public ASTConsumer {
public:
  void HandleTranslationUnit(ASTContext &Ctx) override {
    std::error_code EC;
    llvm::raw_fd_ostream OS(OutPath, EC);
    if (EC) {
      llvm::errs() << "nvfacts: cannot write " << OutPath << "\n";
      exit(3);
    }
    OStream J(OS);
    Emitter Em(Ctx, J);
    SourceManager &SM = Ctx.getSourceManager();
    std::vector<const FunctionDecl *> Funcs;
    std::vector<const VarDecl *> Vars;
    std::vector<const RecordDecl *> Recs;
    std::vector<const FunctionDecl *> Protos;
    for (const Decl *D : Ctx.getTranslationUnitDecl()->decls()) {
      if (SM.isInSystemHeader(D->getLocation()))
        continue;
      if (const auto *FD = dyn_cast<FunctionDecl>(D)) {
        if (FD->doesThisDeclarationHaveABody())
          Funcs.push_back(FD);
        else
          Protos.push_back(FD);
      } else if (const auto *VD = dyn_cast<VarDecl>(D)) {
        Vars.push_back(VD);
      } else if (const auto *RD = dyn_cast<RecordDecl>(D)) {
        if (RD->isCompleteDefinition())
          Recs.push_back(RD);
      }
    }
    J.object([&] {
      J.attribute("unit",
                  Em.file(SM.getLocForStartOfFile(SM.getMainFileID())));
      J.attributeArray("records", [&] {
        for (const RecordDecl *RD : Recs)
          Em.emitRecord(RD);
      });
      J.attributeArray("globals", [&] {
        for (const VarDecl *VD : Vars) {
          J.object([&] {
            J.attribute("name", VD->getName());
            J.attribute("did", Em.did(VD));
            J.attribute("file", Em.file(VD->getLocation()));
            J.attribute("line", (int64_t)Em.line(VD->getLocation()));
            J.attribute("static", VD->getStorageClass() == SC_Static);
            J.attribute("extern_decl",
                        VD->isThisDeclarationADefinition() ==
                            VarDecl::DeclarationOnly);
            Em.typeAttrs(VD->getType());
            if (VD->hasInit() && VD->getInit() == VD->getAnyInitializer()) {
              J.attributeBegin("init");
              Em.emitExpr(VD->getInit());
              J.attributeEnd();
            }
          });
        }
      });
      J.attributeArray("functions", [&] {
        for (const FunctionDecl *FD : Funcs)
          Em.emitFunction(FD);
      });
      J.attributeArray("protos", [&] {
        for (const FunctionDecl *FD : Protos)
          J.object([&] {
            J.attribute("name", FD->getName());
            J.attribute("ret", FD->getReturnType().getAsString());
          });
      });
    });
    OS << "\n";
  }
};

class Action : public ASTFrontendAction {
public:
  std::unique_ptr<ASTConsumer> CreateASTConsumer(CompilerInstance &,
                                                 llvm::StringRef) override {
    return std::make_unique<Consumer>();
  }
};

} // namespace

int main(int argc, const char **argv) {
  // nvfacts <file> -o <out> -- flags...
  std::string File;
  std::vector<std::string> Flags;
  int I = 1;
  for (; I < argc; ++I) {
    std::string A = argv[I];
    if (A == "--") {
      ++I;
      break;
    }
    if (A == "-o" && I + 1 < argc)
      OutPath = argv[++I];
    else
      File = A;
  }
  for (; I < argc; ++I)
    Flags.push_back(argv[I]);
  if (File.empty() || OutPath.empty()) {
    llvm::errs() << "usage: nvfacts <unit.c> -o <out.json> -- <flags>\n";
    return 2;
  }
  std::string Dir = ".";
  size_t P = File.rfind('/');
  if (P != std::string::npos)
    Dir = File.substr(0, P);
  clang::tooling::FixedCompilationDatabase DB(Dir, Flags);
  clang::tooling::ClangTool Tool(DB, {File});
  return Tool.run(clang::tooling::newFrontendActionFactory<Action>().get());
}
