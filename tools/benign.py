#!/usr/bin/env python3
"""Robustness against harmless edits: apply each behaviour-preserving refactoring (written by
an independent sub-agent that saw nothing of /verif) to a scratch copy of /repo's HEAD and
run every property check on it.  Exit 1 (VIOLATION) on such a copy is a false alarm; exit 2
(ANALYSIS-BROKEN) means a rule could not fill its slots any more.

  tools/benign.py import <dir with patch.diff meta.txt> <name>     keep under /verif/benign/<name>
  tools/benign.py run [name ...]
"""
import glob
import json
import os
import shutil
import sys

HERE = os.path.dirname(os.path.abspath(__file__))
sys.path.insert(0, HERE)
import seeded as S  # noqa: E402

VERIF = S.VERIF


def evaluate(bdir, confirm):
    meta_p = os.path.join(bdir, "meta.json")
    meta = json.load(open(meta_p)) if os.path.exists(meta_p) else {"name": os.path.basename(bdir)}
    d = S.scratch_repo()
    try:
        rc, out = S.sh("patch -p1 -s < %s" % os.path.join(bdir, "patch.diff"), cwd=d)
        if rc != 0:
            meta["applies"] = False
            for k_ in ("checks", "false_alarms", "analysis_broken"):
                meta[k_] = {} if k_ == "checks" else []
            meta["note"] = "no longer applies to the current tree (the code it reshapes was repaired since)"
            json.dump(meta, open(meta_p, "w"), indent=1)
            return meta
        meta["applies"] = True
        if confirm:
            ok, t = S.build_and_test(d)
            meta["tests"] = t
            meta["confirmed"] = ok
        meta["checks"] = {p: {"exit": r["exit"], "rules": r["rules"], "first": r["first"]}
                          for p, r in S.run_checks(d).items() if r["exit"] != 0}
        meta["false_alarms"] = sorted(p for p, r in meta["checks"].items() if r["exit"] == 1)
        meta["analysis_broken"] = sorted(p for p, r in meta["checks"].items() if r["exit"] == 2)
        json.dump(meta, open(meta_p, "w"), indent=1)
        return meta
    finally:
        shutil.rmtree(d, ignore_errors=True)


def main():
    if sys.argv[1] == "import":
        src, name = sys.argv[2:4]
        dst = os.path.join(VERIF, "benign", name)
        os.makedirs(dst, exist_ok=True)
        for fn in ("patch.diff", "meta.txt"):
            if os.path.exists(os.path.join(src, fn)):
                shutil.copy(os.path.join(src, fn), dst)
        m = {"name": name, "what": open(os.path.join(dst, "meta.txt")).read().strip()
             if os.path.exists(os.path.join(dst, "meta.txt")) else ""}
        json.dump(m, open(os.path.join(dst, "meta.json"), "w"), indent=1)
        m = evaluate(dst, True)
        print(name, "tests:", m.get("tests"), "| false alarms", m.get("false_alarms"), "| broken", m.get("analysis_broken"))
        if not m.get("confirmed"):
            shutil.rmtree(dst)
    else:
        names = sys.argv[2:] or sorted(os.path.basename(p) for p in glob.glob(os.path.join(VERIF, "benign", "*")))
        from concurrent.futures import ThreadPoolExecutor
        with ThreadPoolExecutor(max_workers=6) as ex:
            for n, m in zip(names, ex.map(lambda n: evaluate(os.path.join(VERIF, "benign", n), False), names)):
                print("%-8s false_alarms=%s broken=%s" % (n, m.get("false_alarms"), m.get("analysis_broken")))


if __name__ == "__main__":
    main()
