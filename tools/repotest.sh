#!/bin/sh
# run the repository's 60 tests on a copy of the current /repo tree (outside /repo and /verif)
set -e
d=$(mktemp -d /tmp/nvtest.XXXXXX)
cp -r /repo/. $d/
cd $d
make -s clean >/dev/null 2>&1 || true
make -s >/dev/null 2>&1
mkdir -p .t
sed "s#/tmp/.neatvi#$d/.t/.neatvi#g" test.sh > .t/t.sh
out=$(timeout 900 sh .t/t.sh 2>&1 || true)
echo "$out" | grep -c "OK" || true
echo "$out" | grep -i "fail" || true
cd /
rm -rf $d
