#!/usr/bin/env python3
import json, sys, glob
import jsonschema
jsonschema.validate(json.load(open('/verif/MANIFEST.json')), json.load(open('/root/.vp/MANIFEST.schema.json')))
es = json.load(open('/root/.vp/EVIDENCE.schema.json'))
for p in sorted(glob.glob('/verif/evidence/C*.json')):
    jsonschema.validate(json.load(open(p)), es)
print('valid', len(glob.glob('/verif/evidence/C*.json')), 'evidence files')
