#!/bin/sh
# tools/try.sh <benign|seeded>/<name> <property> [rules]  -- run one check on a scratch copy of /repo with the patch applied
d=$(mktemp -d /tmp/nvs.XXXXXX)
cp /repo/*.c /repo/*.h /repo/Makefile $d/
(cd $d && patch -p1 -s < /verif/$1/patch.diff) || echo "patch does not apply"
mkdir -p /tmp/nvs-ev
if [ -n "$3" ]; then r="--rules $3"; fi
NV_EVIDENCE_DIR=/tmp/nvs-ev /verif/check $2 $r --no-selftest --repo $d 2>&1 | grep -v "^  ok" | tail -${4:-4} | cut -c1-${5:-700}
rm -rf $d
