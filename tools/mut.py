#!/usr/bin/env python3
"""Developer tool: run seeded mutants against their rules.  tools/mut.py [id-substring]"""
import os
import sys
from concurrent.futures import ThreadPoolExecutor

HERE = os.path.dirname(os.path.dirname(os.path.abspath(__file__)))
sys.path.insert(0, HERE)
from nv import selftest  # noqa: E402
from nv.props import all_rules  # noqa: E402

rules = all_rules()
flt = sys.argv[1] if len(sys.argv) > 1 else ""
muts = [m for m in selftest.load_mutants() if flt in m["id"] or flt == m["rule"]]
bad = 0
with ThreadPoolExecutor(max_workers=12) as ex:
    def one(m):
        if m["rule"] not in rules:
            return "norule", ""
        return selftest.run_mutant(m, rules)
    for m, (st, det) in zip(muts, ex.map(one, muts)):
        print("%-9s %-28s %-4s %s" % (st, m["id"], m["rule"], det))
        if st != "detected":
            bad += 1
print("%d mutants, %d not detected" % (len(muts), bad))
sys.exit(1 if bad else 0)
