#!/usr/bin/env python3
"""Regenerate MANIFEST.json from nv/props.py (keeps the two in step)."""
import json
import os
import sys

HERE = os.path.dirname(os.path.dirname(os.path.abspath(__file__)))
sys.path.insert(0, HERE)
from nv.props import PROPS, NOT_APPLICABLE  # noqa: E402

ALL = ["C%02d" % i for i in range(1, 21)]

SETUP = ("cd /verif/tools && clang++ $(llvm-config-14 --cxxflags) -fno-rtti -O1 nvfacts.cc -o nvfacts "
         "/usr/lib/llvm-14/lib/libclang-cpp.so.14 /usr/lib/llvm-14/lib/libLLVM-14.so")

m = {
    "version": 1,
    "setup_cmd": SETUP,
    "hooks": {
        "guard": "NEATVI_VERIF",
        "enable": "none needed: the checks parse the unmodified sources of /repo (static analysis); "
                  "no hook code exists in /repo",
        "baseline_off_cmd": "make -C /repo clean vi >/dev/null && cd /repo && sh test.sh",
        "source_commits": [],
        "add_only": True,
    },
    "engines": [{
        "name": "nv",
        "path": "/verif/check",
        "serves_properties": sorted(PROPS),
        "kind_free_text": "repository-specific static analysis: libTooling fact extractor "
                          "(tools/nvfacts.cc: AST, constant-evaluated expressions, clang CFG) + "
                          "Python rules (dominance, must-pass, reach-avoid, who-may-write, "
                          "call-graph effect sets, linear bounds prover, constant-table evaluation)",
    }],
    "checks": [],
    "not_applicable": [],
    "notes": "Every check re-parses /repo's working tree; nothing in /verif runs the editor. "
             "Exit 2 + ANALYSIS-BROKEN means a rule could not fill its slots (never a pass, never "
             "a violation). Known findings: /verif/known_findings.json. See DESIGN.md.",
}
for pid in ALL:
    if pid in PROPS:
        sp = PROPS[pid]
        m["checks"].append({
            "property_id": pid,
            "quick_cmd": "./check %s --tier quick" % pid,
            "thorough_cmd": "./check %s --tier thorough" % pid,
            "evidence_file": "/verif/evidence/%s.json" % pid,
            "replay_cmd_template": "cat {path}",
            "engine": "nv",
            "level_claimed": {
                "category": "other",
                "text": sp.get("level_text", "static rule set; decides the named structural "
                               "clauses (necessary conditions) on every path / call site / table "
                               "row of the current tree, not the behaviour as a whole"),
                "design_ref": "DESIGN.md section 4, " + pid,
            },
            "level_note": sp.get("level_note", "trusted: clang 14 front end + CFG builder, the rule "
                                 "modules and their accepted-idiom tables; rules: " + " ".join(sp["rules"])),
            "technique": sp.get("technique", "static analysis: custom AST/CFG/call-graph rules "
                                "(dominance, must-pass-through, who-may-write) over libTooling facts"),
        })
    else:
        m["not_applicable"].append({"property_id": pid, "reason": NOT_APPLICABLE.get(
            pid, "check not built yet in this round (planned, see DESIGN.md section 4)")})

with open(os.path.join(HERE, "MANIFEST.json"), "w") as fh:
    json.dump(m, fh, indent=1)
    fh.write("\n")
print("claimed:", sorted(PROPS), "n/a:", [x["property_id"] for x in m["not_applicable"]])
