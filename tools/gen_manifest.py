#!/usr/bin/env python3
"""Regenerate MANIFEST.json from nv/props.py (keeps the two in step)."""
import json
import os
import sys

HERE = os.path.dirname(os.path.dirname(os.path.abspath(__file__)))
sys.path.insert(0, HERE)
from nv.props import PROPS, NOT_APPLICABLE  # noqa: E402

ALL = ["C%02d" % i for i in range(1, 21)]

SETUP = ("cd /verif/tools && clang++ $(llvm-config-14 --cxxflags) -fno-rtti -O1 nvfacts.cc -o nvfacts "
         "/usr/lib/llvm-14/lib/libclang-cpp.so.14 /usr/lib/llvm-14/lib/libLLVM-14.so")

m = {
    "version": 1,
    "setup_cmd": SETUP,
    "hooks": {
        "guard": "NEATVI_VERIF",
        "enable": "none needed: the checks parse the unmodified sources of /repo (static analysis); "
                  "no hook code exists in /repo",
        "baseline_off_cmd": "make -C /repo clean vi >/dev/null && cd /repo && sh test.sh",
        "source_commits": [],
        "add_only": True,
    },
    "engines": [{
        "name": "nv",
        "path": "/verif/check",
        "serves_properties": sorted(PROPS),
        "kind_free_text": "repository-specific static analysis: libTooling fact extractor "
                          "(tools/nvfacts.cc: AST, constant-evaluated expressions, clang CFG) + "
                          "Python rules (dominance, must-pass, reach-avoid, who-may-write, "
                          "call-graph effect sets, linear bounds prover, constant-table evaluation)",
    }],
    "checks": [],
    "not_applicable": [],
    "notes": "Every check re-parses /repo's working tree; nothing in /verif runs the editor. "
             "Exit 2 + ANALYSIS-BROKEN means a rule could not fill its slots (never a pass, never "
             "a violation). Known findings: /verif/known_findings.json. See DESIGN.md.",
}
import inspect  # noqa: E402
from nv.props import all_rules  # noqa: E402

_RULES = all_rules()


def technique_of(rule_ids):
    """name the deciding methods the property's rules actually use (read off their source)"""
    kinds = {"struct": [], "prover": [], "grid": [], "eval": []}
    for rid in rule_ids:
        fn = _RULES.get(rid)
        try:
            src = inspect.getsource(fn) if fn else ""
        except (OSError, TypeError):
            src = ""
        if "Interp(" in src or "_parse_probe" in src or "admitted_cells" in src:
            kinds["eval"].append(rid)
        elif "_walk_path" in src or "run_iteration" in src or "bounded(" in src:
            kinds["grid"].append(rid)
        elif "path_states" in src or "prove_le" in src or "prove_index" in src or "feasible(" in src:
            kinds["prover"].append(rid)
        else:
            kinds["struct"].append(rid)
    parts = []
    if kinds["struct"]:
        parts.append("AST/CFG/call-graph rules (dominance, must-pass-through, reach-avoid, who-may-write, "
                     "table and sibling agreement): " + " ".join(kinds["struct"]))
    if kinds["prover"]:
        parts.append("path-sensitive dataflow with a linear (Fourier-Motzkin) bounds prover over the function's "
                     "CFG paths, helper exit summaries and loop invariants: " + " ".join(kinds["prover"]))
    if kinds["grid"]:
        parts.append("evaluation of the CFG paths of one loop iteration over a grid of orderings: " + " ".join(kinds["grid"]))
    if kinds["eval"]:
        parts.append("abstract evaluation of a pure function's AST on every member of a small input domain "
                     "against a reference reading: " + " ".join(kinds["eval"]))
    return "static analysis over libTooling facts of the current tree (nothing is executed): " + "; ".join(parts)


for pid in ALL:
    if pid in PROPS:
        sp = PROPS[pid]
        m["checks"].append({
            "property_id": pid,
            "quick_cmd": "./check %s --tier quick" % pid,
            "thorough_cmd": "./check %s --tier thorough" % pid,
            "evidence_file": "/verif/evidence/%s.json" % pid,
            "replay_cmd_template": "cat {path}",
            "engine": "nv",
            "level_claimed": {
                "category": "other",
                "text": sp.get("level_text", "static rule set; decides the named structural "
                               "clauses (necessary conditions) on every path / call site / table "
                               "row of the current tree, not the behaviour as a whole"),
                "design_ref": "DESIGN.md section 4, " + pid,
            },
            "level_note": sp.get("level_note", "trusted: clang 14 front end + CFG builder, the rule "
                                 "modules and their accepted-idiom tables; rules: " + " ".join(sp["rules"])),
            "technique": sp.get("technique", technique_of(sp["rules"])),
        })
    else:
        m["not_applicable"].append({"property_id": pid, "reason": NOT_APPLICABLE.get(
            pid, "check not built yet in this round (planned, see DESIGN.md section 4)")})

with open(os.path.join(HERE, "MANIFEST.json"), "w") as fh:
    json.dump(m, fh, indent=1)
    fh.write("\n")
print("claimed:", sorted(PROPS), "n/a:", [x["property_id"] for x in m["not_applicable"]])
