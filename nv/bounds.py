"""Hypotheses for bounded-write proofs: dominating guards, MIN definitions, non-negative
atoms, completed-loop exit values."""
from .facts import walk, key, cval
from .lin import Lin, linearize, cmp_constraints, prove_le, PROVEN, REFUTED, CEX
from .util import stores, is_call, strip_casts, negate_truth, refs, lv_var, enclosing

NONNEG_CALLS = ("strlen", "uc_slen", "lbuf_len", "sbuf_len", "uc_len", "linecount", "linelength",
                "uc_off", "ren_wid")


def _stable(func, cond_node, use_node, names):
    """No store to a variable of the condition between it and the use."""
    cfg = func.cfg
    for n, lv, op, rhs in stores(func.body):
        if op == "init":
            continue
        v = lv_var(lv)
        if not v or v[0] not in names or v[2]:
            continue
        if n["id"] == use_node["id"] or any(x["id"] == n["id"] for x in walk(use_node)):
            continue    # the use itself (A[i++])
        if any(x["id"] == n["id"] for x in walk(cond_node)):
            continue
        if cfg.dominates(cond_node, n) and cfg.dominates(n, use_node):
            return False
        # a store that can run between them on some path
        pc, pn, pu = cfg.pos(cond_node), cfg.pos(n), cfg.pos(use_node)
        if pc is None or pn is None or pu is None:
            continue
        if cfg.search(pc, lambda e: e == n["id"], avoid=lambda e: e == use_node["id"]) is not None and \
                cfg.search(pn, lambda e: e == use_node["id"],
                           avoid=lambda e: e == cond_node["id"]) is not None:
            return False
    return True


def min_max_constraints(var_lin, rhs):
    """constraints from  v = MIN(a, b) / MAX(a, b)  spelled as a conditional"""
    r = strip_casts(rhs)
    if r is None or r["k"] != "cond":
        return []
    c = strip_casts(r["c"])
    if c["k"] != "bin" or c["op"] not in ("<", ">", "<=", ">="):
        return []
    a, b = key(strip_casts(c["l"])), key(strip_casts(c["r"]))
    t, f = key(strip_casts(r["t"])), key(strip_casts(r["f"]))
    la, lb = linearize(c["l"]), linearize(c["r"])
    if la is None or lb is None or {t, f} != {a, b}:
        return []
    is_min = (c["op"] in ("<", "<=") and t == a) or (c["op"] in (">", ">=") and t == b)
    if is_min:
        return [la - var_lin, lb - var_lin]
    return [var_lin - la, var_lin - lb]


def hyps_at(func, use, extra=None):
    """Linear hypotheses that hold when `use` executes."""
    hyps = list(extra or [])
    cfg = func.cfg
    from .rules.w import _first_ev
    nid = use["id"] if use["id"] in cfg.posmap else _first_ev(func, use)
    for cid, truth in cfg.facts_at(nid):
        c = func.nodes.get(cid)
        if c is None:
            continue
        names = {r["name"] for r in refs(c)}
        if not _stable(func, c, use, names):
            continue
        hyps += cmp_constraints(c, truth)
        hyps += helper_constraints(func, c, truth)
    # definitions v = MIN(..)/MAX(..) and v = strlen(..) that dominate the use
    for n, lv, op, rhs in stores(func.body):
        if op not in ("=", "init") or rhs is None or lv["k"] not in ("ref", "var"):
            continue
        if not cfg.dominates(n, use):
            continue
        nm = lv["name"]
        # no later store to nm before the use
        if not _stable(func, n, use, {nm}):
            continue
        v = Lin({nm: 1})
        hyps += min_max_constraints(v, rhs)
        r = strip_casts(rhs)
        if is_call(r, NONNEG_CALLS):
            hyps.append(v)
        l = linearize(r) if r["k"] not in ("cond",) else None
        if l is not None and r["k"] in ("bin", "call", "member", "sub", "ref", "int", "sizeof", "un") \
                and nm not in l.c:
            # equality definition (only when the defining atoms are not reassigned either)
            dn = {x["name"] for x in refs(r)}
            if _stable(func, n, use, dn):
                hyps += [v - l, l - v]
    # non-negative atoms that occur anywhere in the hypotheses are added by the caller
    return hyps


def nonneg_atoms(lins):
    out = []
    seen = set()
    for l in lins:
        for a in l.c:
            if a in seen:
                continue
            seen.add(a)
            if any(a.startswith(fn + "(") for fn in NONNEG_CALLS):
                out.append(Lin({a: 1}))
    return out


def loop_exit_hyps(func, use):
    """After a completed `for (i = a; i < n; i++)` without break, i <= max(a, n); when
    a == 0 and n is a non-negative quantity this is i <= n."""
    out = []
    cfg = func.cfg
    for lp in func.walk():
        if lp["k"] != "for" or lp.get("init") is None or lp.get("c") is None or lp.get("inc") is None:
            continue
        if any(x["id"] == use["id"] for x in walk(lp)):
            continue
        init, c, inc = lp["init"], lp["c"], lp["inc"]
        if not (init["k"] == "bin" and init["op"] == "=" and init["l"]["k"] == "ref"):
            continue
        iv = init["l"]["name"]
        if not (c["k"] == "bin" and c["op"] == "<" and key(c["l"]) == iv):
            continue
        if not (inc["k"] == "un" and inc["op"] in ("post++", "pre++") and key(inc["e"]) == iv):
            # for (i = 0; i < n; i++, s += ...) comma form
            if not (inc["k"] == "bin" and inc["op"] == "," and key(inc["l"]) in ("(post++%s)" % iv, "(pre++%s)" % iv)):
                continue
        if any(x["k"] == "break" for x in walk(lp["body"])):
            continue
        others = [n for n, lv, op, rhs in stores(lp["body"]) if lv["k"] == "ref" and lv["name"] == iv]
        if others:
            continue
        # the loop dominates the use and i is not stored in between
        if not cfg.dominates(c, use):
            continue
        later = [n for n, lv, op, rhs in stores(func.body)
                 if lv["k"] == "ref" and lv["name"] == iv and cfg.dominates(c, n) and cfg.dominates(n, use)
                 and not any(x["id"] == n["id"] for x in walk(lp))]
        if later:
            continue
        a = linearize(init["r"])
        n_ = linearize(c["r"])
        if a is None or n_ is None:
            continue
        # i <= n  holds when a <= n; we add it under the side condition a == 0 and n non-negative
        if a.is_const() and a.k == 0:
            out.append(("exit", iv, n_))
    return out


def helper_constraints(func, cond, truth, subst=None, version=None):
    """When `cond` is (a negation of) a call to a small predicate helper of the repository --
    every return a constant or a boolean expression, a unique path for the given truth -- the
    constraints that path implies, with the helper's parameters replaced by the arguments."""
    prog = _PROG[0]
    c, t = negate_truth(cond, truth)
    if prog is None or c["k"] != "call" or not c.get("fn"):
        return []
    g = prog.resolve(func, c["fn"])
    if g is None or len(g.params) != len(c["args"]) or len(g.params) > 4:
        return []
    if len(list(g.walk())) > 160 or any(x["k"] in ("while", "for", "do", "switch") for x in g.walk()):
        return []
    # the helper must be pure enough: no stores except to its own locals, no calls but accessors
    for n, lv, op, rhs in stores(g.body):
        if lv["k"] not in ("ref", "var") or lv.get("cat") in ("global", "slocal"):
            return []
    args = []
    for a in c["args"]:
        la = linearize(strip_casts(a), subst)
        if la is None:
            return []
        args.append(version(la) if version else la)
    psub = {p_["name"]: la for p_, la in zip(g.params, args)}
    from .cfg import paths_to
    found = []
    for r in g.cfg.return_nodes():
        e = r.get("e")
        if e is None:
            return []
        for items in paths_to(g.cfg, g.cfg.entry, r["id"]):
            cons = []
            for it in items:
                if it[0] == "br":
                    cons += cmp_constraints(g.nodes[it[1]], it[2], psub)
            v = cval(e)
            if v is not None:
                if (v != 0) == t:
                    found.append(cons)
            else:
                found.append(cons + cmp_constraints(e, t, psub) + [("maybe",)])
    from .lin import feasible as _feas
    found = [c_ for c_ in found if _feas([x for x in c_ if not (isinstance(x, tuple) and x and x[0] == "maybe")])]
    if len(found) != 1:
        return []
    cons = found[0]
    if any(isinstance(x, tuple) and x and x[0] == "maybe" for x in cons):
        # a boolean return expression: its constraints only hold if it is what decides; with a
        # single candidate path that is the case
        cons = [x for x in cons if not (isinstance(x, tuple) and x and x[0] == "maybe")]
    return cons


def clamps_before(func, use):
    """`if (C) v = E;` statements (no else, single assignment) that dominate the use with
    no later store to v: afterwards either C was false or v == E."""
    out = []
    cfg = func.cfg
    for s in func.walk():
        if s["k"] != "if" or s.get("e") is not None:
            continue
        t = s["t"]
        if t is not None and t["k"] == "block" and len(t["body"]) == 1:
            t = t["body"][0]
        if t is None or t["k"] != "bin" or t["op"] != "=" or t["l"]["k"] != "ref":
            continue
        v = t["l"]["name"]
        if not cfg.dominates(s["c"], use) or any(x["id"] == use["id"] for x in walk(s)):
            continue
        later = [n for n, lv, op, rhs in stores(func.body)
                 if lv["k"] == "ref" and lv["name"] == v and n["id"] != t["id"]
                 and cfg.dominates(s["c"], n) and cfg.dominates(n, use)]
        if later:
            continue
        names = {r["name"] for r in refs(s["c"])} | {r["name"] for r in refs(t["r"])}
        names.discard(v)
        if not _stable(func, s["c"], use, names):
            continue
        e = linearize(t["r"])
        if e is None:
            continue
        out.append((s["c"], v, e))
    return out


def cond_defs(func, use):
    """conditional sub-expressions (c ? a : b) inside definitions that dominate the use:
    [(atom key, cond, Lin a, Lin b)]"""
    out = []
    cfg = func.cfg
    for n, lv, op, rhs in stores(func.body):
        if op not in ("=", "init") or rhs is None or lv["k"] not in ("ref", "var"):
            continue
        if not cfg.dominates(n, use):
            continue
        for x in walk(rhs):
            if x["k"] == "cond":
                a, b = linearize(x["t"]), linearize(x["f"])
                if a is not None and b is not None:
                    out.append((key(x), x["c"], a, b))
    return out[:3]


def struct_invariants(func, subst=None):
    """Declared invariants of struct lbuf / struct sbuf for pointer parameters (each is an
    obligation of rule I1 on the writers of the fields).  With a substitution: the same
    relations over the current values (for loop heads)."""
    out = []
    for p in func.params:
        nm = p["name"]
        if p["ty"] == "struct lbuf *":
            f = lambda x: (subst.get("%s->%s" % (nm, x)) if subst else None) or Lin({"%s->%s" % (nm, x): 1})
            out += [f("ln_n"), f("ln_sz") - f("ln_n"), f("hist_u"), f("hist_n") - f("hist_u"),
                    f("hist_sz") - f("hist_n"), f("ln_sz"), f("hist_sz"), f("hist_n")]
        if p["ty"] == "struct sbuf *":
            f = lambda x: (subst.get("%s->%s" % (nm, x)) if subst else None) or Lin({"%s->%s" % (nm, x): 1})
            out += [f("s_n"), f("s_sz") - f("s_n")]
    return out


from .lin import _ThreadCell
_PROG = _ThreadCell()


def param_nonneg_hyps(func):
    """an int parameter is non-negative when every call site passes a value that is provably
    non-negative there (one interprocedural step; the function must have callers)"""
    prog = _PROG[0]
    if prog is None:
        return []
    out = []
    for i, p in enumerate(func.params):
        if p["ty"] not in ("int", "long"):
            continue
        sites = []
        for g in prog.funcs.values():
            for c in g.calls(func.name):
                if prog.resolve(g, func.name) is func and i < len(c["args"]):
                    sites.append((g, c))
        if not sites or len(sites) > 6:
            continue
        ok = True
        for g, c in sites:
            a = linearize(strip_casts(c["args"][i]))
            if a is None:
                ok = False
                break
            h = hyps_at(g, c)
            flat = [x for x in h if not isinstance(x, tuple)]
            if prove_le(Lin(k=0), a, h + nonneg_atoms(flat + [a])) != PROVEN:
                ok = False
                break
        if ok:
            out.append(Lin({p["name"]: 1}))
    return out


def prove_index(func, use, idx_lin, limit_lin, extra=None):
    """idx <= limit ?"""
    hyps = hyps_at(func, use, (extra or []) + struct_invariants(func) + param_nonneg_hyps(func))
    names = [a for a in idx_lin.c if a.isidentifier()]
    for v, K, consts in guarded_inc_hyps(func, use, names):
        if all(prove_le(Lin(k=c), K, hyps) == PROVEN for c in consts):
            hyps.append(K - Lin({v: 1}))
    cds = cond_defs(func, use)
    if cds:
        import itertools
        verdicts = []
        for choice in itertools.product((0, 1), repeat=len(cds)):
            h2 = list(hyps)
            for (ak, c, a, b), ch in zip(cds, choice):
                v = Lin({ak: 1})
                arm = a if ch == 0 else b
                h2 += [v - arm, arm - v] + cmp_constraints(c, ch == 0)
            verdicts.append(_prove_with_clamps(func, use, idx_lin, limit_lin, h2))
        if all(v == PROVEN for v in verdicts):
            return PROVEN, hyps
        return (CEX if (CEX in verdicts or PROVEN in verdicts) else REFUTED), hyps
    return _prove_with_clamps(func, use, idx_lin, limit_lin, hyps), hyps


def _prove_with_clamps(func, use, idx_lin, limit_lin, hyps):
    r = _prove_index0(func, use, idx_lin, limit_lin, hyps)
    return r[0]


def _prove_index0(func, use, idx_lin, limit_lin, hyps):
    cl = clamps_before(func, use)
    if cl:
        # case split: each clamp either did not fire (its condition is false) or set v = E
        import itertools
        verdicts = []
        for choice in itertools.product((0, 1), repeat=min(len(cl), 4)):
            h2 = list(hyps)
            for (c, v, e), fired in zip(cl, choice):
                if fired:
                    h2 += [Lin({v: 1}) - e, e - Lin({v: 1})]
                else:
                    h2 += cmp_constraints(c, False)
            flat = [h for h in h2 if not isinstance(h, tuple)]
            h2 += nonneg_atoms(flat + [idx_lin, limit_lin])
            verdicts.append(prove_le(idx_lin, limit_lin, h2))
        if all(v == PROVEN for v in verdicts):
            return PROVEN, hyps
        return (CEX if CEX in verdicts or PROVEN in verdicts else REFUTED), hyps
    for kind, iv, n_ in loop_exit_hyps(func, use):
        # need n >= 0: provable from hyps / nonneg atoms
        hn = hyps + nonneg_atoms([n_])
        if prove_le(Lin(k=0), n_, hn) == PROVEN:
            hyps.append(n_ - Lin({iv: 1}))
    flat = [h for h in hyps if not isinstance(h, tuple)]
    hyps += nonneg_atoms(flat + [idx_lin, limit_lin])
    return prove_le(idx_lin, limit_lin, hyps), hyps


LEN_ATOM = "lbuf_len(ex_lbuf())"


def region_hyps(func, use):
    """After a successful ex_region(loc, &B, &E):  0 <= B <= E <= lbuf_len  (rule X2), as long
    as B and E are not reassigned before the use."""
    from .rules.w import result_test
    out = []
    cfg = func.cfg
    for c in func.calls("ex_region"):
        r = result_test(func, c, "!=0")
        if r[0] != "branch":
            continue
        _, bid, k, cond = r
        p = cfg.pos(use)
        if p is None or not cfg.edge_dominates(bid, 1 - k, p[0]):
            continue
        names = []
        for a in c["args"][1:3]:
            a = strip_casts(a)
            if a["k"] == "un" and a["op"] == "&" and a["e"]["k"] == "ref":
                names.append(a["e"]["name"])
        if len(names) != 2:
            continue
        B, E = names
        if not _stable(func, c, use, {B, E}):
            continue
        b, e, L = Lin({B: 1}), Lin({E: 1}), Lin({LEN_ATOM: 1})
        out += [b, e - b, L - e]
    return out


def loop_lower_hyps(func, use):
    """inside `for (i = a; ...; i++)` whose body does not otherwise store i:  i >= a"""
    out = []
    for lp in func.walk():
        if lp["k"] != "for" or lp.get("init") is None:
            continue
        if not any(x["id"] == use["id"] for x in walk(lp["body"] or {})) and \
                not any(x["id"] == use["id"] for x in walk(lp["c"] or {})):
            continue
        init = lp["init"]
        if not (init["k"] == "bin" and init["op"] == "=" and init["l"]["k"] == "ref"):
            continue
        iv = init["l"]["name"]
        st = [n for n, lv, op, rhs in stores(lp["body"]) if lv["k"] == "ref" and lv["name"] == iv]
        if any(n["op"] not in ("post++", "pre++", "+=") for n in st):
            continue
        a = linearize(init["r"])
        if a is None:
            continue
        names = {r["name"] for r in refs(init["r"])}
        body_st = [n for n, lv, op, rhs in stores(lp["body"]) if lv["k"] == "ref" and lv["name"] in names]
        if body_st:
            continue
        out.append(Lin({iv: 1}) - a)
    # `i = a; while (i < ..) { ..; i++; }`: the same for a while loop whose index has one
    # dominating initialisation outside the loop and only grows inside it
    for lp in func.walk():
        if lp["k"] != "while" or lp.get("c") is None:
            continue
        if not any(x["id"] == use["id"] for x in walk(lp["body"] or {})) and \
                not any(x["id"] == use["id"] for x in walk(lp["c"] or {})):
            continue
        for iv in {r["name"] for r in refs(lp["c"]) if r.get("cat") in ("local", "param")}:
            st = [n for n, lv, op, rhs in stores(lp["body"]) if lv["k"] == "ref" and lv["name"] == iv]
            if not st or any(n["op"] not in ("post++", "pre++", "+=") for n in st):
                continue
            outside = [(n, rhs) for n, lv, op, rhs in stores(func.body)
                       if lv["k"] in ("ref", "var") and lv.get("name") == iv and
                       not any(x["id"] == n["id"] for x in walk(lp))]
            if len(outside) != 1 or outside[0][1] is None or func.cfg.pos(outside[0][0]) is None or \
                    not func.cfg.dominates(outside[0][0], lp["c"]):
                continue
            a = linearize(outside[0][1])
            if a is None:
                continue
            names = {r["name"] for r in refs(outside[0][1])}
            if [n for n, lv, op, rhs in stores(func.body) if lv["k"] == "ref" and lv["name"] in names]:
                continue
            out.append(Lin({iv: 1}) - a)
    return out


def caller_region_hyps(prog, func):
    """For a static helper with a single call site: what a validated ex region in the caller
    says about the arguments, read for the helper's parameters (0 <= beg <= end <= lbuf_len)."""
    if not getattr(func, "static", False):
        return []
    sites = [(h, c) for h in prog.funcs.values() if h is not func for c in h.calls(func.name)
             if prog.resolve(h, c["fn"]) is func]
    if len(sites) != 1:
        return []
    h, c = sites[0]
    ren = {}
    for q, a in zip(func.params, c["args"]):
        a = strip_casts(a)
        if a["k"] == "ref":
            ren[a["name"]] = q["name"]
    if any(lv["k"] == "ref" and lv["name"] in ren.values() for n, lv, op, rhs in stores(func.body)):
        return []          # a parameter is reassigned in the helper
    out = []
    for hyp in region_hyps(h, c):
        o = Lin(k=hyp.k)
        okh = True
        for at, v in hyp.c.items():
            if at in ren:
                o.c[ren[at]] = o.c.get(ren[at], 0) + v
            elif at == LEN_ATOM:
                o.c[at] = o.c.get(at, 0) + v
            else:
                okh = False
        if okh:
            out.append(o)
    return out


def nonneg_var(func, name, extra_fn=None, depth=0):
    """Every store to the local `name` keeps it >= 0: constants >= 0, ++, += of a non-negative
    quantity, MAX(0, ..), or a value provably >= 0 where it is stored."""
    n_st = 0
    for n, lv, op, rhs in stores(func.body):
        if lv["k"] not in ("ref", "var") or lv.get("name") != name:
            continue
        n_st += 1
        if op in ("post++", "pre++"):
            continue
        if op in ("post--", "pre--", "-="):
            return False
        if rhs is None:
            if op == "init":
                return False
            continue
        r = strip_casts(rhs)
        v = cval(r)
        if op in ("=", "init"):
            if v is not None:
                if v < 0:
                    return False
                continue
            if r["k"] == "cond":
                c = strip_casts(r["c"])
                # MAX(0, x): (0 < x) ? x : 0
                if cval(strip_casts(r["f"])) == 0 and c["k"] == "bin" and c["op"] == "<" and cval(c["l"]) == 0 \
                        and key(c["r"]) == key(strip_casts(r["t"])):
                    continue
            l = linearize(r)
            if l is None:
                return False
            extra = extra_fn(func, n) if extra_fn else []
            res, _ = prove_index(func, n, Lin(k=0), l, extra)
            if res != PROVEN and not _clamped_before_use(func, n, name):
                return False
        elif op == "+=":
            l = linearize(r)
            if l is None:
                return False
            res, _ = prove_index(func, n, Lin(k=0), l)
            if res != PROVEN:
                return False
        else:
            return False
    return n_st > 0


def _clamped_before_use(func, store, name):
    """after `name = e` every path to a use of `name` as an index or an argument passes the
    clamp `if (name < 0) name = 0;` (or `<=`)"""
    cfg = func.cfg
    clamps = []
    for st in func.walk():
        if st["k"] != "if" or st.get("t") is None or st.get("e") is not None:
            continue
        c = strip_casts(st["c"])
        if not (c["k"] == "bin" and c["op"] in ("<", "<=") and key(strip_casts(c["l"])) == name and cval(c["r"]) == 0):
            continue
        body = [x for x in walk(st["t"]) if x["k"] == "bin" and x["op"] == "=" and x["l"]["k"] == "ref" and
                x["l"]["name"] == name and cval(x["r"]) == 0]
        if body:
            clamps.append(c["id"])
    if not clamps:
        return False

    def uses(e):
        if e == ("exit",) or e == store["id"]:
            return False
        n_ = func.nodes.get(e)
        if n_ is None:
            return False
        if n_["k"] == "sub" and any(r_["name"] == name for r_ in refs(n_["idx"])):
            return True
        if n_["k"] == "call" and any(r_["name"] == name for a_ in n_["args"] for r_ in refs(a_)):
            return True
        return False
    return cfg.search(cfg.pos(store), uses, avoid=lambda e: e in clamps) is None


def guarded_inc_hyps(func, use, names):
    """For a local v whose stores that can reach `use` are constants and `v++` executed only
    under a dominating test v < K:  v <= K at the use."""
    out = []
    cfg = func.cfg
    pu = cfg.pos(use)
    for v in names:
        K = None
        ok = True
        consts = []
        n_st = 0
        for n, lv, op, rhs in stores(func.body):
            if lv["k"] not in ("ref", "var") or lv.get("name") != v:
                continue
            pn = cfg.pos(n)
            if pn is None or pu is None:
                ok = False
                break
            reach = any(x["id"] == n["id"] for x in walk(use)) or \
                cfg.search(pn, lambda e: e == use["id"]) is not None
            if not reach:
                continue
            n_st += 1
            if op in ("=", "init") and rhs is not None and cval(rhs) is not None:
                consts.append(cval(rhs))
                continue
            if op in ("post++", "pre++"):
                k_here = None
                for cid, t in cfg.facts_at(n["id"] if n["id"] in cfg.posmap else use["id"]):
                    c = func.nodes.get(cid)
                    if c is not None and c["k"] == "bin" and c["op"] == "<" and t and key(c["l"]) == v:
                        kl = linearize(c["r"])
                        if kl is not None and v not in kl.c:
                            k_here = kl
                if k_here is None:
                    ok = False
                    break
                if K is not None and repr(K) != repr(k_here):
                    ok = False
                    break
                K = k_here
                continue
            ok = False
            break
        if ok and K is not None and n_st:
            # constants must not exceed K: checked by the caller's prover through  c <= K  facts
            out.append((v, K, consts))
    return out


# ---------------------------------------------------------------------------------------
# path-sensitive proving inside one function (acyclic paths, scalar stores tracked)

ASSIGN_OPS_B = ("=", "+=", "-=", "*=", "/=", "%=", "|=", "&=", "^=", "<<=", ">>=")


def loop_stored_names(func):
    """{loop header block: set of scalar names / member keys stored inside the loop}"""
    cfg = func.cfg
    out = {}
    for h, body in cfg.loops().items():
        names = set()
        for b in body:
            for e in cfg.blocks[b].ev:
                n = func.nodes.get(e)
                if n is None:
                    continue
                tgt = None
                if n["k"] == "bin" and n["op"] in ASSIGN_OPS_B:
                    tgt = n["l"]
                elif n["k"] == "un" and n["op"] in ("post++", "pre++", "post--", "pre--"):
                    tgt = n["e"]
                elif n["k"] == "call":
                    for a in n["args"]:
                        a = strip_casts(a)
                        if a["k"] == "un" and a["op"] == "&" and a["e"]["k"] == "ref":
                            names.add(a["e"]["name"])
                if tgt is None:
                    continue
                if tgt["k"] == "ref":
                    names.add(tgt["name"])
                elif tgt["k"] == "member" or (tgt["k"] == "un" and tgt["op"] == "*" and tgt["e"]["k"] == "ref"):
                    names.add(key(tgt))
        out[h] = names
    return out




def _reentry_conds(func, h, body):
    """For a bottom-tested loop: the (condition id, truth) pairs that held when the back edge
    to header h was taken, as far back as no store intervenes; None when not determinable."""
    cfg = func.cfg
    latches = [b for b in body if h in cfg.blocks[b].succ]
    if len(latches) != 1:
        return None
    out = []
    nxt, b = h, latches[0]
    for _ in range(8):
        blk = cfg.blocks[b]
        for e in blk.ev:
            n = func.nodes.get(e)
            if n is None:
                continue
            if (n["k"] == "bin" and n["op"] in ASSIGN_OPS_B) or (
                    n["k"] == "un" and n["op"] in ("post++", "pre++", "post--", "pre--")) or (
                    n["k"] == "var"):
                return out if out else None
        br = cfg.branch(b)
        if br and br[1] != br[2]:
            if nxt == br[1]:
                out.append((br[0], True))
            elif nxt == br[2]:
                out.append((br[0], False))
        preds = [q for q in blk.pred if q in body]
        if len(preds) != 1 or b == h:
            break
        nxt, b = b, preds[0]
    return out if out else None


def _ret_range(func, call):
    """(min, max) of what a repository function returns, when every exit returns a constant"""
    prog = _PROG[0]
    fn = call.get("fn")
    g = prog.resolve(func, fn) if (prog is not None and fn) else None
    if g is None:
        return None
    def pure_helper(c_):
        h = prog.resolve(g, c_["fn"]) if c_.get("fn") else None
        if h is None or h is g or h.file != g.file or len(list(h.walk())) > 80:
            return None
        if any(x["k"] in ("while", "for", "do") for x in h.walk()) or list(stores(h.body)):
            return None
        return h
    try:
        summ = call_summary(g, {"inline": pure_helper}, 0, cache_key="range")
    except Exception:
        return None
    if not summ:
        return None
    lo, hi = None, None
    for subst, hyps, rl in summ:
        if rl is None:
            return None
        if rl.is_const():
            a = b = int(rl.k)
        else:
            # a computed return: the tightest small constants that bound it on this exit
            a = b = None
            for cand in range(0, 17):
                if b is None and prove_le(rl, Lin(k=cand), hyps) == PROVEN:
                    b = cand
            for cand in range(16, -1, -1):
                if a is None and prove_le(Lin(k=cand), rl, hyps) == PROVEN:
                    a = cand
            if a is None or b is None:
                return None
        lo = a if lo is None else min(lo, a)
        hi = b if hi is None else max(hi, b)
    return (lo, hi)


def _counter_bound(func, h, body, v):
    """A local counter v with a single store in the loop, an increment by a non-negative amount
    of at most M, and a conjunct of the loop's own test that bounds v from above:
    (condition node, M), meaning `v <= (bound implied by the condition) + M` is an invariant of
    the loop head as soon as it holds on arrival (and v never decreases)."""
    cfg = func.cfg
    sts = []
    for b in body:
        for e in cfg.blocks[b].ev:
            n = func.nodes.get(e)
            if n is None:
                continue
            tgt = None
            if n["k"] == "bin" and n["op"] in ASSIGN_OPS_B:
                tgt = n["l"]
            elif n["k"] == "un" and n["op"] in ("post++", "pre++", "post--", "pre--"):
                tgt = n["e"]
            if tgt is not None and tgt["k"] == "ref" and tgt["name"] == v:
                sts.append(n)
            if n["k"] == "call" and any(strip_casts(a)["k"] == "un" and strip_casts(a)["op"] == "&" and
                                        strip_casts(a)["e"].get("name") == v for a in n["args"]):
                return None
    if len(sts) != 1:
        return None
    n = sts[0]
    if n["k"] == "un" and n["op"] in ("post++", "pre++"):
        M = 1
    elif n["k"] == "bin" and n["op"] == "+=":
        r = strip_casts(n["r"])
        if cval(r) is not None and cval(r) >= 0:
            M = cval(r)
        elif r["k"] == "call":
            rr = _ret_range(func, r)
            if rr is None or rr[0] < 0:
                return None
            M = rr[1]
        else:
            return None
    else:
        return None
    # the loop's own test: the conditions of the header chain that must hold to reach the store
    conds = []
    for cid, t in cfg.facts_at(n["id"]):
        c = func.nodes.get(cid)
        if c is None or not t:
            continue
        pb = cfg.branch_of_cond(cid)
        if pb is None or pb.id not in body:
            continue
        conds.append(c)
    def relational(c):
        c = strip_casts(c)
        return c["k"] == "bin" and c["op"] in ("<", "<=", ">", ">=") and (
            key(strip_casts(c["l"])) == v or key(strip_casts(c["r"])) == v)
    for c in sorted(conds, key=lambda c_: 0 if relational(c_) else 1):
        # evaluated at the top of each pass: the header itself or a block only reached from it
        # through condition blocks
        if any(r_["name"] == v for r_ in refs(c)) and not _impure_cond(c):
            return (c, M)
    return None


def _impure_cond(c):
    from .lin import _impure
    return _impure(c)


class _St:
    __slots__ = ("subst", "hyps", "byid", "epoch", "flags")

    def __init__(self, subst=None, hyps=None, byid=None, epoch=None, flags=None):
        self.subst = subst if subst is not None else {}
        self.hyps = hyps if hyps is not None else []
        self.byid = byid if byid is not None else {}
        self.epoch = epoch if epoch is not None else {}
        self.flags = flags if flags is not None else {}     # flag local -> (implied if true, if false)

    def copy(self):
        return _St(dict(self.subst), list(self.hyps), dict(self.byid), dict(self.epoch), dict(self.flags))


def _last_events(f):
    """the final event of every path into the exit block"""
    lasts = []
    stack = [b_ for b_ in f.cfg.blocks.values() if f.cfg.exit in b_.succ]
    seen_b = set()
    while stack:
        b_ = stack.pop()
        if b_.id in seen_b:
            continue
        seen_b.add(b_.id)
        if b_.ev:
            lasts.append(b_.ev[-1])
        else:
            stack += [f.cfg.blocks[q] for q in b_.pred]
    return lasts




def call_summary(g, kw=None, depth=0, cache_key=None):
    """Exit states of a helper in its own names: [(subst, hyps, return Lin or None)], or None
    when it has too many paths.  Loops inside are havoced like anywhere else."""
    ck = (cache_key, depth)
    cache = g.__dict__.setdefault("_summ_cache", {})    # lives and dies with the Func
    if ck in cache:
        return cache[ck][1]
    from . import lin as _lin
    out = []
    kw = dict(kw or {})
    try:
        for subst, hyps, items in path_states(g, "exit", max_paths=400, _depth=depth + 1, **kw):
            rl = None
            rets = [g.nodes.get(x[1]) for x in items if x[0] == "ev"]
            rets = [x for x in rets if x is not None and x["k"] == "return"]
            rexpr = rets[-1].get("e") if rets else None
            if rexpr is not None:
                byid = {g.nodes[x[1]]["id"]: x[2] for x in items if x[0] == "br"}
                rx = strip_casts(rexpr)
                _lin._COND_RES[0] = byid
                try:
                    if (rx["k"] == "bin" and rx["op"] in ("<", "<=", ">", ">=", "==", "!=", "&&", "||")) or \
                            (rx["k"] == "un" and rx["op"] == "!"):
                        # a truth value: one exit state per outcome, with what it implies
                        for t_ in (True, False):
                            hy = hyps + cmp_constraints(rx, t_, subst)
                            if _lin.feasible(hy):
                                out.append((subst, hy, Lin(k=1 if t_ else 0)))
                        continue
                    rl = linearize(rx, subst)
                finally:
                    _lin._COND_RES[0] = None
                if rl is None:
                    rl = Lin({"?ret": 1})
            out.append((subst, hyps, rl))
    except OverflowError:
        out = None
    if out is not None and len(out) > 24:
        out = None
    cache[ck] = (kw, out)        # keeps kw alive so that its id stays unique
    return out


def _map_summary(func, call, g, summ, st, version):
    """Translate one exit state of helper g into the caller's state at the call: a new _St, or
    None when an atom cannot be translated."""
    import re as _re
    subst_g, hyps_g, rl = summ
    tag = "@c%d" % call["id"]
    params = [p_["name"] for p_ in g.params]
    if len(params) != len(call["args"]):
        return None
    args = [strip_casts(a) for a in call["args"]]
    glocals = set(params)
    for n in g.walk():
        if n["k"] == "var":
            glocals.add(n["name"])
    cur = lambda k_: st.subst.get(k_) or Lin({k_: 1})
    argmap = {}
    for q, a in zip(params, args):
        argmap[q] = a

    def caller_key(atom):
        """caller lvalue key for a helper lvalue key, or None"""
        if atom.isidentifier():
            return None if atom in glocals else atom
        m = _re.match(r"^\(\*(\w+)\)$", atom)
        if m and m.group(1) in argmap:
            a = argmap[m.group(1)]
            if a["k"] == "ref":
                return "(*%s)" % a["name"]
            if a["k"] == "un" and a["op"] == "&" and a["e"]["k"] == "ref":
                return a["e"]["name"]
            return None
        m = _re.match(r"^(\w+)(->[\w.>-]+)$", atom)
        if m and m.group(1) in argmap:
            a = argmap[m.group(1)]
            if a["k"] == "ref":
                return a["name"] + m.group(2)
            return None
        return None

    failed = []

    def map_atom(atom):
        if atom.startswith("?"):
            return Lin({atom + tag: 1})
        if atom in argmap:
            la = linearize(argmap[atom], st.subst)
            if la is None:
                failed.append(atom)
                return Lin({atom + tag: 1})
            return version(st, la)
        ck_ = caller_key(atom)
        if ck_ is not None:
            return version(st, cur(ck_))
        ids = set(_re.findall(r"[A-Za-z_]\w*", atom.split("#")[0]))
        if ids & glocals:
            # an opaque value of the helper's own: a fresh unknown per call
            if ids & set(params):
                # textual rename when every mentioned parameter is bound to a plain variable
                out_ = atom
                for q in ids & set(params):
                    a = argmap[q]
                    if a["k"] != "ref" or (ids & glocals) - set(params):
                        return Lin({atom + tag: 1})
                    out_ = _re.sub(r"(?<![\w>.])%s(?![\w])" % _re.escape(q), a["name"], out_)
                return version(st, Lin({out_.split("#")[0]: 1}))
            return Lin({atom + tag: 1})
        return version(st, Lin({atom.split("#")[0]: 1})) if "#" not in atom else Lin({atom + tag: 1})

    def map_lin(l):
        if isinstance(l, tuple) and l and l[0] == "or":
            return ("or", [map_lin(x) for x in l[1]], [map_lin(x) for x in l[2]])
        if isinstance(l, tuple):
            return (l[0], map_lin(l[1]))
        o = Lin(k=l.k)
        for a_, v_ in l.c.items():
            o = o + map_atom(a_).scale(v_)
        return o

    ns = st.copy()
    ns.hyps += [map_lin(h) for h in hyps_g]
    effects = {}
    for k_, v_ in subst_g.items():
        if k_ in ("__havoc__", "__callhavoc__"):
            effects[k_] = Lin(k=1)
            continue
        if not isinstance(v_, Lin):
            continue
        ck_ = caller_key(k_)
        if ck_ is None:
            continue
        effects[ck_] = map_lin(v_)
    ret = map_lin(rl) if rl is not None else None
    for k_, v_ in effects.items():
        ns.subst[k_] = v_
        if not k_.startswith("__"):
            ns.epoch[k_] = ns.epoch.get(k_, 0) + 1
    if ret is not None:
        ns.subst[key(call)] = ret
    if failed:
        ns.subst["__havoc__"] = Lin(k=1)
    return ns


def path_states(func, target_nid, init_hyps=None, max_paths=4000, header_hyps=None,
                assume_fields=None, base_case=False, call_writes=None, inclusive=False,
                inline=None, after_call=None, _depth=0):
    """For every acyclic path from the entry to the event: (subst, hyps, items).  Scalar
    locals, globals and `param->field` lvalues are tracked by substitution, so plain atoms
    always denote *initial* values and facts never go stale; compound atoms (`(*loc)`,
    `a[i]`) that mention a name stored since are versioned; ?: values are resolved by the
    path's own branch.  `inline(call)` may name a helper (Func, or (Func, kwargs for its own
    path_states)) whose exit states are substituted at the call: one state per exit path of
    the helper, its stores through pointer parameters, to pointed-to struct fields and to
    globals applied, its return value bound to the call expression."""
    import re as _re
    from .cfg import paths_to
    from .util import path_consistent
    from . import lin as _lin
    cfg = func.cfg
    out = []
    lsn = loop_stored_names(func)
    loops_ = cfg.loops()

    def version(st, l):
        if l is None:
            return None
        if isinstance(l, tuple) and l and l[0] == "or":
            return ("or", [version(st, x) for x in l[1]], [version(st, x) for x in l[2]])
        if isinstance(l, tuple):
            return (l[0], version(st, l[1]))
        if not st.epoch:
            return l
        o = Lin(k=l.k)
        for a, v in l.c.items():
            b = a
            if not (a.isidentifier() or a in st.epoch or a.startswith("?")):
                tags = []
                for nm, e in st.epoch.items():
                    if _re.search(r"(?<![\w>.])%s(?![\w])" % _re.escape(nm), a.split("#")[0]):
                        tags.append("%s%d" % (nm, e))
                if tags and "#" not in a:
                    b = a + "#" + ",".join(sorted(tags))
            o.c[b] = o.c.get(b, 0) + v
        return o

    def lin_now(st, e):
        _lin._COND_RES[0] = st.byid
        try:
            return version(st, linearize(e, st.subst))
        finally:
            _lin._COND_RES[0] = None

    def step(st, it, items_last_blk):
        subst, epoch = st.subst, st.epoch
        if it[0] == "blk":
            # entering a loop header: everything the loop stores has an unknown value
            # (inductive step).  The caller's header hypotheses are re-assumed only for
            # loops that store one of the fields they speak about (their base case is a
            # separate obligation: base_case=True proves them on arrival at the header).
            if it[1] in lsn and lsn[it[1]]:
                if base_case and it is items_last_blk:
                    return [st]
                hb = cfg.blocks[it[1]]
                body_ = loops_.get(it[1], set())
                first = None
                if not any(s_ is not None and s_ not in body_ for s_ in hb.succ):
                    # bottom-tested loop (do-while): the first pass starts from the values on
                    # arrival; a later pass from unknown values for which the continuation
                    # test held
                    first = st.copy()
                entry_vals = {nm: (subst.get(nm) or Lin({nm: 1})) for nm in lsn[it[1]] if nm.isidentifier()}
                for nm in lsn[it[1]]:
                    subst[nm] = Lin({"?%s@h%d" % (nm, it[1]): 1})
                    epoch[nm] = epoch.get(nm, 0) + 1
                if first is not None:
                    conds = _reentry_conds(func, it[1], body_)
                    if conds is None:
                        subst["__havoc__"] = Lin(k=1)
                    else:
                        _lin._COND_RES[0] = None
                        for cid, tr in conds:
                            st.hyps += [version(st, h) for h in cmp_constraints(func.nodes[cid], tr, subst)]
                if header_hyps and (assume_fields is None or
                                    any(nm.endswith("->" + fl) for nm in lsn[it[1]] for fl in assume_fields)):
                    st.hyps += header_hyps(subst)
                # guarded counters: v <= bound + step is inductive once it holds on arrival
                forks = []
                for nm, v0 in entry_vals.items():
                    cb = _counter_bound(func, it[1], body_, nm)
                    if cb is None:
                        continue
                    cnode, M = cb
                    vh = subst[nm]
                    for L in cmp_constraints(cnode, True, subst):
                        if isinstance(L, tuple):
                            continue
                        atom = next(iter(vh.c)) if len(vh.c) == 1 else None
                        if atom is None or L.c.get(atom, 0) != -1:
                            continue
                        U = L + vh                      # the test says v <= U
                        if any(a_.startswith("?") and "@h%d" % it[1] in a_ for a_ in U.c):
                            continue                    # the bound itself changes in the loop
                        if prove_le(v0, U + Lin(k=M), st.hyps) == PROVEN:
                            st.hyps.append(U + Lin(k=M) - vh)
                        elif len(forks) < 2:
                            # `v == value on arrival  or  v <= bound + step` is inductive
                            forks.append((vh, v0, U + Lin(k=M)))
                    st.hyps.append(vh - v0)              # never decreases
                outs = [st]
                for vh, v0, ub in forks:
                    nxt = []
                    for s_ in outs:
                        a_, b_ = s_.copy(), s_.copy()
                        a_.hyps.append(v0 - vh)          # still the value on arrival
                        b_.hyps.append(ub - vh)
                        nxt += [a_, b_]
                    outs = nxt
                if first is not None:
                    return [first] + outs
                return outs
            return [st]
        if it[0] == "sw":
            # the edge of a switch: the selector equals the case value, or none of them (default)
            c = func.nodes.get(it[1])
            l_ = lin_now(st, c) if c is not None and not _impure_cond(c) else None
            if l_ is not None:
                if it[2] is not None:
                    st.hyps += [l_ - Lin(k=it[2]), Lin(k=it[2]) - l_]
                else:
                    st.hyps += [("ne", l_ - Lin(k=v_)) for v_ in it[3][:6]]
            return [st]
        if it[0] == "br":
            c = func.nodes[it[1]]
            st.byid[c["id"]] = it[2]
            _lin._COND_RES[0] = st.byid
            try:
                st.hyps += [version(st, h) for h in cmp_constraints(c, it[2], subst)]
                cc, tt = negate_truth(c, it[2])
                if cc["k"] == "ref" and cc["name"] in st.flags:
                    # a local that holds the outcome of a test made earlier on this path
                    st.hyps += st.flags[cc["name"]][0 if tt else 1]
                if not (cc["k"] == "call" and key(cc) in subst):
                    st.hyps += helper_constraints(func, c, it[2], subst, lambda l: version(st, l))
            finally:
                _lin._COND_RES[0] = None
            for h in st.hyps[-4:]:
                if isinstance(h, Lin) and h.is_const() and h.k < 0:
                    return []                      # this branch contradicts a known value
            return [st]
        n = func.nodes.get(it[1])
        if n is None:
            return [st]
        if n["k"] == "call":
            for a in n["args"]:
                a = strip_casts(a)
                if a["k"] == "un" and a["op"] == "&" and a["e"]["k"] == "ref":
                    nm = a["e"]["name"]
                    epoch[nm] = epoch.get(nm, 0) + 1
                    subst[nm] = Lin({"?%s@%d" % (nm, it[1]): 1})
            g = inline(n) if inline and _depth < 2 else None
            gkw = None
            if isinstance(g, tuple):
                g, gkw = g
            if g is not None:
                gkw0 = gkw
                gkw = dict(gkw or {})
                gkw.setdefault("inline", inline)
                summ = call_summary(g, gkw, _depth, cache_key=id(gkw0))
                if summ is not None:
                    outs = []
                    for sm in summ:
                        ns = _map_summary(func, n, g, sm, st, version)
                        if ns is None:
                            outs = None
                            break
                        outs.append(ns)
                    if outs is not None:
                        return outs
            if call_writes:
                # a callee that stores fields of a struct passed by pointer: their values
                # are unknown afterwards (and the path is marked: a failed goal on it is
                # `not decided`, not a contradiction)
                names = call_writes(n)
                for nm in names:
                    epoch[nm] = epoch.get(nm, 0) + 1
                    subst[nm] = Lin({"?%s@c%d" % (nm, it[1]): 1})
                    subst["__callhavoc__"] = Lin(k=1)
                if after_call and names:
                    st.hyps += after_call(n, subst)
            return [st]
        tgt = op = rhs = None
        if n["k"] == "bin" and n["op"] in ("=", "+=", "-="):
            tgt, op, rhs = n["l"], n["op"], n["r"]
        elif n["k"] == "un" and n["op"] in ("post++", "pre++", "post--", "pre--"):
            tgt, op = n["e"], n["op"]
        elif n["k"] == "var" and "init" in n:
            tgt, op, rhs = n, "=", n["init"]
        if tgt is None:
            return [st]
        if tgt["k"] in ("ref", "var"):
            nm = tgt["name"]
        elif tgt["k"] == "member" or (tgt["k"] == "un" and tgt["op"] == "*" and tgt["e"]["k"] == "ref"):
            nm = key(tgt)
        else:
            return [st]
        old = subst.get(nm) or Lin({nm: 1})
        st.flags.pop(nm, None)
        if op == "=" and rhs is not None and tgt["k"] in ("ref", "var"):
            v_ = strip_casts(rhs)
            if (v_["k"] == "bin" and v_["op"] in ("<", "<=", ">", ">=", "==", "!=", "&&", "||")) or \
                    (v_["k"] == "un" and v_["op"] == "!"):
                _lin._COND_RES[0] = st.byid
                try:
                    st.flags[nm] = ([version(st, h) for h in cmp_constraints(v_, True, subst)],
                                    [version(st, h) for h in cmp_constraints(v_, False, subst)])
                finally:
                    _lin._COND_RES[0] = None
        if op == "=":
            val = strip_casts(rhs)
            new = lin_now(st, val) if val is not None else None
            if new is not None and val["k"] == "cond" and strip_casts(val["c"])["id"] not in st.byid:
                new = None
        elif op in ("+=", "-="):
            r = lin_now(st, strip_casts(rhs))
            new = None if r is None else (old + r if op == "+=" else old - r)
        else:
            new = old + Lin(k=1 if "++" in op else -1)
        subst[nm] = new if new is not None else Lin({"?%s@%d" % (nm, it[1]): 1})
        epoch[nm] = epoch.get(nm, 0) + 1
        return [st]

    if target_nid == "exit":
        from .cfg import enum_paths
        all_items = [it_ for it_, end_ in enum_paths(cfg, cfg.entry, {cfg.exit}, max_paths=max_paths)
                     if end_ == cfg.exit]
    else:
        all_items = paths_to(cfg, cfg.entry, target_nid, max_paths=max_paths)
    for items in all_items:
        if not path_consistent(func, items):
            continue
        if inclusive and target_nid != "exit":
            items = items + [("ev", target_nid)]     # state after the event itself
        blks = [x for x in items if x[0] == "blk"]
        items_last_blk = blks[-1] if blks else None
        states = [_St(hyps=list(init_hyps or []))]
        for it in items:
            nxt = []
            for st in states:
                nxt += step(st, it, items_last_blk)
            states = nxt
            if len(states) > 64:
                raise OverflowError("too many helper exit states")
            if not states:
                break
        for st in states:
            # how to read an expression in this final state (substitution + versioned atoms)
            st.subst["__linfn__"] = (lambda e, st=st: lin_now(st, e))
            out.append((st.subst, st.hyps, items))
    return out
