"""A small abstract evaluator for *pure* helper functions of the repository.

It folds the AST of tiny functions (decoders, predicates, cost functions) over finite
input domains: all 256 lead bytes, all short byte strings over a representative alphabet,
all repetition pairs of a grid.  There is no program state, no I/O and nothing is compiled
or run; values are Python ints, symbolic linear forms (for cost analysis), byte-string
pointers with an explicit terminator (reads past it are reported), or opaque.
"""
from .facts import cval, key
from .lin import Lin


class OverRead(Exception):
    def __init__(self, idx, n):
        Exception.__init__(self, "read at index %d of a %d-byte string (terminator at %d)" % (idx, n, n - 1))
        self.idx = idx


class Unsupported(Exception):
    pass


class IntOverflow(Exception):
    pass


class _Return(Exception):
    def __init__(self, v):
        self.v = v


class _Break(Exception):
    pass


class _Goto(Exception):
    def __init__(self, label):
        Exception.__init__(self, "goto %s" % label)
        self.label = label


class _Continue(Exception):
    pass


class Ptr:
    """pointer into a NUL-terminated byte string (tuple of ints ending in 0)"""
    __slots__ = ("buf", "off", "log", "writes")

    def __init__(self, buf, off=0, log=None):
        self.buf = buf
        self.off = off
        self.log = log if log is not None else []
        self.writes = None

    def read(self, i):
        j = self.off + i
        self.log.append(j)
        if j < 0 or j >= len(self.buf):
            raise OverRead(j, len(self.buf))
        return self.buf[j]

    def add(self, n):
        p = Ptr(self.buf, self.off + n, self.log)
        p.writes = getattr(self, "writes", None)
        return p

    def write(self, i, v):
        """a store through the pointer: bounds-checked against the string's block (terminator
        included) and recorded; the contents are not changed"""
        j = self.off + i
        if j < 0 or j >= len(self.buf):
            raise OverRead(j, len(self.buf))
        w = getattr(self, "writes", None)
        if w is not None:
            w.append((j, v))

    def __eq__(self, o):
        return isinstance(o, Ptr) and o.buf is self.buf and o.off == self.off

    def __hash__(self):
        return hash((id(self.buf), self.off))


class ArrPtr(Ptr):
    """pointer into a local / static array that the evaluator keeps as {index: value}: reads and
    writes go to the array (unwritten cells of an automatic array are opaque)"""
    __slots__ = ()

    def __init__(self, arr, off=0):
        Ptr.__init__(self, arr, off, [])
        self.writes = []

    def read(self, i):
        return self.buf.get(self.off + i, OPAQUE)

    def add(self, n):
        return ArrPtr(self.buf, self.off + n)

    def write(self, i, v):
        self.buf[self.off + i] = v

    def __eq__(self, o):
        return isinstance(o, Ptr) and o.buf is self.buf and o.off == self.off

    def __hash__(self):
        return hash((id(self.buf), self.off))


class _VarCell(dict):
    """pointer to a scalar local of some frame: reads and writes go to that variable"""
    def __init__(self, env, name):
        dict.__init__(self)
        self.env = env
        self.name = name

    def __contains__(self, k):
        return k == "__deref__"

    def __getitem__(self, k):
        return self.env[self.name]

    def __setitem__(self, k, v):
        self.env[self.name] = v

    def get(self, k, d=None):
        return self.env[self.name] if k == "__deref__" else d

    def __bool__(self):
        return True


class Opaque:
    def __repr__(self):
        return "<opaque>"


OPAQUE = Opaque()


def _c_isalpha(c):
    return 65 <= c <= 90 or 97 <= c <= 122


LIBC = {
    "isalpha": lambda c: int(_c_isalpha(c)),
    "isdigit": lambda c: int(48 <= c <= 57),
    "isalnum": lambda c: int(_c_isalpha(c) or 48 <= c <= 57),
    "isupper": lambda c: int(65 <= c <= 90),
    "islower": lambda c: int(97 <= c <= 122),
    "isspace": lambda c: int(c in (32, 9, 10, 11, 12, 13)),
    "isprint": lambda c: int(32 <= c <= 126),
    "ispunct": lambda c: int(33 <= c <= 126 and not (_c_isalpha(c) or 48 <= c <= 57)),
    "isxdigit": lambda c: int(48 <= c <= 57 or 65 <= c <= 70 or 97 <= c <= 102),
    "tolower": lambda c: c + 32 if 65 <= c <= 90 else c,
    "toupper": lambda c: c - 32 if 97 <= c <= 122 else c,
}


def _wrap(v, ty):
    """C conversion on explicit casts / typed stores"""
    if not isinstance(v, int) or ty is None:
        return v
    if ty in ("unsigned char",):
        return v & 0xff
    if ty in ("char", "signed char"):
        v &= 0xff
        return v - 256 if v >= 128 else v
    if ty in ("int",):
        v &= 0xffffffff
        return v - (1 << 32) if v >= (1 << 31) else v
    if ty in ("unsigned int", "unsigned"):
        return v & 0xffffffff
    return v


class Interp:
    def __init__(self, prog, hooks=None, fields=None, max_steps=200000, summarize_loops=False,
                 globals_=None, sym_cap=None, int_overflow=False, max_depth=8, shared_globals=False,
                 static_fill=0):
        self.prog = prog
        self.static_fill = static_fill          # what a static array holds on entry (0: first use)
        self.shared_globals = shared_globals   # stores to modelled globals are seen by callees
        self.max_depth = max_depth
        self.sym_cap = sym_cap            # symbolic values are assumed below constants >= this
        self.assumed = set()
        self.int_overflow = int_overflow  # raise IntOverflow when int arithmetic leaves 32 bits
        self.globals = globals_ or {}
        self.hooks = hooks or {}
        self.fields = fields or {}        # member field name -> value (for n->rn etc.)
        self.steps = 0
        self.max_steps = max_steps
        self.cost = Lin()
        self.summarize_loops = summarize_loops
        self.counters = {}

    # -- entry -------------------------------------------------------------------
    def call(self, func, args, depth=0):
        if depth > self.max_depth:
            raise Unsupported("call depth")
        env = {}
        for p, a in zip(func.params, args):
            env[p["name"]] = _wrap(a, p["ty"]) if isinstance(a, int) else a
        if depth == 0:
            self.last_env = env
        try:
            self.stmt(func, func.body, env, depth)
        except _Return as r:
            return r.v
        except _Goto as g:
            raise Unsupported("goto into a nested block (%s)" % g.label)
        return None

    def tick(self):
        self.steps += 1
        if self.steps > self.max_steps:
            raise Unsupported("step limit")

    # -- statements --------------------------------------------------------------
    def stmt(self, f, s, env, depth):
        if s is None:
            return
        self.tick()
        k = s["k"]
        if k == "block":
            items = s["body"]
            i = 0
            hops = 0
            while i < len(items):
                try:
                    self.stmt(f, items[i], env, depth)
                except _Goto as g:
                    # a forward or backward jump to a label that is a direct child of this block
                    tgt = [j for j, it in enumerate(items) if it is not None and it["k"] == "label"
                           and it.get("name") == g.label]
                    if not tgt:
                        raise
                    hops += 1
                    if hops > 5000:
                        raise Unsupported("loop bound")
                    i = tgt[0]
                    continue
                i += 1
        elif k == "decl":
            for v in s["vars"]:
                if "init" in v:
                    val = self.expr(f, v["init"], env, depth)
                    if type(val) is dict and "__deref__" not in val and str(v.get("ty", "")) in (
                            "char *", "unsigned char *", "int *") and all(isinstance(k_, int) for k_ in val):
                        val = ArrPtr(val, 0)          # char *d = buf;  (an array decays to a pointer)
                    env[v["name"]] = _wrap(val, v.get("ty"))
                elif "arr_n" in v:
                    # a static array starts out zero (its first use); an automatic one undefined
                    env[v["name"]] = ({i: self.static_fill for i in range(v["arr_n"])}
                                      if v.get("cat") == "slocal" and isinstance(v["arr_n"], int) and v["arr_n"] <= 4096
                                      else {})
                elif v.get("ty", "").startswith("struct ") and not v["ty"].endswith("*"):
                    env[v["name"]] = {}
                else:
                    env[v["name"]] = OPAQUE
        elif k == "if":
            c = self.truth(self.expr(f, s["c"], env, depth))
            if c:
                self.stmt(f, s["t"], env, depth)
            elif s.get("e") is not None:
                self.stmt(f, s["e"], env, depth)
        elif k == "while":
            n = 0
            while self.truth(self.expr(f, s["c"], env, depth)):
                n += 1
                if n > 5000:
                    raise Unsupported("loop bound")
                try:
                    self.stmt(f, s["body"], env, depth)
                except _Break:
                    break
                except _Continue:
                    continue
        elif k == "do":
            n = 0
            while True:
                n += 1
                if n > 5000:
                    raise Unsupported("loop bound")
                try:
                    self.stmt(f, s["body"], env, depth)
                except _Break:
                    break
                except _Continue:
                    pass
                if not self.truth(self.expr(f, s["c"], env, depth)):
                    break
        elif k == "for":
            self._for(f, s, env, depth)
        elif k == "return":
            raise _Return(self.expr(f, s["e"], env, depth) if s.get("e") is not None else None)
        elif k == "break":
            raise _Break()
        elif k == "continue":
            raise _Continue()
        elif k == "null":
            pass
        elif k == "switch":
            self._switch(f, s, env, depth)
        elif k in ("case", "default"):
            self.stmt(f, s.get("body"), env, depth)
        elif k == "goto":
            raise _Goto(s.get("label"))
        elif k == "label":
            self.stmt(f, s.get("body"), env, depth)
        else:
            self.expr(f, s, env, depth)

    def _switch(self, f, s, env, depth):
        """switch over a flat compound body (case labels directly inside it), with fall-through"""
        v = self.expr(f, s["c"], env, depth)
        if not isinstance(v, int):
            raise Unsupported("switch on a non-integer value")
        body = s["body"]
        items = body["body"] if body is not None and body["k"] == "block" else [body]
        start = None
        default = None
        for i, it in enumerate(items):
            cur = it
            while cur is not None and cur["k"] in ("case", "default"):
                if cur["k"] == "case" and cval(cur["v"]) == v and start is None:
                    start = i
                if cur["k"] == "default" and default is None:
                    default = i
                cur = cur.get("body")
        if start is None:
            start = default
        if start is None:
            return
        try:
            for it in items[start:]:
                self.stmt(f, it, env, depth)
        except _Break:
            pass

    def _for(self, f, s, env, depth):
        if s.get("init") is not None:
            self.stmt(f, s["init"], env, depth)
        # loop summarisation: for (i = a; i < K; i++) with an iteration-independent body
        if self.summarize_loops and s.get("c") is not None and s["c"]["k"] == "bin" and \
                s["c"]["op"] == "<" and s["c"]["l"]["k"] == "ref" and s.get("inc") is not None and \
                s["inc"]["k"] == "un" and s["inc"]["op"] in ("post++", "pre++"):
            iv = s["c"]["l"]["name"]
            i0 = env.get(iv)
            K = self.expr(f, s["c"]["r"], env, depth)
            if isinstance(i0, int) and isinstance(K, int):
                trip = max(0, K - i0)
                if trip <= 2:
                    pass   # fall through to the concrete loop
                else:
                    snaps = []
                    for t in range(2):
                        c0 = self.cost
                        e0 = {k: v for k, v in env.items() if isinstance(v, int)}
                        env[iv] = i0 + t
                        self.stmt(f, s["body"], env, depth)
                        dc = self.cost - c0
                        de = {k: env[k] - e0[k] for k in e0 if isinstance(env.get(k), int) and k != iv}
                        snaps.append((repr(dc), de, dc))
                    if snaps[0][0] != snaps[1][0] or snaps[0][1] != snaps[1][1]:
                        raise Unsupported("loop body depends on the iteration")
                    dc, de = snaps[0][2], snaps[0][1]
                    rest = trip - 2
                    self.cost = self.cost + dc.scale(rest)
                    for k, d in de.items():
                        env[k] = env[k] + d * rest
                    env[iv] = K
                    return
        n = 0
        while s.get("c") is None or self.truth(self.expr(f, s["c"], env, depth)):
            n += 1
            if n > 5000:
                raise Unsupported("loop bound")
            try:
                self.stmt(f, s["body"], env, depth)
            except _Break:
                break
            except _Continue:
                pass
            if s.get("inc") is not None:
                self.expr(f, s["inc"], env, depth)

    # -- expressions -------------------------------------------------------------
    def truth(self, v):
        if isinstance(v, int):
            return v != 0
        if isinstance(v, Ptr):
            return True
        if isinstance(v, dict):
            return True
        if v is None:
            return False
        raise Unsupported("truth of %r" % (v,))

    def expr(self, f, e, env, depth):
        self.tick()
        if e is None:
            return None
        k = e["k"]
        if k == "int":
            return e["v"]
        if k == "str":
            return Ptr(tuple(ord(c) for c in e["v"]) + (0,))
        if "cv" in e and k not in ("ref",):
            return e["cv"]
        if k == "ref":
            if e["cat"] == "enum" and "cv" in e:
                return e["cv"]
            if e["name"] in env:
                return env[e["name"]]
            if e["name"] in self.globals:
                return self.globals[e["name"]]
            if "cv" in e:
                return e["cv"]
            return OPAQUE
        if k == "cast":
            v = self.expr(f, e["e"], env, depth)
            if e["to"].endswith("*"):
                return v
            return _wrap(v, e["to"])
        if k == "member":
            if e["field"] in self.fields:
                return self.fields[e["field"]]
            b = self.expr(f, e["base"], env, depth)
            if isinstance(b, dict) and e["field"] in b:
                return b[e["field"]]
            return OPAQUE
        if k == "sub":
            b = self.expr(f, e["base"], env, depth)
            i = self.expr(f, e["idx"], env, depth)
            if isinstance(b, Ptr) and isinstance(i, int):
                v = b.read(i)
                # char is signed
                return v - 256 if (e.get("ty") == "char" and v >= 128) else v
            if isinstance(b, dict) and isinstance(i, int):
                return b.get(i, OPAQUE)
            return OPAQUE
        if k == "un":
            op = e["op"]
            if op == "*":
                b = self.expr(f, e["e"], env, depth)
                if isinstance(b, Ptr):
                    v = b.read(0)
                    return v - 256 if (e.get("ty") == "char" and v >= 128) else v
                if isinstance(b, dict) and "__deref__" in b:
                    return b["__deref__"]
                return OPAQUE
            if op in ("post++", "pre++", "post--", "pre--"):
                return self._incdec(f, e, env, depth)
            if op == "&":
                t_ = e["e"]
                while t_["k"] == "cast":
                    t_ = t_["e"]
                if t_["k"] == "ref" and t_["name"] in env and not isinstance(env[t_["name"]], dict):
                    return _VarCell(env, t_["name"])       # the address of a scalar local
                if t_["k"] == "sub":                        # &a[i] is a + i
                    b_ = self.expr(f, t_["base"], env, depth)
                    i_ = self.expr(f, t_["idx"], env, depth)
                    if isinstance(b_, Ptr) and isinstance(i_, int):
                        return b_.add(i_)
                    if type(b_) is dict and isinstance(i_, int) and "__deref__" not in b_ and \
                            all(isinstance(k_, int) for k_ in b_) and not isinstance(b_.get(i_), dict):
                        return ArrPtr(b_, i_)          # an array of scalars (structs: the element itself)
                if t_["k"] == "member" and t_["field"] not in self.fields:
                    b_ = self.expr(f, t_["base"], env, depth)
                    if isinstance(b_, dict) and not isinstance(b_.get(t_["field"]), dict):
                        b_.setdefault(t_["field"], OPAQUE)
                        return _VarCell(b_, t_["field"])   # the address of a scalar field
            v = self.expr(f, e["e"], env, depth)
            if op == "&":
                return v if isinstance(v, dict) else OPAQUE
            if isinstance(v, Lin):
                if op == "-":
                    return v.scale(-1)
                raise Unsupported("unary %s on symbolic" % op)
            if not isinstance(v, int):
                if op == "!":
                    return int(not self.truth(v))
                return OPAQUE
            if op == "-":
                return -v
            if op == "+":
                return v
            if op == "!":
                return int(not v)
            if op == "~":
                return ~v
            raise Unsupported("unary " + op)
        if k == "bin":
            return self._bin(f, e, env, depth)
        if k == "cond":
            c = self.truth(self.expr(f, e["c"], env, depth))
            return self.expr(f, e["t"] if c else e["f"], env, depth)
        if k == "call":
            return self._call(f, e, env, depth)
        if k == "sizeof":
            return e.get("cv", OPAQUE)
        raise Unsupported("expr kind " + k)

    def _incdec(self, f, e, env, depth):
        t = e["e"]
        d = 1 if "++" in e["op"] else -1
        if t["k"] == "ref" and t["name"] in env:
            old = env[t["name"]]
            if isinstance(old, int):
                new = old + d
            elif isinstance(old, Ptr):
                new = old.add(d)
            elif isinstance(old, Lin):
                new = old + Lin(k=d)
            else:
                new = OPAQUE
            env[t["name"]] = new
            return new if e["op"].startswith("pre") else old
        if t["k"] == "member":
            b = self.expr(f, t["base"], env, depth)
            if isinstance(b, dict) and t["field"] in b:
                old = b[t["field"]]
                new = old + d if isinstance(old, int) else (old.add(d) if isinstance(old, Ptr) else OPAQUE)
                b[t["field"]] = new
                return new if e["op"].startswith("pre") else old
        while t["k"] == "cast":
            t = t["e"]
        if t["k"] == "un" and t["op"] == "*":
            b = self.expr(f, t["e"], env, depth)
            if isinstance(b, dict) and "__deref__" in b:
                old = b["__deref__"]
                new = old + d if isinstance(old, int) else (old.add(d) if isinstance(old, Ptr) else OPAQUE)
                b["__deref__"] = new
                return new if e["op"].startswith("pre") else old
        return OPAQUE

    def _assign(self, f, lv, val, env, depth):
        if lv["k"] == "ref" and self.shared_globals and lv.get("cat") in ("global", "sglobal") and \
                lv["name"] in self.globals and lv["name"] not in env:
            self.globals[lv["name"]] = _wrap(val, lv.get("ty")) if isinstance(val, int) else val
        elif lv["k"] == "ref":
            env[lv["name"]] = _wrap(val, lv.get("ty")) if isinstance(val, int) else val
        elif lv["k"] == "sub":
            b = self.expr(f, lv["base"], env, depth) if lv["base"]["k"] in ("ref", "member") else None
            i = self.expr(f, lv["idx"], env, depth)
            if isinstance(b, dict) and isinstance(i, int):
                b[i] = val
                nm = lv["base"].get("name") or lv["base"].get("field")
                self.counters[nm] = max(self.counters.get(nm, -1), i)
            elif isinstance(b, Ptr) and isinstance(i, int) and getattr(b, "writes", None) is not None:
                b.write(i, val)
        elif lv["k"] == "member":
            b = self.expr(f, lv["base"], env, depth)
            if isinstance(b, dict):
                b[lv["field"]] = val
        elif lv["k"] == "un" and lv["op"] == "*":
            b = self.expr(f, lv["e"], env, depth)
            if isinstance(b, dict) and "__deref__" in b:
                b["__deref__"] = val            # a pointer to a variable (char **pat)
            elif isinstance(b, Ptr) and getattr(b, "writes", None) is not None:
                b.write(0, val)
            elif type(b) is dict and all(isinstance(k_, int) for k_ in b):
                b[0] = val                      # *array
        elif lv["k"] == "cast":
            self._assign(f, lv["e"], val, env, depth)
        # stores through other pointers have no effect on the abstraction

    def _bin(self, f, e, env, depth):
        op = e["op"]
        if op == "=":
            v = self.expr(f, e["r"], env, depth)
            self._assign(f, e["l"], v, env, depth)
            return v
        if op in ("+=", "-=", "*=", "|=", "&=", "<<=", ">>="):
            cur = self.expr(f, e["l"], env, depth)
            r = self.expr(f, e["r"], env, depth)
            v = self._arith(op[:-1], cur, r)
            self._assign(f, e["l"], v, env, depth)
            return v
        if op == "&&":
            l = self.expr(f, e["l"], env, depth)
            if not self.truth(l):
                return 0
            return int(self.truth(self.expr(f, e["r"], env, depth)))
        if op == "||":
            l = self.expr(f, e["l"], env, depth)
            if self.truth(l):
                return 1
            return int(self.truth(self.expr(f, e["r"], env, depth)))
        if op == ",":
            self.expr(f, e["l"], env, depth)
            return self.expr(f, e["r"], env, depth)
        l = self.expr(f, e["l"], env, depth)
        r = self.expr(f, e["r"], env, depth)
        return self._arith(op, l, r)

    def _arith(self, op, l, r):
        # an array used as a pointer: array + n, array - array, comparisons with pointers into it
        def arr_(x):
            return type(x) is dict and "__deref__" not in x and all(isinstance(k_, int) for k_ in x)
        if arr_(l) and (isinstance(r, int) or isinstance(r, Ptr)) and op in ("+", "-", "==", "!=", "<", ">", "<=", ">="):
            l = ArrPtr(l)
        if arr_(r) and (isinstance(l, int) or isinstance(l, Ptr)) and op in ("+", "==", "!=", "<", ">", "<=", ">=", "-"):
            r = ArrPtr(r)
        if isinstance(l, Ptr) and isinstance(r, int) and op in ("+", "-"):
            return l.add(r if op == "+" else -r)
        if isinstance(r, Ptr) and isinstance(l, int) and op == "+":
            return r.add(l)
        if isinstance(l, Ptr) and isinstance(r, Ptr):
            if op == "-":
                return l.off - r.off
            if op in ("==", "!=", "<", ">", "<=", ">="):
                a, b = l.off, r.off
                return int({"==": a == b, "!=": a != b, "<": a < b, ">": a > b,
                            "<=": a <= b, ">=": a >= b}[op])
        if isinstance(l, Lin) or isinstance(r, Lin):
            L = l if isinstance(l, Lin) else (Lin(k=l) if isinstance(l, int) else None)
            R = r if isinstance(r, Lin) else (Lin(k=r) if isinstance(r, int) else None)
            if L is None or R is None:
                raise Unsupported("symbolic op with opaque")
            if op == "+":
                return L + R
            if op == "-":
                return L - R
            if op == "*":
                if L.is_const():
                    return R.scale(L.k)
                if R.is_const():
                    return L.scale(R.k)
            if L.is_const() and R.is_const() and op in ("<", "<=", ">", ">=", "==", "!="):
                a, b = L.k, R.k
                return int({"==": a == b, "!=": a != b, "<": a < b, ">": a > b,
                            "<=": a <= b, ">=": a >= b}[op])
            if self.sym_cap is not None and op in ("<", "<=", ">", ">="):
                # the unsaturated case: a symbolic size is below any constant limit >= sym_cap
                if R.is_const() and not L.is_const() and R.k >= self.sym_cap:
                    self.assumed.add(R.k)
                    return int(op in ("<", "<="))
                if L.is_const() and not R.is_const() and L.k >= self.sym_cap:
                    self.assumed.add(L.k)
                    return int(op in (">", ">="))
            raise Unsupported("symbolic op " + op)
        if not (isinstance(l, int) and isinstance(r, int)):
            def nullness_(x):
                if x is None or (isinstance(x, int) and x == 0):
                    return True
                if isinstance(x, (Ptr, dict)) or type(x).__name__ == "NodeRef":
                    return False          # a pointer to something
                return None
            if op in ("==", "!="):
                ln, rn = nullness_(l), nullness_(r)
                if ln is not None and rn is not None and (ln or rn):
                    eq = ln == rn
                    return int(eq if op == "==" else not eq)
                if isinstance(l, Ptr) and isinstance(r, Ptr):
                    eq = l == r
                    return int(eq if op == "==" else not eq)
                if isinstance(l, dict) and isinstance(r, dict):
                    eq = l is r
                    return int(eq if op == "==" else not eq)
            return OPAQUE
        if op in ("+", "-", "*"):
            v = l + r if op == "+" else (l - r if op == "-" else l * r)
            if self.int_overflow and not (-(1 << 31) <= v < (1 << 31)):
                raise IntOverflow("%d %s %d" % (l, op, r))
            return v
        if op == "/":
            if r == 0:
                raise Unsupported("division by zero")
            q = abs(l) // abs(r)
            return q if (l >= 0) == (r >= 0) else -q
        if op == "%":
            if r == 0:
                raise Unsupported("division by zero")
            return abs(l) % abs(r) * (1 if l >= 0 else -1)
        if op == "&":
            return l & r
        if op == "|":
            return l | r
        if op == "^":
            return l ^ r
        if op == "<<":
            return l << r
        if op == ">>":
            return l >> r
        if op in ("==", "!=", "<", ">", "<=", ">="):
            return int({"==": l == r, "!=": l != r, "<": l < r, ">": l > r,
                        "<=": l <= r, ">=": l >= r}[op])
        raise Unsupported("binary " + op)

    def _call(self, f, e, env, depth):
        fn = e.get("fn")
        if fn in self.hooks:
            args = [self.expr(f, a, env, depth) for a in e["args"]]
            return self.hooks[fn](self, f, e, args, env)
        args = [self.expr(f, a, env, depth) for a in e["args"]]
        if fn in LIBC and all(isinstance(a, int) for a in args):
            return LIBC[fn](*args)
        if fn == "strlen" and isinstance(args[0], Ptr):
            n = 0
            while args[0].read(n) != 0:
                n += 1
            return n
        if fn == "strchr" and isinstance(args[0], Ptr) and isinstance(args[1], int):
            n = 0
            while True:
                c = args[0].read(n)
                if c == (args[1] & 0xff):
                    return args[0].add(n)
                if c == 0:
                    return None
                n += 1
        if fn == "strcmp" and isinstance(args[0], Ptr) and isinstance(args[1], Ptr):
            i = 0
            while True:
                a, b = args[0].read(i), args[1].read(i)
                if a != b:
                    return a - b
                if a == 0:
                    return 0
                i += 1
        if fn == "strncmp" and isinstance(args[0], Ptr) and isinstance(args[1], Ptr) and isinstance(args[2], int):
            for i in range(args[2]):
                a, b = args[0].read(i), args[1].read(i)
                if a != b:
                    return a - b
                if a == 0:
                    return 0
            return 0
        if fn:
            g = self.prog.resolve(f, fn)
            if g is not None:
                return self.call(g, args, depth + 1)
        return OPAQUE
