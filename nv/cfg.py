"""Event-level queries on clang's CFG as exported by nvfacts.

A *position* is (block id, index in the block's event list).  Events are AST
node ids in evaluation order.  Branch blocks end in a terminator whose
condition node is `cond`; successor 0 is the true edge, successor 1 the false
edge (if / while / for / do / && / || / ?:).  Switch blocks list one successor
per case label, the default (or fall-out) successor last.
"""
from collections import deque

BRANCH_KINDS = ("if", "while", "for", "do", "and", "or", "cond")


class Block:
    __slots__ = ("id", "ev", "term", "succ", "label", "pred", "noreturn")

    def __init__(self, d):
        self.id = d["id"]
        self.ev = d["ev"]
        self.term = d.get("term")
        self.succ = [s for s in d["succ"]]
        self.label = d.get("label")
        self.pred = []
        self.noreturn = d.get("noreturn", False)


class CFG:
    def __init__(self, func):
        self.func = func
        c = func.d["cfg"]
        if c is None:
            from .facts import AnalysisBroken
            raise AnalysisBroken("no CFG for %s" % func.qname)
        self.entry = c["entry"]
        self.exit = c["exit"]
        self.blocks = {b["id"]: Block(b) for b in c["blocks"]}
        for b in self.blocks.values():
            for s in b.succ:
                if s is not None:
                    self.blocks[s].pred.append(b.id)
        self.posmap = {}
        for b in self.blocks.values():
            for i, e in enumerate(b.ev):
                # a node may be listed twice (clang repeats some); keep first
                self.posmap.setdefault(e, (b.id, i))
        self._dom = None
        self._pdom = None
        self._reach_cache = {}

    # -- basic -----------------------------------------------------------------
    def pos(self, nid):
        """Position of an AST node; falls back to the first evaluated descendant /
        ancestor when the node itself is not a CFG element."""
        if isinstance(nid, dict):
            nid = nid["id"]
        if nid in self.posmap:
            return self.posmap[nid]
        # descend: last evaluated descendant (an expression is evaluated after its parts)
        from .facts import walk
        n = self.func.nodes.get(nid)
        best = None
        if n is not None:
            for d in walk(n):
                if d["id"] in self.posmap:
                    p = self.posmap[d["id"]]
                    best = p  # any; take the last seen
            if best:
                return best
        return None

    def succs(self, bid):
        return [s for s in self.blocks[bid].succ if s is not None]

    def branch(self, bid):
        """(cond node id, true succ, false succ) or None."""
        b = self.blocks[bid]
        if b.term and b.term["kind"] in BRANCH_KINDS and len(b.succ) == 2 and b.term["cond"]:
            return (b.term["cond"], b.succ[0], b.succ[1])
        return None

    def branch_of_cond(self, cond_nid):
        """Block whose terminator condition is this node."""
        for b in self.blocks.values():
            if b.term and b.term.get("cond") == cond_nid and len(b.succ) == 2:
                return b
        return None

    # -- dominators -------------------------------------------------------------
    def _compute_dom(self, entry, succ_of, pred_of):
        ids = list(self.blocks)
        # reachable set
        seen = {entry}
        order = []
        dq = deque([entry])
        while dq:
            x = dq.popleft()
            order.append(x)
            for s in succ_of(x):
                if s not in seen:
                    seen.add(s)
                    dq.append(s)
        dom = {b: set(seen) for b in seen}
        dom[entry] = {entry}
        changed = True
        while changed:
            changed = False
            for b in order:
                if b == entry:
                    continue
                ps = [p for p in pred_of(b) if p in seen]
                if not ps:
                    continue
                new = set.intersection(*(dom[p] for p in ps)) | {b}
                if new != dom[b]:
                    dom[b] = new
                    changed = True
        return dom

    @property
    def dom(self):
        if self._dom is None:
            self._dom = self._compute_dom(
                self.entry, self.succs, lambda b: self.blocks[b].pred)
        return self._dom

    @property
    def pdom(self):
        if self._pdom is None:
            self._pdom = self._compute_dom(
                self.exit, lambda b: self.blocks[b].pred, self.succs)
        return self._pdom

    def dominates(self, a, b):
        """Every path from entry to event b passes event a first."""
        pa, pb = self.pos(a), self.pos(b)
        if pa is None or pb is None:
            return False
        if pa[0] == pb[0]:
            return pa[1] < pb[1]
        return pb[0] in self.dom and pa[0] in self.dom[pb[0]]

    def postdominates(self, a, b):
        """Every path from event b to the exit passes event a afterwards."""
        pa, pb = self.pos(a), self.pos(b)
        if pa is None or pb is None:
            return False
        if pa[0] == pb[0]:
            return pa[1] > pb[1]
        return pb[0] in self.pdom and pa[0] in self.pdom[pb[0]]

    # -- reachability -----------------------------------------------------------
    def search(self, start, target, avoid=None, edge_ok=None, start_block=False):
        """Is there a path from `start` to an event satisfying `target` that passes
        no event satisfying `avoid`?  `start` is a position (exclusive: the scan
        starts after it) or, with start_block=True, a block id (scan from its top).
        Returns the target node id found, or None.  target may also accept the
        pseudo-event ("exit",) when the path reaches the exit block."""
        if start_block:
            work = deque([(start, 0)])
        else:
            work = deque([(start[0], start[1] + 1)])
        seen = set()
        while work:
            bid, idx = work.popleft()
            b = self.blocks[bid]
            blocked = False
            for i in range(idx, len(b.ev)):
                e = b.ev[i]
                if target(e):
                    return e
                if avoid and avoid(e):
                    blocked = True
                    break
            if blocked:
                continue
            if bid == self.exit:
                if target(("exit",)):
                    return ("exit",)
            for k, s in enumerate(b.succ):
                if s is None:
                    continue
                if edge_ok and not edge_ok(bid, k, s):
                    continue
                if s not in seen:
                    seen.add(s)
                    work.append((s, 0))
        return None

    def reachable_blocks(self, start_block, edge_ok=None):
        seen = {start_block}
        dq = deque([start_block])
        while dq:
            x = dq.popleft()
            for k, s in enumerate(self.blocks[x].succ):
                if s is None or (edge_ok and not edge_ok(x, k, s)):
                    continue
                if s not in seen:
                    seen.add(s)
                    dq.append(s)
        return seen

    def edge_dominates(self, bid, k, target_block):
        """Every path from entry to target_block uses edge k of block bid."""
        keyc = (bid, k, target_block)
        if keyc in self._reach_cache:
            return self._reach_cache[keyc]
        r = target_block not in self.reachable_blocks(
            self.entry, edge_ok=lambda b, kk, s: not (b == bid and kk == k))
        # must be reachable at all
        if r and target_block not in self.reachable_blocks(self.entry):
            r = False
        self._reach_cache[keyc] = r
        return r

    def facts_at(self, nid):
        """[(cond node id, truth)] for every two-way branch one of whose edges
        lies on every path from the entry to the event."""
        p = self.pos(nid)
        if p is None:
            return []
        out = []
        for b in self.blocks.values():
            br = self.branch(b.id)
            if not br or br[1] == br[2]:
                continue
            if b.id == p[0]:
                continue
            if self.edge_dominates(b.id, 0, p[0]):
                out.append((br[0], True))
            elif self.edge_dominates(b.id, 1, p[0]):
                out.append((br[0], False))
        return out

    def switch_facts_at(self, nid):
        """[(switch cond node id, case values set)] when every path to the event
        enters through case labels of one switch."""
        p = self.pos(nid)
        out = []
        if p is None:
            return out
        for b in self.blocks.values():
            if not (b.term and b.term["kind"] == "switch"):
                continue
            # set of successor indexes through which p is reachable
            vals = set()
            ok = True
            if b.id not in self.dom.get(p[0], ()):  # switch must dominate
                continue
            for k, s in enumerate(b.succ):
                if s is None:
                    continue
                reach = p[0] in self.reachable_blocks(
                    s, edge_ok=lambda bb, kk, ss: bb != b.id)
                if reach:
                    lab = self.blocks[s].label
                    if lab and lab["kind"] == "case" and "v" in lab:
                        vals.add(lab["v"])
                    else:
                        ok = False
            if ok and vals:
                out.append((b.term["cond"], vals))
        return out

    # -- loops ------------------------------------------------------------------
    def back_edges(self):
        out = []
        for b in self.blocks.values():
            for s in b.succ:
                if s is not None and b.id in self.dom and s in self.dom[b.id]:
                    out.append((b.id, s))
        return out

    def natural_loop(self, tail, head):
        body = {head, tail}
        st = [tail]
        while st:
            x = st.pop()
            if x == head:
                continue
            for p in self.blocks[x].pred:
                if p not in body:
                    body.add(p)
                    st.append(p)
        return body

    def loops(self):
        """{head: set(blocks)} merging back edges per head."""
        out = {}
        for t, h in self.back_edges():
            out.setdefault(h, set()).update(self.natural_loop(t, h))
        return out

    def return_nodes(self):
        return [n for n in self.func.walk() if n["k"] == "return"]


def enum_paths(cfg, start_block, stop_blocks, within=None, max_paths=2000):
    """Acyclic paths from the top of start_block until a block in stop_blocks (not
    entered) or the function exit.  Yields (items, end) where items is a list of
    ("ev", node id) / ("br", cond node id, truth) and end is the block reached
    (a stop block id, cfg.exit, or None when the path left `within`)."""
    out = []
    count = [0]

    def rec(bid, items, seen):
        if count[0] >= max_paths:
            raise OverflowError("too many paths")
        b = cfg.blocks[bid]
        items = items + [("blk", bid)] + [("ev", e) for e in b.ev]
        if bid == cfg.exit:
            count[0] += 1
            out.append((items, cfg.exit))
            return
        br = cfg.branch(bid)
        succs = [(k, s) for k, s in enumerate(b.succ) if s is not None]
        if not succs:
            count[0] += 1
            out.append((items, None))
            return
        sw_vals = None
        if b.term and b.term.get("kind") == "switch" and b.term.get("cond"):
            sw_vals = tuple(sorted(cfg.blocks[s_].label["v"] for _k, s_ in succs
                                   if cfg.blocks[s_].label and cfg.blocks[s_].label.get("kind") == "case"
                                   and "v" in cfg.blocks[s_].label))
        for k, s in succs:
            it2 = items
            if br and br[1] != br[2]:
                it2 = items + [("br", br[0], k == 0)]
            elif sw_vals is not None:
                lab = cfg.blocks[s].label
                v_ = lab["v"] if lab and lab.get("kind") == "case" and "v" in lab else None
                # ("sw", condition node, the case value taken or None for default / fall-out, all case values)
                it2 = items + [("sw", b.term["cond"], v_, sw_vals)]
            if s in stop_blocks:
                count[0] += 1
                out.append((it2, s))
                continue
            if within is not None and s not in within and s != cfg.exit:
                count[0] += 1
                out.append((it2, None))
                continue
            if s in seen:
                continue
            rec(s, it2, seen | {s})

    rec(start_block, [], {start_block})
    return out


def paths_to(cfg, start_block, nid, max_paths=5000):
    """Item lists of the acyclic paths from the top of start_block to the event `nid`
    (the events of its block that precede it are included)."""
    p = cfg.pos(nid)
    if p is None:
        return []
    out = []
    tail = [("blk", p[0])] + [("ev", e) for e in cfg.blocks[p[0]].ev[:p[1]]]
    if start_block == p[0]:
        return [tail]
    for items, end in enum_paths(cfg, start_block, {p[0]}, max_paths=max_paths):
        if end == p[0]:
            out.append(items + tail)
    return out
