"""Both-way testing of the rules (thorough tier, DESIGN.md section 7).

Each mutant is a one-place source edit (exact text -> text, must match once) that
breaks one rule instance while still compiling.  The *current* /repo sources are
copied to a scratch directory outside /repo and /verif, the edit is applied, facts are
re-extracted and the named rule must report a violation in the named function.  The
scratch copy is removed immediately.  Nothing is executed.  This is a test of the
checker, not evidence about the repository; its counts go to the evidence file as
mutants_applied / mutants_detected and a missed mutant makes the run ANALYSIS-BROKEN.
"""
import glob
import json
import os
import shutil
import tempfile
from concurrent.futures import ThreadPoolExecutor

from . import facts, report

MUT_DIR = os.path.join(facts.VERIF, "selftest", "mutants")


def load_mutants():
    out = []
    for p in sorted(glob.glob(os.path.join(MUT_DIR, "*.json"))):
        with open(p) as fh:
            for m in json.load(fh):
                out.append(m)
    return out


def scratch_copy(repo):
    d = tempfile.mkdtemp(prefix="nvmut-")
    for pat in ("*.c", "*.h", "Makefile"):
        for p in glob.glob(os.path.join(repo, pat)):
            shutil.copy(p, d)
    return d


def apply_edit(d, m):
    """Returns None when applied, else the reason it does not apply."""
    p = os.path.join(d, m["file"])
    if not os.path.exists(p):
        return "file missing"
    s = open(p, encoding="latin-1").read()
    cnt = s.count(m["find"])
    if cnt != 1:
        return "pattern matches %d times" % cnt
    s = s.replace(m["find"], m["replace"])
    open(p, "w", encoding="latin-1").write(s)
    return None


def run_mutant(m, rules, repo=None):
    """-> (status, detail) status in detected / missed / skipped"""
    d = scratch_copy(repo or facts.REPO)
    try:
        why = apply_edit(d, m)
        if why:
            return "skipped", why
        try:
            prog = facts.load_program(d)
        except facts.AnalysisBroken as e:
            return "skipped", "mutant does not parse: %s" % str(e)[:200]
        ctx = report.Ctx(prog, m.get("prop", "C00"), "thorough")
        ctx.run(m["rule"], rules[m["rule"]])
        hits = [r for r in ctx.results if r.status in ("violation", "known")
                and (not m.get("function") or r.func == m["function"])]
        if hits:
            return "detected", "%s %s: %s" % (hits[0].func, hits[0].construct, hits[0].detail[:160])
        other = [r for r in ctx.results if r.status in ("broken", "inconclusive")]
        if other:
            return "missed", "rule answered %s: %s" % (other[0].status, other[0].detail[:160])
        return "missed", "rule stayed silent"
    finally:
        shutil.rmtree(d, ignore_errors=True)


def seeded_for(prop, rule_ids):
    """Independently written breaking changes kept under /verif/seeded whose last evaluation
    had this property's check report them: (name, patch path, rules that fired)."""
    out = []
    for mp in sorted(glob.glob(os.path.join(facts.VERIF, "seeded", "*", "meta.json"))):
        with open(mp) as fh:
            m = json.load(fh)
        r = (m.get("checks") or {}).get(prop)
        if r and r.get("exit") == 1 and r.get("rules"):
            rs = [x for x in r["rules"] if x in rule_ids]
            if rs:
                out.append((m["name"], os.path.join(os.path.dirname(mp), "patch.diff"), rs))
    return out


def run_seeded(name, patch, rule_list, rules, prop):
    import subprocess
    d = scratch_copy(facts.REPO)
    try:
        r = subprocess.run("patch -p1 -s < %s" % patch, shell=True, cwd=d, capture_output=True, text=True)
        if r.returncode != 0:
            return "skipped", "patch no longer applies"
        try:
            prog = facts.load_program(d)
        except facts.AnalysisBroken as e:
            return "skipped", "does not parse: %s" % str(e)[:120]
        ctx = report.Ctx(prog, prop, "thorough")
        for rid in rule_list:
            ctx.run(rid, rules[rid])
        hits = [x for x in ctx.results if x.status == "violation"]
        if hits:
            return "detected", "%s %s: %s" % (hits[0].rule, hits[0].func, hits[0].construct)
        return "missed", "rules %s stayed silent" % rule_list
    finally:
        shutil.rmtree(d, ignore_errors=True)


def run_for(ctx, prop, rule_ids):
    from .props import all_rules
    rules = all_rules()
    muts = [m for m in load_mutants() if m["rule"] in rule_ids and m["rule"] in rules]
    res = {"detected": [], "missed": [], "skipped": []}
    with ThreadPoolExecutor(max_workers=8) as ex:
        for m, (st, det) in zip(muts, ex.map(lambda mm: run_mutant(mm, rules), muts)):
            res[st].append("%s [%s]: %s" % (m["id"], m["rule"], det))
    seeded = seeded_for(prop, rule_ids)
    sres = {"detected": [], "missed": [], "skipped": []}
    with ThreadPoolExecutor(max_workers=8) as ex:
        for (name, patch, rl), (st, det) in zip(seeded, ex.map(
                lambda t: run_seeded(t[0], t[1], t[2], rules, prop), seeded)):
            sres[st].append("%s: %s" % (name, det))
    for x in res["missed"] + sres["missed"]:
        ctx.rule = "selftest"
        ctx.broken("seeded mutant not detected: " + x)
    return {
        "independent_changes_applied": len(sres["detected"]) + len(sres["missed"]),
        "independent_changes_detected": len(sres["detected"]),
        "independent_change_reports": sres["detected"],
        "mutants_applied": len(res["detected"]) + len(res["missed"]),
        "mutants_detected": len(res["detected"]),
        "mutants_skipped": res["skipped"],
        "mutant_reports": res["detected"][:80],
    }
