"""Property -> rule list, with the text that goes into the evidence."""
import importlib

RULE_MODULES = ["su", "w", "xn", "gv", "r", "lmt", "k", "b", "extra", "extra2", "extra3"]

COMMON_ASSUME = [
    "clang 14's parse, constant evaluation and CFG of each unit are faithful to the C semantics",
    "the build is the one `make -n -B vi stag` prints (19 units, no generated sources)",
    "only the structural clauses named in the explanation are decided, not the behaviour as a whole",
]


def all_rules():
    out = {}
    for m in RULE_MODULES:
        mod = importlib.import_module("nv.rules." + m)
        out.update(mod.RULES)
    return out


def _p(rules, text, notdec):
    return {"rules": rules,
            "explanation": "Static rules over the AST, per-function CFG and whole-program call graph "
                           "of the current /repo tree (nothing is executed). Decided: " + text +
                           " Not decided: " + notdec,
            "assumptions": COMMON_ASSUME}


PROPS = {
    "C01": _p(["W1", "W2", "W3", "W7", "W8", "G1", "G4", "W9", "U6"],
              "linecount, evaluated abstractly, counts an unterminated last line (U6); the save helper applies every buffer accessor to the buffer it was handed, never to the current one (W9); every line of the range is emitted exactly once and counted exactly once on every "
              "acyclic path of lbuf_wr's loop, the loop covers [beg,end), each flush resets the "
              "fill, and fill+len <= sizeof(batch) is proved by the linear prover from the path "
              "guards for all values (W1); a successful return truncates to the counted length "
              "after the last write (W2); short writes resume at the written offset, errors end "
              "the retry loop and are reported (W3); the read loop appends each positive chunk "
              "with its own count, splices only at EOF and reports read errors (W7); the two "
              "parallel line arrays grow and move together (G1).",
              "byte-for-byte equality of read-then-write (needs contents); line re-termination and "
              "sbuf capacity are decided under C05 (B3/B4)."),
    "C02": _p(["W6", "S1", "S2", "S3", "N2", "W3", "W4", "N7", "S8", "W10"],
              "no sign test (`< 0`, `>= 0`) is made on a value of unsigned type, so an error return can be seen (W10); ec_edit marks a buffer saved only after a read that returned 0, on an empty buffer, or on a fresh one (S8, every path from open() to lbuf_saved()); opening a new buffer recycles the slot bufs_findroom() picks only past a clean verdict of bufs_modified() for that very slot or a '!'/xwa bypass, the dirty edge failing the command (N7); the saved mark moves only in lbuf_saved (or to 'always dirty' in lbuf_unsaved), the "
              "dirty test is `seq of undo position != saved seq`, lbuf_saved bumps afterwards (S1); "
              "every top-level command bumps the command counter (S2); in ec_write the saved mark, "
              "mtime and rename happen only after lbuf_save's success edge, for the buffer's own "
              "path, and the mark only for a whole-buffer range, a partial own-path write ends "
              "dirty (W6); quit walks all 16 slots and tests every allocated one unless a/! is "
              "given, xquit is set only in ec_quit after the walk, :b :e :! :make reach their "
              "discarding effects only past bufs_modified(0)==0 or a documented bypass (S3); "
              "failed saves never reach those effects (W4).",
              "that sequence numbers line up across arbitrary undo/redo/save interleavings (the "
              "induction over histories is argued in DESIGN.md from S1+S2, not mechanised)."),
    "C03": _p(["W3", "W4", "W5", "W6", "W8", "W10"],
              "no sign test (`< 0`, `>= 0`) is made on a value of unsigned type, so an error return can be seen (W10); both overwrite guards (newer on disk; exists but foreign) sit on every path to "
              "open() unless force, their comparisons have the right sense for ts in {-1,0,>0}, "
              "callers pair a path with its own timestamp (W5); every open/write/close/lbuf_wr/"
              "lbuf_save/ec_write failure is tested with a test that singles out failure and its "
              "fail edge reaches only failing returns and no saved-state effect (W4, W6); short "
              "writes are retried (W3).",
              "file content after a mid-write fault and that a later retry succeeds (runtime fault "
              "sequences); ftruncate faults are outside the property's quantifier."),
    "C04": _p(["U1", "U2", "U3", "U4", "U5", "S1", "S2", "S4", "G4", "I1", "P2", "U6", "U7"],
              "every field, local and return value that receives the command counter lbuf_modified advances is as wide as the counter, so two commands never share a step number (U7); the recorded number of inserted lines counts an unterminated last line (U6); the undo group after a command line is closed on the buffer that is current afterwards (P2); no splice of the line table without a dominating log entry carrying the same "
              "position/count/text (U1,U2); undo and redo replay dual arguments of what lbuf_opt "
              "recorded, loop over exactly one sequence number, move the cursor the right way and "
              "fail before any splice at the ends of history (U3); a new edit cuts the redo branch "
              "before appending (U4); one sequence number per top-level command and none inside a "
              "line command (S1,S2,S4).",
              "equality of texts along arbitrary undo/redo walks (argued by induction on the log "
              "in DESIGN.md, not mechanised); mark restoration."),
    "C05": _p(["B1", "B2", "B3", "B4", "B5", "B6", "B7", "B9", "B10", "B11", "P1", "N2", "X2", "L2", "L4", "I1", "B12", "B13", "P2", "P3", "X9", "B14", "S7", "B15", "T9", "I2", "Q3"],
              "only the function that reads the terminal lowers the fill count of the input queue, so pushed-back keys cannot postpone real input for ever (Q3); the input queue keeps 0 <= read position <= fill count <= its size at every exit of the functions that store either (I2, assumed by B1 for the push-back copy); every ex_pathexpand result is null-tested before it is dereferenced (B14); stored command text re-enters through ex_command only under a static nesting counter tested against a constant, raised before and lowered after ex_exec (S7); the in-place cut of the history register stays inside its block for hist 1..4 and old texts of 0..4 lines (B15, abstract evaluation with bounds-checked stores); uc_len/uc_code/uc_slen never step or read past the terminator, truncated sequences included, on every string <= 4 bytes of a representative alphabet (T9); no local alias of a block is used after the block was freed in the same function (P3); the pipe written inside cmd_pipe's poll loop is set non-blocking first (X9); every index into the saved-mark arrays of an undo record fits the smallest allocation of that array, loop bounds included (B12); functions handed (buffer, length) pairs keep every store, memcpy and snprintf within the length, given that every call site passes at most the array it owns (B13); no local keeps the current-buffer pointer across a call that can switch or free buffers (P2); the bounded-write clauses named in the anchors, each by a linear proof from the dominating guards (Fourier-Motzkin over the AST's conditions, for all values): writes into fixed arrays at the frozen guard-bounded sites - recording, push-back, repeat, tag stack, auto-indent, vi key stack (B1, guard must be in element units); every strcpy/strcat/sprintf into a fixed array against an interprocedural string-length bound, every snprintf size against its array (B2); every write through a freshly malloc'ed block against the allocation size, incl. line re-termination and the growth copies under the declared struct invariants (B3, I1); the string buffer keeps s_n + written + 1 <= s_sz for allocated and fresh buffers (B4); the 512-byte command gate dominates the three part copies and the copiers write at most one byte per byte read (B5); matcher out-arrays hold 2n ints and the \\\\digit index stays inside (B6); table-bounded loops fit their arrays (B7); every lbuf_get / reg_get result is null-tested, index-proved or given only to null-tolerant callees (B9, B10); the unchecked per-line mark accessors get 0 <= i < lbuf_len (B11); register text is not used across a call that can free it (P1); a successful address resolution is a range inside the buffer (X2); the literal matcher defines all group slots and never looks before the line (L2, L4).",
              "absence of all memory errors (indices that are matcher offsets, permutation values or display columns are named exceptions listed in the evidence notes), termination / bounded time, and the %d-only sprintf calls into the small terminal buffers (width depends on window geometry)."),
    "C06": _p(["X1", "X2", "X3", "X4", "X5", "G3", "U1", "X6", "G7", "X7", "X8", "X9", "X10"],
              "ex_region / ex_lineno read an address list as base plus all signed offsets, the last two addresses, `;` re-basing (X10, abstract evaluation on 18 address strings); the filter pipe is non-blocking before the poll loop that feeds it (X9); a caller that reads the range on ex_region's failure path has initialised it (X8); append splices at (end, end), insert at (beg, beg) and change at (beg, end) of the range ex_region validated, on every path to the splice classified by the command letter it tested (X7); the shift of the numbered registers runs down to the register that receives the new text (G7); a write() that sends `total - done` bytes starts at `buf + done` (X6: the filter pipe resumes a partial write where it stopped); all 14 ex_region call sites test the result and the fail edge reaches only failing "
              "returns with no effect on buffer, registers, marks or current line (address 0 "
              "tolerated only for a/i/c with both bounds 0) (X1); every path of ex_region to "
              "`return 0` establishes 0 <= beg <= end <= $ by the linear prover (X2); handlers "
              "splice only ranges built from the validated pair (X3); a failed search or unset "
              "mark yields a value ex_region rejects and that differs from address 0 (X4); lines "
              "change only through the one logged splice primitive (U1).",
              "equality of resulting text, output and current line with the reference editor."),
    "C07": _p(["V1", "V2", "V6", "T4", "V9"],
              "lbuf_findchar finds the n-th occurrence in the effective direction for f/F/t/T and counts of either sign, t/T stopping one short (V9, abstract evaluation on two lines); no motion entry point (vi_motion, vi_motionln, all of mot.c) reaches a buffer "
              "mutator in the call graph with function-pointer parameters bound per call site "
              "(V2); every iteration of the vi loop passes vi_wfix before the final cursor "
              "placement, vi_wfix leaves the row in [0,max(0,$)] on every path (linear prover) and "
              "re-clamps the column off the terminator, and after a motion xoff is a ren_noeol "
              "value (V1).",
              "where a motion lands (behavioural, over runtime text)."),
    "C09": _p(["V3", "V4", "T4", "B1", "I2", "Q1", "Q2", "V8", "Q4"],
              "term_read appends every key it hands out to the record term_cmd returns, guarded only by the record's own capacity test, never by other program state (Q4); the save of the key record for `.` is guarded only by values of the current loop iteration, never by a static or global (V8); term_push queues every key it is given or reports it to callers that look (Q2, abstract evaluation on a nearly full queue; open finding D42); what term_push leaves to be read is the pushed keys followed by the keys that were waiting, on every queue state evaluated (Q1, abstract evaluation with a modelled queue); the input queue keeps 0 <= read position <= fill count <= its size at every exit of the functions that store either (I2, assumed by B1 for the push-back copy); every case of the vi command switch (and every second key of g) whose calls reach "
              "lbuf_edit without crossing ex_command/undo/redo is a member of the string that "
              "gates the copy into the repeat buffer, and the repeat length is the copied length "
              "(V3).",
              "equality of the repeated and the retyped execution (relational, behavioural); the "
              "bounds of the recording/push-back buffers are decided under C05 (B1)."),
    "C10": _p(["R4", "R5", "R6", "R9", "K4", "R11", "R12", "R13", "R14"],
              "under ignore-case a character matches a bracket range exactly when it or its other case lies in the range as written (R14, abstract evaluation of brk_match); an empty alternative stays an alternative (R9); the set matcher's own group counter agrees with the number of groups the parser builds, on every compiling pattern up to length 4/5 over ( ) [ ] \\\\ ^ : | * a and on all built-in patterns (R13); a parse error never leaves a compiled prefix, a repetition binds to exactly one character, on every pattern up to length 4 (quick) / 5 (thorough) over the metacharacter alphabet with a lead and a continuation byte (R11); the matching state is set afresh for every start position so a failed attempt cannot make a later one fail or report stale groups (R12); greedy / left-biased priority as a property of the fork instruction (a1 tried recursively, state restored from a copy, then a2) and of each of the four places that emit one (a1 -> the sub-pattern that follows, a2 -> after it / deferred / loop-back), alternation emits the left branch first (R4); the scan starts at the subject start, advances one decoded character and returns the first success (R5); each bracket class name denotes exactly the C-locale predicate's ASCII set (R6); every built-in pattern set needs at most NGRPS/2 groups by the repository's own group-count rule, so no alternative's marks are dropped and the reported index can be the matching one (K4).",
              "genuineness of matches, capture spans, completeness within the depth limit (behavioural over runtime strings; the proposed depth-limit counter hook is a runtime device and is not used)."),
    "C17": _p(["K1", "K5", "B3", "T4", "V7"],
              "pos_next / pos_prev return the minimum / maximum of the qualifying columns for every arrangement of up to four columns, probe and cur (V7, abstract evaluation); the three width/bell range tables are sorted, disjoint and lo <= hi (bisection precondition), the shortcut thresholds in uc_isdw/uc_iszw do not exclude listed characters, find() agrees with the tables at every range boundary by abstract evaluation, widths are 0/1/2 (K1); pos[]/off[] allocations cover their writes (B3).",
              "tiling and round-trip laws of the column mapping (behavioural)."),
    "C18": _p(["O1", "O2", "K2", "K3", "B7", "T4", "K6", "O3", "O4", "K5"],
              "in the prefix-sum loop of ren_position_reorder the character whose width advances the column is the one the column is stored for (K5); dir_context gives the documented base direction for td = -2..+2 and four kinds of first character (O4, abstract evaluation with the context patterns modelled); dir_fix reverses the whole match iff the context is right-to-left, the inner group iff the mark is, and recurses iff the mark is nested (O3, one loop iteration over all paths x sign cases); uc_shape hands the form table the nearest non-combining neighbours, none at the ends of the line (K6, abstract evaluation on short lines); the order array is written only by the identity initialisation over [0,n), the guarded terminator fixed point and an element swap whose loop runs while beg < end, and is inverted as off[pos[i]] = i (O1: necessary for `always a permutation`); every shaping form is, per the Unicode database, the isolated/initial/medial/final presentation form of the same letter, the table is strictly increasing for its bisection, and uc_cshape picks medial/final/initial/base by (join_prev, join_next) for every row x 25 neighbour contexts and never alters non-Arabic characters, by abstract evaluation (K2); direction-mark rows reference existing groups that fit subs[], dir/ctx in range (K3); the loops filling the pattern arrays are bounded by table lengths <= array sizes (B7).",
              "that swap ranges stay inside the line (matcher offsets) and the reversal semantics of runs (behavioural)."),
    "C12": _p(["L1", "L2", "L3", "L4", "L5", "T4", "M2", "L6"],
              "every literal-path return of rstr_find is reachable only when the pattern has no compiled set (L6); resumed at an interior offset with the left-context flag, the fast path, the engine started there and the engine on the whole line give the same first match on all lines of length <= 3 (L5); every caller that resumes inside a line passes that flag and the caller working on a copied run does not (M2); the fast path accepts an offset exactly when the engine's own RA_WBEG / RA_WEND atoms accept it, on every line of length <= 3 over {word, '-', blank}, and folds case exactly as the engine's literal atom does on every byte against its 0x20-neighbours (L5); every byte the regex parser treats as an operator (case labels, strchr sets and comparisons of the parser functions) stops the literal classifier's scan, so a pattern with an operator is never a literal (L1); a literal match stores all 2n group slots, groups >= 1 as unset, and the set matcher fills all slots whenever it returns >= 0 (L2); the two word predicates agree on all 255 byte values by abstract evaluation (L3); the word-boundary tests never read before the subject (linear proof at each look-behind read) (L4).",
              "equality of the two matchers' offsets on all lines (behavioural)."),
    "C13": _p(["M2", "M1", "M3", "T4", "M4", "M5"],
              "ex_kwdset stores the direction on every path, with or without a keyword (M5); every place in vi.c that installs a new keyword assigns the remembered line offset before anything reads it (M4: typestate over the CFG and the call graph); the premise `matches are judged against the whole line`: every matcher call on an interior pointer of the line (lbuf_search, ec_substitute, syn_highlight) can carry the left-context flag, both matchers honour it, the copied run in dir_match does not claim it (M2, formerly the known finding D12), and the flags can carry RE_NOTBOL for the resumed scan (M1).",
              "which occurrence is chosen, wrap-around, counts, n/N (behavioural)."),
    "C14": _p(["M1", "T1", "L2", "B6", "T4", "R5", "R9", "T5", "R12", "R11", "T6", "M2", "R13", "S6"],
              "ex_arg, evaluated abstractly, keeps escaped delimiters and `|` inside the substitute argument (S6); the one-character step after a zero-length match is implied by end == start at any offset (T6); the resumed scan passes the left-context flag so word boundaries see the real preceding character (M2); nothing that can store another keyword runs between ec_substitute storing its own pattern and reading it back (T5); group marks are reset for every start position (R12); rescans of the advanced line can carry RE_NOTBOL so a line-start anchor matches only at the true start (M1); after an empty match the scan advances by a decoded character length, never by a constant byte step on line text without ASCII knowledge, so valid UTF-8 stays valid (T1); group references read defined offsets inside offs[32] (L2, B6).",
              "leftmost non-overlapping selection and replacement expansion (behavioural)."),
    "C16": _p(["T1", "T2", "T3", "T4", "R5", "T7", "T8", "T9", "T10"],
              "led_readchar reads exactly the continuation bytes the lead byte announces, for every length class, from the initial state of its buffer (T10, abstract evaluation); the decoders stay inside a string that ends inside a sequence (T9); vi_case rewrites a byte in place only under a test that it is ASCII (T7); led_readchar terminates its static buffer on every path that returns it (T8); the lead-byte length classes, masks and shifts of uc_len/uc_code equal RFC 3629's for all 256 lead bytes x continuation combinations, and the continuation-scanning uc_end agrees with the lead-byte length on well-formed input (T3); the regex engine's private uc_len/uc_dec/uc_beg equal the editor's on all well-formed inputs, by abstract evaluation of both ASTs (T2); no constant byte step is taken on line text without ASCII knowledge (T1).",
              "agreement of the helpers built on next/previous over all strings (that is exhaustive execution); T4 (character counts never used as byte offsets) is not implemented."),
    "C11": _p(["R1", "R10", "R11", "R2", "R3", "R5", "R7", "R8", "B3", "B6", "R12", "R4"],
              "a branch that fails restores the whole matcher state, marks included, so no group offset of an abandoned branch survives (R4); the matching state (program counter, depth, marks, subject pointer) is set afresh inside the scan loop for every start position (R12); the compiled program fits its allocation: rnode_count and rnode_emit/rnode_emitnorep are abstractly evaluated as cost functions (re_insert = 1, children symbolic) for every node kind and every repetition pair that rnode_atom admits (value ranges of the digit accumulation, rejection tests evaluated per cell) and estimate - emitted has only non-negative coefficients; jmpend pushes <= NREPS; regcomp adds its own 3 (R1); the estimate is a bounded quantity: every return of rnode_count is proved <= a constant cap, its arithmetic cannot leave int with children at the cap on every admitted cell, and regcomp allocates and emits only when the estimate is strictly below the cap, i.e. no clamp fired (R10); recursion is depth-guarded and 256 frames fit 1 MiB (R2); the private decoders and the bracket scanner never read or step past the terminator, by exhaustive abstract evaluation over all byte strings up to length 4-5 of a representative alphabet (R3); marks beyond the limit are dropped, reads of marks are index-guarded (R7); pattern allocations are exact (B3) and out-arrays large enough (B6).",
              "termination of matching in general; that offsets fall on character boundaries for literal runs rests on the pattern being valid UTF-8."),
    "C15": _p(["S4", "G1", "G2", "G4", "B11", "T5", "S5", "S2", "G8", "G9"],
              "after each execution the scan resumes at 0 or at most at min(current index, lowest changed line), the latter read from a line-buffer field that lbuf_replace lowers to its position on every path, and an enclosing global gets min(its saved value, the inner one) back (G9); every `1 << level` combined with a line's mark uses a level inside the cell's width: the level is the global nesting counter, whose every increment is dominated by a test against a constant that keeps it there (G8); ex_command's bump is skipped while the global's depth counter is non-zero, so command lists that run registers or scripts stay inside the global's undo step (S4); the same for ec_glob (T5); every name the command table maps to ec_glob gets the same argument split, by abstract evaluation of ex_arg (S5); nothing reachable from a line-command handler or from ex_exec (dispatch edge "
              "excluded) bumps the sequence number, and ec_glob nests through ex_exec (S4: the "
              "whole global is one undo step); the global-mark array is moved, grown and cleared "
              "in lock-step with the line table (G1: marks travel with lines, inserted lines are "
              "unmarked); depth counter and leftover marks are restored on every exit, marking "
              "covers (beg,end), set/get use one bit and get clears it (G2).",
              "the visiting order and once-ness as such (follows from G1+G2, argued not mechanised)."),
    "C20": _p(["N1", "N2", "N3", "N4", "N5", "N6", "S3", "G5", "G6", "P2", "N7"],
              "opening a new buffer recycles the slot bufs_findroom() picks only past a clean verdict of bufs_modified() for that very slot or a '!'/xwa bypass, the dirty edge failing the command (N7); lookups of an open buffer by path or number scan all 16 slots (G5); the counter that hands out buffer numbers only grows, or is reset together with a renumbering of every live buffer (G6); the undo group after a command line is closed on the buffer that is current afterwards, and no local keeps the current-buffer pointer across a call that can switch buffers (P2); only the bufs_* helpers (plus the three named slot-0 stores) write the buffer "
              "table (N1); every bufs_switch argument is proved within [0,15] from interval "
              "summaries of bufs_find/bufs_findroom/bufs_open and dominating tests, block moves "
              "stay inside the table (N2); ec_edit never reaches lbuf_rd after finding the path "
              "open, and reads only into a fresh slot or as a reload (N3); switch = save, rotate "
              "idx to the front, load (N4); saved view fields = restored = initialised (N5); quit "
              "refuses on any dirty slot (S3).",
              "that arbitrary switch sequences preserve each buffer's text (follows from N1+U1, "
              "argued not mechanised)."),
}

NOT_APPLICABLE = {
    "C08": "every clause is a statement about resulting text, cursor and register contents for "
           "runtime regions and counts; no structural necessary condition exists that an "
           "independent static rule could judge (bounded-write side is claimed under C05)",
    "C19": "needs the emitted escape stream interpreted against the buffer contents; no "
           "structural clause constrains what is on screen (a runtime quantity)",
}
