"""Property -> rule list, with the text that goes into the evidence."""
import importlib

RULE_MODULES = ["su", "w", "xn", "gv", "r", "lmt", "k", "b"]

COMMON_ASSUME = [
    "clang 14's parse, constant evaluation and CFG of each unit are faithful to the C semantics",
    "the build is the one `make -n -B vi stag` prints (19 units, no generated sources)",
    "only the structural clauses named in the explanation are decided, not the behaviour as a whole",
]


def all_rules():
    out = {}
    for m in RULE_MODULES:
        mod = importlib.import_module("nv.rules." + m)
        out.update(mod.RULES)
    return out


def _p(rules, text, notdec):
    return {"rules": rules,
            "explanation": "Static rules over the AST, per-function CFG and whole-program call graph "
                           "of the current /repo tree (nothing is executed). Decided: " + text +
                           " Not decided: " + notdec,
            "assumptions": COMMON_ASSUME}


PROPS = {
    "C01": _p(["W1", "W2", "W3", "W7", "G1"],
              "every line of the range is emitted exactly once and counted exactly once on every "
              "acyclic path of lbuf_wr's loop, the loop covers [beg,end), each flush resets the "
              "fill, and fill+len <= sizeof(batch) is proved by the linear prover from the path "
              "guards for all values (W1); a successful return truncates to the counted length "
              "after the last write (W2); short writes resume at the written offset, errors end "
              "the retry loop and are reported (W3); the read loop appends each positive chunk "
              "with its own count, splices only at EOF and reports read errors (W7); the two "
              "parallel line arrays grow and move together (G1).",
              "byte-for-byte equality of read-then-write (needs contents); line re-termination and "
              "sbuf capacity are decided under C05 (B3/B4)."),
    "C02": _p(["W6", "S1", "S2", "S3", "N2", "W4"],
              "the saved mark moves only in lbuf_saved (or to 'always dirty' in lbuf_unsaved), the "
              "dirty test is `seq of undo position != saved seq`, lbuf_saved bumps afterwards (S1); "
              "every top-level command bumps the command counter (S2); in ec_write the saved mark, "
              "mtime and rename happen only after lbuf_save's success edge, for the buffer's own "
              "path, and the mark only for a whole-buffer range, a partial own-path write ends "
              "dirty (W6); quit walks all 16 slots and tests every allocated one unless a/! is "
              "given, xquit is set only in ec_quit after the walk, :b :e :! :make reach their "
              "discarding effects only past bufs_modified(0)==0 or a documented bypass (S3); "
              "failed saves never reach those effects (W4).",
              "that sequence numbers line up across arbitrary undo/redo/save interleavings (the "
              "induction over histories is argued in DESIGN.md from S1+S2, not mechanised)."),
    "C03": _p(["W3", "W4", "W5", "W6"],
              "both overwrite guards (newer on disk; exists but foreign) sit on every path to "
              "open() unless force, their comparisons have the right sense for ts in {-1,0,>0}, "
              "callers pair a path with its own timestamp (W5); every open/write/close/lbuf_wr/"
              "lbuf_save/ec_write failure is tested with a test that singles out failure and its "
              "fail edge reaches only failing returns and no saved-state effect (W4, W6); short "
              "writes are retried (W3).",
              "file content after a mid-write fault and that a later retry succeeds (runtime fault "
              "sequences); ftruncate faults are outside the property's quantifier."),
    "C04": _p(["U1", "U2", "U3", "U4", "S1", "S2", "S4"],
              "no splice of the line table without a dominating log entry carrying the same "
              "position/count/text (U1,U2); undo and redo replay dual arguments of what lbuf_opt "
              "recorded, loop over exactly one sequence number, move the cursor the right way and "
              "fail before any splice at the ends of history (U3); a new edit cuts the redo branch "
              "before appending (U4); one sequence number per top-level command and none inside a "
              "line command (S1,S2,S4).",
              "equality of texts along arbitrary undo/redo walks (argued by induction on the log "
              "in DESIGN.md, not mechanised); mark restoration."),
    "C05": _p(["B1", "B2", "B3", "B4", "B5", "B6", "B9", "B10", "B11", "P1"], "wip.", "wip."),
    "C06": _p(["X1", "X2", "X3", "X4", "U1"],
              "all 14 ex_region call sites test the result and the fail edge reaches only failing "
              "returns with no effect on buffer, registers, marks or current line (address 0 "
              "tolerated only for a/i/c with both bounds 0) (X1); every path of ex_region to "
              "`return 0` establishes 0 <= beg <= end <= $ by the linear prover (X2); handlers "
              "splice only ranges built from the validated pair (X3); a failed search or unset "
              "mark yields a value ex_region rejects and that differs from address 0 (X4); lines "
              "change only through the one logged splice primitive (U1).",
              "equality of resulting text, output and current line with the reference editor."),
    "C07": _p(["V1", "V2"],
              "no motion entry point (vi_motion, vi_motionln, all of mot.c) reaches a buffer "
              "mutator in the call graph with function-pointer parameters bound per call site "
              "(V2); every iteration of the vi loop passes vi_wfix before the final cursor "
              "placement, vi_wfix leaves the row in [0,max(0,$)] on every path (linear prover) and "
              "re-clamps the column off the terminator, and after a motion xoff is a ren_noeol "
              "value (V1).",
              "where a motion lands (behavioural, over runtime text)."),
    "C09": _p(["V3"],
              "every case of the vi command switch (and every second key of g) whose calls reach "
              "lbuf_edit without crossing ex_command/undo/redo is a member of the string that "
              "gates the copy into the repeat buffer, and the repeat length is the copied length "
              "(V3).",
              "equality of the repeated and the retyped execution (relational, behavioural); the "
              "bounds of the recording/push-back buffers are decided under C05 (B1)."),
    "C10": _p(["R4", "R5", "R6", "K4"], "wip.", "wip."),
    "C17": _p(["K1"], "wip.", "wip."),
    "C18": _p(["O1", "K2", "K3", "B7"], "wip.", "wip."),
    "C12": _p(["L1", "L2", "L3", "L4"], "wip.", "wip."),
    "C13": _p(["M2", "M1"], "wip.", "wip."),
    "C14": _p(["M1", "T1", "L2"], "wip.", "wip."),
    "C16": _p(["T1", "T2", "T3"], "wip.", "wip."),
    "C11": _p(["R1", "R2", "R3", "R7"], "wip.", "wip."),
    "C15": _p(["S4", "G1", "G2"],
              "nothing reachable from a line-command handler or from ex_exec (dispatch edge "
              "excluded) bumps the sequence number, and ec_glob nests through ex_exec (S4: the "
              "whole global is one undo step); the global-mark array is moved, grown and cleared "
              "in lock-step with the line table (G1: marks travel with lines, inserted lines are "
              "unmarked); depth counter and leftover marks are restored on every exit, marking "
              "covers (beg,end), set/get use one bit and get clears it (G2).",
              "the visiting order and once-ness as such (follows from G1+G2, argued not mechanised)."),
    "C20": _p(["N1", "N2", "N3", "N4", "N5", "S3"],
              "only the bufs_* helpers (plus the three named slot-0 stores) write the buffer "
              "table (N1); every bufs_switch argument is proved within [0,15] from interval "
              "summaries of bufs_find/bufs_findroom/bufs_open and dominating tests, block moves "
              "stay inside the table (N2); ec_edit never reaches lbuf_rd after finding the path "
              "open, and reads only into a fresh slot or as a reload (N3); switch = save, rotate "
              "idx to the front, load (N4); saved view fields = restored = initialised (N5); quit "
              "refuses on any dirty slot (S3).",
              "that arbitrary switch sequences preserve each buffer's text (follows from N1+U1, "
              "argued not mechanised)."),
}

NOT_APPLICABLE = {
    "C08": "every clause is a statement about resulting text, cursor and register contents for "
           "runtime regions and counts; no structural necessary condition exists that an "
           "independent static rule could judge (bounded-write side is claimed under C05)",
    "C19": "needs the emitted escape stream interpreted against the buffer contents; no "
           "structural clause constrains what is on screen (a runtime quantity)",
}
