"""Property -> rule list, with the text that goes into the evidence."""
import importlib

RULE_MODULES = ["su", "w", "xn"]

COMMON_ASSUME = [
    "clang 14's parse, constant evaluation and CFG of each unit are faithful to the C semantics",
    "the build is the one `make -n -B vi stag` prints (19 units, no generated sources)",
    "only the structural clauses named in the explanation are decided, not the behaviour as a whole",
]


def all_rules():
    out = {}
    for m in RULE_MODULES:
        mod = importlib.import_module("nv.rules." + m)
        out.update(mod.RULES)
    return out


PROPS = {
    "C01": {
        "rules": ["W1", "W2", "W3", "W7"],
        "explanation": "wip",
        "assumptions": COMMON_ASSUME,
    },
    "C02": {
        "rules": ["W6", "S1", "S2", "S3", "N2"],
        "explanation": "wip",
        "assumptions": COMMON_ASSUME,
    },
    "C06": {
        "rules": ["X1", "X2", "X3", "X4", "U1"],
        "explanation": "wip",
        "assumptions": COMMON_ASSUME,
    },
    "C20": {
        "rules": ["N1", "N2", "N3", "N4", "N5", "S3"],
        "explanation": "wip",
        "assumptions": COMMON_ASSUME,
    },
    "C03": {
        "rules": ["W3", "W4", "W5", "W6"],
        "explanation": "wip",
        "assumptions": COMMON_ASSUME,
    },
    "C04": {
        "rules": ["U1", "U2", "U3", "U4", "S1", "S2", "S4"],
        "explanation": (
            "Static rules over the AST/CFG/call graph of the current tree decide the structural "
            "necessary conditions of undo/redo exactness: no splice of the line table without a "
            "dominating log entry carrying the same position/count/text (U1,U2); undo and redo "
            "replay dual arguments of what lbuf_opt recorded, one sequence number per loop, "
            "failing before any splice at the ends of history (U3); a new edit cuts the redo "
            "branch before appending (U4); one sequence number per top-level command and none "
            "inside a line command (S1,S2,S4). Not decided: equality of texts along arbitrary "
            "undo/redo walks (argued from these by induction in DESIGN.md)."),
        "assumptions": COMMON_ASSUME,
    },
}

NOT_APPLICABLE = {
    "C08": "every clause is a statement about resulting text, cursor and register contents for "
           "runtime regions and counts; no structural necessary condition exists that an "
           "independent static rule could judge (bounded-write side is claimed under C05)",
    "C19": "needs the emitted escape stream interpreted against the buffer contents; no "
           "structural clause constrains what is on screen (a runtime quantity)",
}
