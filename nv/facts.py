"""Load facts extracted by tools/nvfacts from /repo's current working tree.

Nothing is cached across runs: every call of load_program() re-derives the
compile database from `make -n -B` (a dry run) and re-parses every unit.
"""
import json
import os
import re
import shlex
import shutil
import subprocess
import sys
import tempfile
from concurrent.futures import ThreadPoolExecutor

VERIF = os.path.dirname(os.path.dirname(os.path.abspath(__file__)))
NVFACTS = os.path.join(VERIF, "tools", "nvfacts")
REPO = os.environ.get("NV_REPO", "/repo")

EXPECTED_UNITS = 19


class AnalysisBroken(Exception):
    """An anchor vanished / a slot cannot be filled / a unit did not parse."""


def compdb(repo):
    """Compile database from a dry run of make: [(file, [flags])]."""
    out = subprocess.run(
        ["make", "-n", "-B", "vi", "stag"], cwd=repo, capture_output=True, text=True
    )
    if out.returncode != 0:
        raise AnalysisBroken("make -n -B vi stag failed: " + out.stderr[-400:])
    units = {}
    for line in out.stdout.splitlines():
        toks = shlex.split(line)
        if not toks or "-c" not in toks:
            continue
        srcs = [t for t in toks[1:] if t.endswith(".c")]
        if len(srcs) != 1:
            continue
        flags = [t for t in toks[1:] if t not in ("-c",) and not t.endswith(".c")]
        # drop -o x
        clean = []
        skip = False
        for t in flags:
            if skip:
                skip = False
                continue
            if t == "-o":
                skip = True
                continue
            clean.append(t)
        units[srcs[0]] = clean
    return sorted(units.items())


_RESDIR = None


def resource_dir():
    global _RESDIR
    if _RESDIR is None:
        _RESDIR = subprocess.run(
            ["clang", "-print-resource-dir"], capture_output=True, text=True
        ).stdout.strip()
    return _RESDIR


def extract(repo, outdir):
    db = compdb(repo)
    if len(db) < EXPECTED_UNITS - 1:
        raise AnalysisBroken("only %d units in the compile database" % len(db))
    if not os.path.exists(NVFACTS):
        raise AnalysisBroken("tools/nvfacts not built (run setup_cmd)")

    def one(item):
        src, flags = item
        out = os.path.join(outdir, src.replace("/", "_") + ".json")
        cmd = [NVFACTS, os.path.join(repo, src), "-o", out, "--"] + flags + [
            "-std=gnu17", "-UNDEBUG", "-w", "-D__NO_CTYPE", "-resource-dir", resource_dir()]
        r = subprocess.run(cmd, capture_output=True, text=True)
        if r.returncode != 0 or not os.path.exists(out):
            raise AnalysisBroken("unit %s failed to parse: %s" % (src, r.stderr[-600:]))
        return src, out

    with ThreadPoolExecutor(max_workers=16) as ex:
        return list(ex.map(one, db))


# ---------------------------------------------------------------------------


def walk(node):
    """All dict nodes of a tree, pre-order."""
    stack = [node]
    while stack:
        n = stack.pop()
        if isinstance(n, dict):
            if "k" in n:
                yield n
                if n["k"] == "sizeof":
                    continue      # operand is not evaluated
            for v in reversed(list(n.values())):
                if isinstance(v, (dict, list)):
                    stack.append(v)
        elif isinstance(n, list):
            for v in reversed(n):
                if isinstance(v, (dict, list)):
                    stack.append(v)


CHILD_KEYS = ("base", "idx", "e", "l", "r", "c", "t", "f", "fnexpr", "args", "of",
              "elems", "body", "init", "inc", "v", "vars")


def children(n):
    for k in CHILD_KEYS:
        v = n.get(k)
        if isinstance(v, dict) and "k" in v:
            yield v
        elif isinstance(v, list):
            for x in v:
                if isinstance(x, dict) and "k" in x:
                    yield x


def key(n, ren=None):
    """Canonical structural key of an expression (no ids, no lines).  `ren` maps
    variable names to placeholders (parameter-normalised comparison)."""
    if ren is not None:
        return _key(n, ren)
    return _key(n, None)


def _key(n, ren):
    key = lambda x: _key(x, ren)
    if n is None:
        return "~"
    k = n["k"]
    if k == "int":
        return str(n["v"])
    if "cv" in n and k not in ("ref",):
        return str(n["cv"])
    if k == "str":
        return json.dumps(n["v"])
    if k == "ref":
        if ren and n["name"] in ren:
            return ren[n["name"]]
        return n["name"]
    if k == "member":
        return key(n["base"]) + ("->" if n["arrow"] else ".") + n["field"]
    if k == "sub":
        return key(n["base"]) + "[" + key(n["idx"]) + "]"
    if k == "un":
        return "(" + n["op"] + key(n["e"]) + ")"
    if k == "bin":
        return "(" + key(n["l"]) + n["op"] + key(n["r"]) + ")"
    if k == "cond":
        return "(" + key(n["c"]) + "?" + key(n["t"]) + ":" + key(n["f"]) + ")"
    if k == "call":
        fn = n.get("fn") or ("(*" + key(n.get("fnexpr")) + ")")
        return fn + "(" + ",".join(key(a) for a in n["args"]) + ")"
    if k == "cast":
        return "(" + n["to"] + ")" + key(n["e"])
    if k == "sizeof":
        return "sizeof(" + (n.get("of_type") or key(n.get("of"))) + ")"
    if k == "var":
        return "var:" + n["name"]
    return k


def cval(n):
    """Constant value of an expression node or None."""
    if n is None:
        return None
    if n["k"] == "int":
        return n["v"]
    return n.get("cv")


class Func:
    def __init__(self, unit, d):
        self.unit = unit
        self.d = d
        self.name = d["name"]
        self.file = d["file"]
        self.static = d["static"]
        self.line = d["line"]
        self.params = d["params"]
        self.body = d["body"]
        self.nodes = {}
        self.parent = {}
        for n in walk(self.body):
            self.nodes[n["id"]] = n
            for c in children(n):
                self.parent[c["id"]] = n["id"]
        self._cfg = None

    @property
    def qname(self):
        return self.file + ":" + self.name

    def walk(self, root=None):
        return walk(root if root is not None else self.body)

    def calls(self, name=None):
        for n in self.walk():
            if n["k"] != "call":
                continue
            if name is None or n.get("fn") == name or (
                    isinstance(name, (tuple, list, set, frozenset)) and n.get("fn") in name):
                yield n

    def ancestors(self, nid):
        while nid in self.parent:
            nid = self.parent[nid]
            yield self.nodes[nid]

    @property
    def cfg(self):
        if self._cfg is None:
            from . import cfg as _cfg
            self._cfg = _cfg.CFG(self)
        return self._cfg

    def loc(self, n):
        return "%s:%s" % (self.file, n.get("ln", "?")) if isinstance(n, dict) else self.file

    def __repr__(self):
        return "<Func %s>" % self.qname


class Program:
    def __init__(self, repo, units):
        self.repo = repo
        self.units = units  # name -> dict
        self.funcs = {}     # qname -> Func
        self.byname = {}    # name -> [Func]
        self.globals = {}   # name -> [global dict (definitions preferred)]
        self.records = {}
        for uname, u in units.items():
            for fd in u["functions"]:
                f = Func(uname, fd)
                # functions defined in headers appear in several units
                if f.qname in self.funcs:
                    continue
                self.funcs[f.qname] = f
                self.byname.setdefault(f.name, []).append(f)
            for g in u["globals"]:
                g = dict(g)
                g["unit"] = uname
                self.globals.setdefault(g["name"], []).append(g)
            for r in u["records"]:
                self.records.setdefault(r["name"], r)
        self._cg = None

    # -- lookup ---------------------------------------------------------------
    def func(self, name, file=None):
        """The function `name` (optionally in `file`).  AnalysisBroken if absent."""
        c = self.byname.get(name, [])
        if file is not None:
            c = [f for f in c if f.file == file]
        if not c:
            raise AnalysisBroken("anchor function %s%s not found" % (
                (file + ":") if file else "", name))
        if len(c) > 1:
            raise AnalysisBroken("anchor function %s is ambiguous: %s" % (
                name, [f.qname for f in c]))
        return c[0]

    def has_func(self, name, file=None):
        c = self.byname.get(name, [])
        if file is not None:
            c = [f for f in c if f.file == file]
        return len(c) > 0

    def resolve(self, caller, name, is_static=False):
        """Resolve a direct callee name seen in `caller` to a Func (or None = libc)."""
        c = self.byname.get(name, [])
        if not c:
            return None
        same = [f for f in c if f.unit == caller.unit and f.file == caller.file]
        if same:
            return same[0]
        same = [f for f in c if f.unit == caller.unit]
        if same:
            return same[0]
        ext = [f for f in c if not f.static]
        if ext:
            return ext[0]
        return None

    def global_def(self, name, file=None):
        c = self.globals.get(name, [])
        if file is not None:
            c = [g for g in c if g["file"] == file]
        defs = [g for g in c if "init" in g]
        if defs:
            return defs[0]
        defs = [g for g in c if not g.get("extern_decl")]
        if defs:
            return defs[0]
        if c:
            return c[0]
        raise AnalysisBroken("anchor global %s not found" % name)

    def record(self, name):
        if name not in self.records:
            raise AnalysisBroken("anchor struct %s not found" % name)
        return self.records[name]

    @property
    def cg(self):
        if self._cg is None:
            from . import callgraph
            self._cg = callgraph.CallGraph(self)
        return self._cg


def load_program(repo=None):
    repo = repo or REPO
    tmp = tempfile.mkdtemp(prefix="nvfacts-", dir=os.environ.get("NV_SCRATCH"))
    try:
        outs = extract(repo, tmp)
        units = {}
        for src, out in outs:
            with open(out) as fh:
                units[src] = json.load(fh)
        prog = Program(repo, units)
        from . import bounds as _b
        _b._PROG[0] = prog
        return prog
    finally:
        shutil.rmtree(tmp, ignore_errors=True)
