"""AST helpers shared by the rule modules."""
from .facts import walk, key, cval, children

ASSIGN_OPS = ("=", "+=", "-=", "*=", "/=", "%=", "|=", "&=", "^=", "<<=", ">>=")
INCDEC = ("pre++", "post++", "pre--", "post--")
CMP_OPS = ("<", "<=", ">", ">=", "==", "!=")


def is_call(n, name=None):
    if n is None or n.get("k") != "call":
        return False
    if name is None:
        return True
    if isinstance(name, (tuple, list, set, frozenset)):
        return n.get("fn") in name
    return n.get("fn") == name


def strip_casts(n):
    while n is not None and n["k"] == "cast":
        n = n["e"]
    return n


def stores(root):
    """Yield (node, lvalue, op, rhs) for every assignment / inc / dec under root."""
    for n in walk(root):
        if n["k"] == "bin" and n["op"] in ASSIGN_OPS:
            yield n, n["l"], n["op"], n["r"]
        elif n["k"] == "un" and n["op"] in INCDEC:
            yield n, n["e"], n["op"], None
        elif n["k"] == "var" and "init" in n:
            yield n, n, "init", n["init"]


def lv_field(lv):
    """(record, field, is_element) if the lvalue designates a struct field or an
    element reached through it (x->f, x.f, x->f[i], *x->f, x->f[i][j])."""
    elem = False
    n = lv
    while n is not None:
        k = n["k"]
        if k == "member":
            return (n.get("rec"), n["field"], elem)
        if k == "sub":
            elem = True
            n = n["base"]
        elif k == "un" and n["op"] == "*":
            elem = True
            n = n["e"]
        elif k == "cast":
            n = n["e"]
        elif k == "bin" and n["op"] in ("+", "-"):
            # *(p->f + i)
            n = n["l"] if n["l"].get("ptr") else n["r"]
        else:
            return None
    return None


def lv_var(lv):
    """(name, cat, is_element) when the lvalue is a variable or an element of it."""
    elem = False
    n = lv
    while n is not None:
        k = n["k"]
        if k == "ref":
            return (n["name"], n["cat"], elem)
        if k == "var":
            return (n["name"], n["cat"], elem)
        if k == "sub":
            elem = True
            n = n["base"]
        elif k == "un" and n["op"] == "*":
            elem = True
            n = n["e"]
        elif k == "member":
            if n["arrow"]:
                elem = True
            n = n["base"]
        elif k == "cast":
            n = n["e"]
        elif k == "bin" and n["op"] in ("+", "-"):
            n = n["l"] if n["l"].get("ptr") else n["r"]
        else:
            return None
    return None


def refs(root, name=None):
    for n in walk(root):
        if n["k"] == "ref" and (name is None or n["name"] == name):
            yield n


def mentions(root, name):
    return any(True for _ in refs(root, name))


def calls_in(root, name=None):
    for n in walk(root):
        if is_call(n, name):
            yield n


def contains(root, nid):
    return any(n["id"] == nid for n in walk(root))


def ret_value(ret):
    """Constant value of a return node (None when not constant / void)."""
    e = ret.get("e")
    if e is None:
        return None
    return cval(e)


def enclosing(func, nid, kinds):
    for a in func.ancestors(nid):
        if a["k"] in kinds:
            return a
    return None


def str_bytes(n):
    """bytes of a string literal node"""
    return bytes(ord(c) for c in n["v"])


def const_str(n):
    n = strip_casts(n)
    if n is not None and n["k"] == "str":
        return n["v"]
    return None


def flatten_and(cond):
    """conjuncts of a && chain"""
    if cond["k"] == "bin" and cond["op"] == "&&":
        return flatten_and(cond["l"]) + flatten_and(cond["r"])
    return [cond]


def flatten_or(cond):
    if cond["k"] == "bin" and cond["op"] == "||":
        return flatten_or(cond["l"]) + flatten_or(cond["r"])
    return [cond]


def negate_truth(cond, truth):
    """Peel !: returns (inner cond, truth)"""
    while cond["k"] == "un" and cond["op"] == "!":
        cond = cond["e"]
        truth = not truth
    return cond, truth


def fact_list(func, nid):
    """Dominating branch facts at a node as [(cond node, truth)] with ! peeled."""
    out = []
    for cid, truth in func.cfg.facts_at(nid):
        c = func.nodes.get(cid)
        if c is None:
            continue
        c, truth = negate_truth(c, truth)
        out.append((c, truth))
    return out
