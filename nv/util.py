"""AST helpers shared by the rule modules."""
from .facts import walk, key, cval, children

ASSIGN_OPS = ("=", "+=", "-=", "*=", "/=", "%=", "|=", "&=", "^=", "<<=", ">>=")
INCDEC = ("pre++", "post++", "pre--", "post--")
CMP_OPS = ("<", "<=", ">", ">=", "==", "!=")


def is_call(n, name=None):
    if n is None or n.get("k") != "call":
        return False
    if name is None:
        return True
    if isinstance(name, (tuple, list, set, frozenset)):
        return n.get("fn") in name
    return n.get("fn") == name


def strip_casts(n):
    while n is not None and n["k"] == "cast":
        n = n["e"]
    return n


def stores(root):
    """Yield (node, lvalue, op, rhs) for every assignment / inc / dec under root."""
    for n in walk(root):
        if n["k"] == "bin" and n["op"] in ASSIGN_OPS:
            yield n, n["l"], n["op"], n["r"]
        elif n["k"] == "un" and n["op"] in INCDEC:
            yield n, n["e"], n["op"], None
        elif n["k"] == "var" and "init" in n:
            yield n, n, "init", n["init"]


def lv_field(lv):
    """(record, field, is_element) if the lvalue designates a struct field or an
    element reached through it (x->f, x.f, x->f[i], *x->f, x->f[i][j])."""
    elem = False
    n = lv
    while n is not None:
        k = n["k"]
        if k == "member":
            return (n.get("rec"), n["field"], elem)
        if k == "sub":
            elem = True
            n = n["base"]
        elif k == "un" and n["op"] == "*":
            elem = True
            n = n["e"]
        elif k == "cast":
            n = n["e"]
        elif k == "bin" and n["op"] in ("+", "-"):
            # *(p->f + i)
            n = n["l"] if n["l"].get("ptr") else n["r"]
        else:
            return None
    return None


def lv_var(lv):
    """(name, cat, is_element) when the lvalue is a variable or an element of it."""
    elem = False
    n = lv
    while n is not None:
        k = n["k"]
        if k == "ref":
            return (n["name"], n["cat"], elem)
        if k == "var":
            return (n["name"], n["cat"], elem)
        if k == "sub":
            elem = True
            n = n["base"]
        elif k == "un" and n["op"] == "*":
            elem = True
            n = n["e"]
        elif k == "member":
            if n["arrow"]:
                elem = True
            n = n["base"]
        elif k == "cast":
            n = n["e"]
        elif k == "bin" and n["op"] in ("+", "-"):
            n = n["l"] if n["l"].get("ptr") else n["r"]
        else:
            return None
    return None


def refs(root, name=None):
    for n in walk(root):
        if n["k"] == "ref" and (name is None or n["name"] == name):
            yield n


def mentions(root, name):
    return any(True for _ in refs(root, name))


def calls_in(root, name=None):
    for n in walk(root):
        if is_call(n, name):
            yield n


def contains(root, nid):
    return any(n["id"] == nid for n in walk(root))


def ret_value(ret):
    """Constant value of a return node (None when not constant / void)."""
    e = ret.get("e")
    if e is None:
        return None
    return cval(e)


def enclosing(func, nid, kinds):
    for a in func.ancestors(nid):
        if a["k"] in kinds:
            return a
    return None


def str_bytes(n):
    """bytes of a string literal node"""
    return bytes(ord(c) for c in n["v"])


def const_str(n):
    n = strip_casts(n)
    if n is not None and n["k"] == "str":
        return n["v"]
    return None


def flatten_and(cond):
    """conjuncts of a && chain"""
    if cond["k"] == "bin" and cond["op"] == "&&":
        return flatten_and(cond["l"]) + flatten_and(cond["r"])
    return [cond]


def flatten_or(cond):
    if cond["k"] == "bin" and cond["op"] == "||":
        return flatten_or(cond["l"]) + flatten_or(cond["r"])
    return [cond]


def negate_truth(cond, truth):
    """Peel !: returns (inner cond, truth)"""
    while cond["k"] == "un" and cond["op"] == "!":
        cond = cond["e"]
        truth = not truth
    return cond, truth


def fact_list(func, nid):
    """Dominating branch facts at a node as [(cond node, truth)] with ! peeled."""
    out = []
    for cid, truth in func.cfg.facts_at(nid):
        c = func.nodes.get(cid)
        if c is None:
            continue
        c, truth = negate_truth(c, truth)
        out.append((c, truth))
    return out


# ---- path feasibility: prune paths that take one pure condition both ways --------------
PURE_CALLS = {"strcmp", "strncmp", "strlen", "strchr", "strrchr", "strstr", "isdigit", "isalpha",
              "isspace", "islower", "isupper", "isalnum", "atoi", "memcmp",
              "ex_path", "ex_lbuf", "ex_filetype", "lbuf_len", "lbuf_get", "uc_len", "uc_code",
              "uc_slen", "uc_chr", "uc_off", "term_rows", "term_cols"}


def is_pure(cond):
    for n in walk(cond):
        if n["k"] == "bin" and n["op"] in ASSIGN_OPS:
            return False
        if n["k"] == "un" and n["op"] in INCDEC:
            return False
        if n["k"] == "call" and n.get("fn") not in PURE_CALLS:
            return False
    return True


def _reads_globals(cond):
    for n in walk(cond):
        if n["k"] == "call":
            return True
        if n["k"] == "ref" and n["cat"] in ("global", "slocal"):
            return True
    return False


def path_consistent(func, items):
    """False when the path evaluates the same pure condition to both truth values with
    nothing in between that could change it (heuristic: direct stores to the variables
    it mentions; for conditions that read globals or call repository functions, any
    store to a global/field or any call to a function outside PURE_CALLS)."""
    seen = {}   # key -> (truth, index)
    for i, it in enumerate(items):
        if it[0] != "br":
            continue
        c = func.nodes.get(it[1])
        if c is None or not is_pure(c):
            continue
        c0, t0 = negate_truth(c, it[2])
        k = key(c0)
        if k in seen and seen[k][0] != t0:
            j = seen[k][1]
            names = {r["name"] for r in refs(c0)}
            rg = _reads_globals(c0)
            changed = False
            for jt in items[j + 1:i]:
                if jt[0] != "ev":
                    continue
                n = func.nodes.get(jt[1])
                if n is None:
                    continue
                if (n["k"] == "bin" and n["op"] in ASSIGN_OPS) or (n["k"] == "un" and n["op"] in INCDEC):
                    lv = n["l"] if n["k"] == "bin" else n["e"]
                    v = lv_var(lv)
                    if v and v[0] in names:
                        changed = True
                    if rg and (lv_field(lv) or (v and v[1] in ("global", "slocal"))):
                        changed = True
                elif n["k"] == "call" and rg and n.get("fn") not in PURE_CALLS:
                    # a repository call may store globals; libc calls that do not take the
                    # mentioned variables by address are harmless
                    changed = True
                elif n["k"] == "call":
                    for a in n["args"]:
                        if a["k"] == "un" and a["op"] == "&" and lv_var(a["e"]) and \
                                lv_var(a["e"])[0] in names:
                            changed = True
            if not changed:
                return False
        seen[k] = (t0, i)
    return True


def resolve_local(func, e, depth=0):
    """Replace a reference to a local that has exactly one assignment (its initialiser or a
    single `=`) by the assigned expression (helps shape rules survive `tmp = expr; use(tmp)`)."""
    e = strip_casts(e)
    if e is None or depth > 3 or e["k"] != "ref" or e.get("cat") not in ("local",):
        return e
    srcs = [rhs for n, lv, op, rhs in stores(func.body)
            if lv["k"] in ("ref", "var") and lv.get("name") == e["name"]]
    if len(srcs) == 1 and srcs[0] is not None:
        return resolve_local(func, srcs[0], depth + 1)
    return e


def nullness(c, truth):
    """(expression node, is_null) when the condition with that truth value says a pointer-like
    expression is NULL / zero or not: handles x, !x, x == NULL, x != NULL, x == 0."""
    c, t = negate_truth(c, truth)
    if c["k"] == "bin" and c["op"] in ("==", "!="):
        r = strip_casts(c["r"])
        l = strip_casts(c["l"])
        isz = lambda n: n is not None and ((n["k"] == "int" and n["v"] == 0) or n.get("cv") == 0)
        if isz(r):
            return l, (t == (c["op"] == "=="))
        if isz(l):
            return r, (t == (c["op"] == "=="))
        return None
    if c["k"] in ("ref", "member", "sub", "call", "un"):
        return c, (not t)
    return None
