"""Whole-program call graph with structural resolution of indirect calls.

 * direct callees through the resolved FunctionDecl;
 * a call through a record field of a constant table (`excmds[i].ec(...)`) targets
   exactly the functions in that column of the table's initialiser;
 * a call through a function-pointer *parameter* is bound per call site to the actual
   argument (null, a function, or the caller's own bound parameter); such callees are
   cloned per binding;
 * anything else is recorded as unresolved and makes reachability queries that meet it
   raise AnalysisBroken.
"""
from collections import deque

from .facts import AnalysisBroken, walk


def is_null(a):
    while a is not None and a["k"] == "cast":
        a = a["e"]
    return a is not None and ((a["k"] == "int" and a["v"] == 0) or a.get("cv") == 0)


def _is_fnptr_type(ty):
    return "(*)" in ty


class CallGraph:
    def __init__(self, prog):
        self.prog = prog
        self._edges = {}
        self.unresolved = []

    # node = (qname, binding) with binding = tuple(sorted((param, target qname or None)))
    def node(self, func, binding=()):
        return (func.qname, tuple(sorted(binding)))

    def table_column(self, table_name, field):
        g = self.prog.global_def(table_name)
        init = g.get("init")
        out = set()
        if not init:
            return out
        # find the record of the element type and the field index
        ety = g.get("arr_elem", "")
        rec = ety.replace("struct ", "").strip()
        r = self.prog.records.get(rec)
        if not r:
            raise AnalysisBroken("table %s: element record %s unknown" % (table_name, rec))
        idx = [i for i, f in enumerate(r["fields"]) if f["name"] == field]
        if not idx:
            raise AnalysisBroken("table %s: no field %s" % (table_name, field))
        idx = idx[0]
        for row in init.get("elems", []):
            if row["k"] != "init":
                continue
            el = row["elems"]
            if idx < len(el) and el[idx]["k"] == "ref" and el[idx]["cat"] == "func":
                out.add(el[idx]["name"])
        return out

    def edges(self, node):
        """[(callee node, call AST node)] for a call-graph node."""
        if node in self._edges:
            return self._edges[node]
        qn, binding = node
        f = self.prog.funcs[qn]
        bmap = dict(binding)
        out = []
        for c in f.calls():
            if c.get("fn"):
                callee = self.prog.resolve(f, c["fn"])
                if callee is None:
                    continue
                nb = []
                for p, a in zip(callee.params, c["args"]):
                    if not _is_fnptr_type(p["ty"]):
                        continue
                    tgt = None
                    if a["k"] == "ref" and a["cat"] == "func":
                        t = self.prog.resolve(f, a["name"])
                        tgt = t.qname if t else None
                    elif a["k"] == "ref" and a["cat"] == "param" and a["name"] in bmap:
                        tgt = bmap[a["name"]]
                    elif is_null(a):
                        tgt = None
                    else:
                        self.unresolved.append((f.qname, c))
                        tgt = "?"
                    nb.append((p["name"], tgt))
                out.append(((callee.qname, tuple(sorted(nb))), c))
            else:
                fe = c.get("fnexpr")
                tgts = None
                if fe and fe["k"] == "un" and fe["op"] == "*":
                    fe = fe["e"]
                while fe and fe["k"] == "cast":
                    fe = fe["e"]
                if fe and fe["k"] == "ref" and fe.get("cat") == "local":
                    # a local that holds a table column: every value it is ever assigned
                    srcs = []
                    for n_ in f.walk():
                        if n_["k"] == "var" and n_["name"] == fe["name"] and n_.get("init") is not None:
                            srcs.append(n_["init"])
                        if n_["k"] == "bin" and n_["op"] == "=" and n_["l"]["k"] == "ref" and n_["l"]["name"] == fe["name"]:
                            srcs.append(n_["r"])
                    allt = []
                    okl = bool(srcs)
                    for src in srcs:
                        while src["k"] == "cast":
                            src = src["e"]
                        if src["k"] == "ref" and src["cat"] == "func":
                            t = self.prog.resolve(f, src["name"])
                            if t:
                                allt.append(t.qname)
                        elif src["k"] == "member":
                            base = src["base"]
                            while base["k"] in ("sub", "un", "member"):
                                base = base.get("base") or base.get("e")
                            if base["k"] == "ref" and base["cat"] == "global":
                                for nm in sorted(self.table_column(base["name"], src["field"])):
                                    t = self.prog.resolve(f, nm)
                                    if t:
                                        allt.append(t.qname)
                            else:
                                okl = False
                        elif is_null(src):
                            pass
                        else:
                            okl = False
                    if okl:
                        tgts = sorted(set(allt))
                if tgts is not None:
                    pass
                elif fe and fe["k"] == "ref" and fe["cat"] == "param":
                    if fe["name"] in bmap:
                        t = bmap[fe["name"]]
                        tgts = [] if t is None else [t]
                        if t == "?":
                            tgts = None
                    else:
                        # unbound: an entry point of the analysis; conservatively all
                        # functions ever passed for that parameter
                        tgts = self._all_bindings(f, fe["name"])
                elif fe and fe["k"] == "member":
                    base = fe["base"]
                    while base["k"] in ("sub", "un", "member", "cast"):
                        base = base.get("base") or base.get("e")
                    if base["k"] == "ref" and base.get("cat") == "local":
                        # a local pointer into a table: &T[i] / T + i
                        tabs = set()
                        okl = True
                        for n_ in f.walk():
                            src = None
                            if n_["k"] == "var" and n_["name"] == base["name"] and n_.get("init") is not None:
                                src = n_["init"]
                            if n_["k"] == "bin" and n_["op"] == "=" and n_["l"]["k"] == "ref" and \
                                    n_["l"]["name"] == base["name"]:
                                src = n_["r"]
                            if src is None:
                                continue
                            if is_null(src):
                                continue
                            b2 = src
                            while b2["k"] in ("sub", "un", "member", "cast") or (b2["k"] == "bin" and b2["op"] == "+"):
                                b2 = b2.get("base") or b2.get("e") or b2.get("l")
                            if b2["k"] == "ref" and b2["cat"] == "global":
                                tabs.add(b2["name"])
                            else:
                                okl = False
                        if okl and len(tabs) == 1:
                            base = {"k": "ref", "cat": "global", "name": next(iter(tabs))}
                    if base["k"] == "ref" and base["cat"] == "global":
                        names = self.table_column(base["name"], fe["field"])
                        tgts = []
                        for nm in sorted(names):
                            t = self.prog.resolve(f, nm)
                            if t:
                                tgts.append(t.qname)
                if tgts is None:
                    self.unresolved.append((f.qname, c))
                    out.append((("?", ()), c))
                    continue
                for t in tgts:
                    tf = self.prog.funcs[t]
                    out.append(((tf.qname, ()), c))
        self._edges[node] = out
        return out

    def _all_bindings(self, func, pname):
        res = set()
        pidx = [i for i, p in enumerate(func.params) if p["name"] == pname]
        if not pidx:
            return []
        pidx = pidx[0]
        for g in self.prog.funcs.values():
            for c in g.calls(func.name):
                if pidx < len(c["args"]):
                    a = c["args"][pidx]
                    if a["k"] == "ref" and a["cat"] == "func":
                        t = self.prog.resolve(g, a["name"])
                        if t:
                            res.add(t.qname)
        return sorted(res)

    def closure(self, starts, stop=(), edge_ok=None):
        """Reachable call-graph nodes from start functions.  `stop` = function names
        that are not entered (the edge to them is still recorded as reached-name).
        Returns (set of function names reached incl. stop names, parent map by name)."""
        reached = {}
        dq = deque()
        for s in starts:
            n = self.node(s) if not isinstance(s, tuple) else s
            dq.append(n)
            reached.setdefault(self.prog.funcs[n[0]].name, None)
        seen = set(dq)
        while dq:
            n = dq.popleft()
            f = self.prog.funcs[n[0]]
            for (cn, call) in self.edges(n):
                if cn[0] == "?":
                    raise AnalysisBroken("unresolved indirect call in %s line %s" % (
                        f.qname, call.get("ln")))
                if edge_ok and not edge_ok(f, call, cn):
                    continue
                cf = self.prog.funcs[cn[0]]
                if cf.name not in reached:
                    reached[cf.name] = (f.name, call.get("ln"))
                if cf.name in stop:
                    continue
                if cn not in seen:
                    seen.add(cn)
                    dq.append(cn)
        return reached

    def path(self, reached, name):
        out = [name]
        while reached.get(out[-1]):
            out.append(reached[out[-1]][0])
        return list(reversed(out))

    def reaches(self, start, targets, stop=(), edge_ok=None):
        """First of `targets` (function names) reachable from Func `start`, with the
        call path, else None."""
        r = self.closure([start], stop=stop, edge_ok=edge_ok)
        for t in targets:
            if t in r and t != start.name:
                return t, self.path(r, t)
            if t == start.name and r.get(t):
                return t, self.path(r, t)
        return None
