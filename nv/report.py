"""Rule results, known findings, evidence files, exit codes."""
import json
import os
import time

from .facts import AnalysisBroken, VERIF

KNOWN_PATH = os.path.join(VERIF, "known_findings.json")


def load_known():
    if not os.path.exists(KNOWN_PATH):
        return []
    with open(KNOWN_PATH) as fh:
        return json.load(fh)["findings"]


class Result:
    __slots__ = ("rule", "status", "func", "construct", "detail", "loc")

    def __init__(self, rule, status, func, construct, detail, loc):
        self.rule = rule
        self.status = status
        self.func = func
        self.construct = construct
        self.detail = detail
        self.loc = loc

    def as_dict(self):
        return {"rule": self.rule, "status": self.status, "function": self.func,
                "construct": self.construct, "detail": self.detail, "loc": self.loc}


class Ctx:
    """Collects rule instances for one property check."""

    def __init__(self, prog, prop, tier):
        self.prog = prog
        self.prop = prop
        self.tier = tier
        self.results = []
        self.rule = None
        self.floors = {}
        self.known = load_known()
        self.notes = []

    # -- reporting API used by rules ---------------------------------------------
    def begin(self, rule, floor=1, what=""):
        self.rule = rule
        self.floors[rule] = (floor, what)

    def ok(self, func, construct, detail="", loc=""):
        self.results.append(Result(self.rule, "ok", func, construct, detail, loc))

    def violation(self, func, construct, detail, loc=""):
        st = "violation"
        for k in self.known:
            if k.get("status") != "open":
                continue
            if k["rule"] == self.rule and k["function"] == func and k["construct"] == construct:
                st = "known"
        self.results.append(Result(self.rule, st, func, construct, detail, loc))

    def inconclusive(self, func, construct, detail, loc=""):
        self.results.append(Result(self.rule, "inconclusive", func, construct, detail, loc))

    def broken(self, detail, func="", construct=""):
        self.results.append(Result(self.rule, "broken", func, construct, detail, ""))

    def note(self, text):
        self.notes.append("%s: %s" % (self.rule, text))

    def run(self, rule_id, fn):
        self.rule = rule_id
        n0 = len(self.results)
        try:
            fn(self)
        except AnalysisBroken as e:
            self.rule = rule_id
            self.broken(str(e))
        except (KeyError, IndexError, TypeError, AttributeError, ValueError) as e:
            import traceback
            self.rule = rule_id
            self.broken("rule crashed: %r %s" % (e, traceback.format_exc()[-800:]))
        # floor
        floor, what = self.floors.get(rule_id, (1, ""))
        cnt = sum(1 for r in self.results[n0:] if r.status in ("ok", "violation", "known"))
        has_broken = any(r.status == "broken" for r in self.results[n0:])
        if cnt < floor and not has_broken:
            self.rule = rule_id
            self.broken("only %d instances, floor is %d (%s)" % (cnt, floor, what))

    # -- finishing -----------------------------------------------------------------
    def finish(self, t0, explanation, assumptions, extra=None):
        viol = [r for r in self.results if r.status == "violation"]
        known = [r for r in self.results if r.status == "known"]
        bad = [r for r in self.results if r.status in ("broken", "inconclusive")]
        oks = [r for r in self.results if r.status == "ok"]
        per_rule = {}
        for r in self.results:
            d = per_rule.setdefault(r.rule, {"ok": 0, "violation": 0, "known": 0,
                                             "broken": 0, "inconclusive": 0, "instances": []})
            d[r.status] += 1
            if len(d["instances"]) < 60:
                d["instances"].append(
                    "%s %s: %s%s" % (r.status, r.func, r.construct,
                                     (" -- " + r.detail) if r.detail and r.status != "ok" else ""))
        samples = []
        seen_rules = set()
        for r in self.results:
            if r.rule not in seen_rules and r.status == "ok":
                seen_rules.add(r.rule)
                samples.append({"rule": r.rule, "function": r.func, "construct": r.construct,
                                "detail": r.detail, "loc": r.loc, "verdict": "ok"})
        for r in viol + known:
            samples.append(dict(r.as_dict(), verdict=r.status))
        funcs = sorted({r.func for r in self.results if r.func})
        ev = {
            "property_id": self.prop,
            "tier": self.tier,
            "seed": int(os.environ.get("VERIF_SEED", "0") or 0),
            "level": "other",
            "coverage": {
                "explanation": explanation,
                "obligations": len(self.results),
                "discharged": len(oks),
                "known_findings": len(known),
                "undecided": len(bad),
                "units": len(self.prog.units) if self.prog else 0,
                "functions_in_program": len(self.prog.funcs) if self.prog else 0,
                "functions_with_instances": funcs,
                "rule_instances": per_rule,
                "samples": samples[:40],
                "checker_cmd": "./check %s --tier %s" % (self.prop, self.tier),
                "trusted_base": [
                    "clang 14 front end, constant evaluator and CFG builder (tools/nvfacts.cc)",
                    "rule modules under nv/rules and the accepted-idiom tables inside them",
                    "the rule -> property argument written in DESIGN.md section 4",
                ],
                "notes": self.notes,
            },
            "assumptions": assumptions,
            "wall_s": round(time.time() - t0, 3),
            "violations": len(viol),
        }
        if extra:
            ev["coverage"].update(extra)
        evdir = os.environ.get("NV_EVIDENCE_DIR") or os.path.join(VERIF, "evidence")
        os.makedirs(evdir, exist_ok=True)
        path = os.path.join(evdir, self.prop + ".json")
        with open(path, "w") as fh:
            json.dump(ev, fh, indent=1)
            fh.write("\n")
        # lines
        for r in known:
            print("KNOWN-FINDING: property=%s rule=%s %s %s -- %s" % (
                self.prop, r.rule, r.func, r.construct, r.detail))
        if bad:
            for r in bad:
                print("ANALYSIS-BROKEN property=%s rule=%s %s %s %s: %s" % (
                    self.prop, r.rule, r.status, r.func, r.construct, r.detail))
        if viol:
            vp = os.path.join(evdir, self.prop + ".violation.txt")
            with open(vp, "w") as fh:
                for r in viol:
                    fh.write("rule=%s function=%s construct=%s loc=%s\n  %s\n" % (
                        r.rule, r.func, r.construct, r.loc, r.detail))
            for r in viol:
                print("  violation rule=%s %s [%s] %s: %s" % (r.rule, r.func, r.loc, r.construct, r.detail))
            print("VIOLATION property=%s replay=%s" % (self.prop, vp))
            return 1
        else:
            vp = os.path.join(evdir, self.prop + ".violation.txt")
            if os.path.exists(vp):
                os.remove(vp)
        if bad:
            return 2
        print("OK property=%s tier=%s rules=%d instances=%d discharged=%d known=%d" % (
            self.prop, self.tier, len(per_rule), len(self.results), len(oks), len(known)))
        return 0
