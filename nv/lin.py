"""Linear-arithmetic normaliser and a tiny prover (Fourier-Motzkin over the rationals).

Expressions are normalised to  sum(c_i * atom_i) + c_0  over opaque atoms (variables,
`strlen(x)`, field loads, ...).  Hypotheses come from branch conditions.  A goal e <= f is
  PROVEN   if  hyps and (e >= f + 1) is infeasible (sound for the integers: the rational
           relaxation being empty implies the integer set is empty),
  REFUTED  if  hyps is feasible and  hyps and (e <= f)  is infeasible,
  CEX      if  hyps and (e >= f + 1) is feasible (a rational counter-model exists),
No SMT solver and no program execution is involved.
"""
from fractions import Fraction

from .facts import key, cval

PROVEN, REFUTED, CEX = "PROVEN", "REFUTED", "CEX"


class Lin:
    __slots__ = ("c", "k")

    def __init__(self, c=None, k=0):
        self.c = dict(c or {})
        self.k = Fraction(k)

    def __add__(self, o):
        r = Lin(self.c, self.k + o.k)
        for a, v in o.c.items():
            r.c[a] = r.c.get(a, 0) + v
            if r.c[a] == 0:
                del r.c[a]
        return r

    def scale(self, s):
        if s == 0:
            return Lin()
        return Lin({a: v * s for a, v in self.c.items()}, self.k * s)

    def __sub__(self, o):
        return self + o.scale(-1)

    def is_const(self):
        return not self.c

    def __repr__(self):
        parts = ["%s*%s" % (v, a) for a, v in sorted(self.c.items())]
        parts.append(str(self.k))
        return " + ".join(parts)


import threading as _threading


class _ThreadCell:
    """a one-slot list whose content is per thread (the thorough tier analyses several scratch
    copies concurrently)"""
    def __init__(self):
        self._l = _threading.local()

    def __getitem__(self, i):
        return getattr(self._l, "v", None)

    def __setitem__(self, i, v):
        self._l.v = v


_COND_RES = _ThreadCell()


def linearize(e, subst=None, ren=None):
    """Lin or None.  subst: {var name: Lin} applied to variable refs.  When _COND_RES[0] is a
    dict {condition node id: truth}, ?: sub-expressions with a known condition are resolved."""
    if e is None:
        return None
    if e["k"] == "cond" and _COND_RES[0]:
        c = e["c"]
        while c["k"] == "cast":
            c = c["e"]
        t = _COND_RES[0].get(c["id"])
        if t is not None:
            return linearize(e["t"] if t else e["f"], subst, ren)
    v = cval(e)
    if v is not None and e["k"] != "ref":
        return Lin(k=v)
    k = e["k"]
    if k == "ref":
        if v is not None and e["cat"] == "enum":
            return Lin(k=v)
        if subst and e["name"] in subst:
            return subst[e["name"]]
        return Lin({e["name"]: 1})
    if k == "cast":
        return linearize(e["e"], subst, ren)
    if k == "paren":
        return linearize(e["e"], subst, ren)
    if k == "bin":
        op = e["op"]
        if op == "=" and e["l"]["k"] == "ref":
            # the value of an assignment is the new value of its target (the store is applied
            # before the enclosing expression is looked at)
            if subst and e["l"]["name"] in subst:
                return subst[e["l"]["name"]]
            return linearize(e["r"], subst, ren)
        if op in ("+", "-"):
            a, b = linearize(e["l"], subst, ren), linearize(e["r"], subst, ren)
            if a is None or b is None:
                return None
            return a + b if op == "+" else a - b
        if op == "*":
            a, b = linearize(e["l"], subst, ren), linearize(e["r"], subst, ren)
            if a is None or b is None:
                return None
            if a.is_const():
                return b.scale(a.k)
            if b.is_const():
                return a.scale(b.k)
            return Lin({key(e, ren): 1})
        if op == "/":
            a, b = linearize(e["l"], subst, ren), linearize(e["r"], subst, ren)
            if a is not None and b is not None and b.is_const() and b.k != 0 and a.is_const():
                return Lin(k=int(a.k / b.k))
            return Lin({key(e, ren): 1})
        return Lin({key(e, ren): 1})
    if k == "un" and e["op"] == "&" and e["e"]["k"] == "sub":
        # &a[i] is a + i (pointer arithmetic in elements, as C's own a + i and p - q are)
        b_, i_ = e["e"]["base"], e["e"]["idx"]
        while b_["k"] == "cast":
            b_ = b_["e"]
        if b_["k"] == "ref":
            a = linearize(b_, subst, ren)
            i = linearize(i_, subst, ren)
            if a is not None and i is not None:
                return a + i
    if k == "un" and e["op"] == "-":
        a = linearize(e["e"], subst, ren)
        return a.scale(-1) if a is not None else None
    if k == "un" and e["op"] == "+":
        return linearize(e["e"], subst, ren)
    if k == "cond":
        # MIN / MAX are handled by the callers that know them; opaque here
        return Lin({key(e, ren): 1})
    if k in ("member", "sub", "call", "un", "sizeof"):
        kk = key(e, ren)
        if subst and kk in subst:
            return subst[kk]
        return Lin({kk: 1})
    return None


# a constraint is a Lin L meaning  L >= 0


def _impure(e):
    """contains ++/--/assignment: its value is not a stable atom"""
    from .facts import walk
    for n in walk(e):
        if n["k"] == "un" and n["op"] in ("post++", "pre++", "post--", "pre--"):
            return True
        if n["k"] == "bin" and n["op"] in ("=", "+=", "-=", "*=", "/=", "|=", "&=", "^=", "<<=", ">>=", "%="):
            return True
    return False


def cmp_constraints(cond, truth, subst=None, ren=None):
    """Constraints (list of Lin >= 0) implied by `cond` having the given truth, or []
    when nothing linear follows (e.g. a disequality)."""
    if cond["k"] == "bin" and cond["op"] in ("<", "<=", ">", ">=", "==", "!="):
        # `(v = E) op X`: the comparison is about v's new value (the store has been applied)
        def _asg(e):
            x = e
            while x["k"] in ("cast", "paren"):
                x = x["e"]
            if x["k"] == "bin" and x["op"] == "=" and x["l"]["k"] == "ref" and not _impure(x["r"]):
                return x["l"]
            return e
        l2, r2 = _asg(cond["l"]), _asg(cond["r"])
        if l2 is not cond["l"] or r2 is not cond["r"]:
            cond = dict(cond, l=l2, r=r2)
    if _impure(cond):
        return []
    if cond["k"] == "un" and cond["op"] == "!":
        return cmp_constraints(cond["e"], not truth, subst, ren)
    if cond["k"] == "bin" and cond["op"] in ("<", "<=", ">", ">=", "==", "!="):
        a, b = linearize(cond["l"], subst, ren), linearize(cond["r"], subst, ren)
        if a is None or b is None:
            return []
        op = cond["op"]
        if not truth:
            op = {"<": ">=", "<=": ">", ">": "<=", ">=": "<", "==": "!=", "!=": "=="}[op]
        # an int converted to unsigned long for the comparison: when the smaller side is such an
        # int, it is non-negative unless the other side is negative as a signed number
        uns = []
        if op in ("<", "<=", ">", ">="):
            lo_e, lo_l, hi_l = (cond["l"], a, b) if op in ("<", "<=") else (cond["r"], b, a)
            if lo_e.get("ty") == "int" and str(lo_e.get("cty", "")).startswith("unsigned long") and not lo_l.is_const():
                uns = [("or", [lo_l], [hi_l.scale(-1) - Lin(k=1)])]
            hi_e = cond["r"] if op in ("<", "<=") else cond["l"]
            if hi_e.get("ty") == "int" and str(hi_e.get("cty", "")).startswith("unsigned long") and not hi_l.is_const():
                # the larger side is such an int: it is larger as written, or it is negative
                main = (hi_l - lo_l - Lin(k=1)) if op in ("<", ">") else (hi_l - lo_l)
                return [("or", [main], [hi_l.scale(-1) - Lin(k=1)])] + uns
        if op == "<":
            return [b - a - Lin(k=1)] + uns
        if op == "<=":
            return [b - a] + uns
        if op == ">":
            return [a - b - Lin(k=1)] + uns
        if op == ">=":
            return [a - b] + uns
        if op == "==":
            return [a - b, b - a]
        if op == "!=":
            return [("ne", a - b)]
        return []
    if cond["k"] == "bin" and cond["op"] == "&&" and truth:
        return cmp_constraints(cond["l"], True, subst, ren) + cmp_constraints(cond["r"], True, subst, ren)
    if cond["k"] == "bin" and cond["op"] == "||" and not truth:
        return cmp_constraints(cond["l"], False, subst, ren) + cmp_constraints(cond["r"], False, subst, ren)
    # a bare value used as a condition: v != 0 -- nothing linear unless known non-negative
    a = linearize(cond, subst, ren)
    if a is not None and not truth:
        return [a, a.scale(-1)]  # v == 0
    if a is not None and truth and cond["k"] in ("ref", "call", "member", "sub", "un", "bin"):
        return [("ne", a)]       # v != 0
    return []


def _tighten(l):
    """integer tightening of  sum c_i x_i + k >= 0  (all atoms are integers): when the
    coefficients are integers with gcd g > 1, k may be lowered to the next multiple of g"""
    from math import gcd, floor
    if not l.c:
        return l
    g = 0
    for v in l.c.values():
        if v.denominator != 1 if hasattr(v, "denominator") else False:
            return l
        g = gcd(g, abs(int(v)))
    if g <= 1:
        return l
    k = l.k
    kk = Fraction(floor(k / g) * g)
    if kk == k:
        return l
    return Lin(l.c, kk)


def feasible(cons):
    """Fourier-Motzkin: is the conjunction of  L >= 0  (and integer disequalities
    ("ne", L): L != 0, split into L >= 1 or L <= -1) satisfiable over the rationals?"""
    ors = [c for c in cons if isinstance(c, tuple) and c and c[0] == "or"]
    if ors:
        rest = [c for c in cons if not (isinstance(c, tuple) and c and c[0] == "or")]
        if len(ors) > 3:
            return feasible(rest)        # ignore them (weaker hypotheses: still sound)
        first, more = ors[0], ors[1:]
        return feasible(rest + more + list(first[1])) or feasible(rest + more + list(first[2]))
    nes = [c for c in cons if isinstance(c, tuple)]
    if nes:
        rest = [c for c in cons if not isinstance(c, tuple)]
        ne, others = nes[0][1], nes[1:]
        if len(nes) > 6:
            others = []      # ignore further disequalities (weaker hypotheses: still sound)
        return feasible(rest + others + [ne - Lin(k=1)]) or \
            feasible(rest + others + [ne.scale(-1) - Lin(k=1)])
    cons = [_tighten(Lin(c.c, c.k)) for c in cons]
    atoms = set()
    for c in cons:
        atoms.update(c.c)
    for a in sorted(atoms):
        pos, neg, rest = [], [], []
        for c in cons:
            v = c.c.get(a, 0)
            if v > 0:
                pos.append(c)
            elif v < 0:
                neg.append(c)
            else:
                rest.append(c)
        new = rest
        for p in pos:
            for n in neg:
                # p: vp*a + P >= 0 ; n: vn*a + N >= 0 (vn<0)  =>  (-vn)*P + vp*N >= 0
                vp, vn = p.c[a], n.c[a]
                comb = p.scale(-vn) + n.scale(vp)
                comb.c.pop(a, None)
                new.append(comb)
        cons = new
        if len(cons) > 4000:
            return True  # give up: treat as feasible (never proves anything wrongly)
    for c in cons:
        if c.is_const() and c.k < 0:
            return False
    return True


def prove_le(e, f, hyps):
    """e, f: Lin.  hyps: list of Lin >= 0.  Returns PROVEN / REFUTED / CEX."""
    neg_goal = e - f - Lin(k=1)        # e >= f + 1
    if not feasible(hyps + [neg_goal]):
        return PROVEN
    goal = f - e                       # e <= f
    if feasible(hyps) and not feasible(hyps + [goal]):
        return REFUTED
    return CEX


def prove_lt(e, f, hyps):
    return prove_le(e + Lin(k=1), f, hyps)
