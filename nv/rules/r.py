"""R — the regex compiler and matcher (DESIGN.md 3.6)."""
import itertools

from ..absint import Interp, Ptr, OverRead, Unsupported, OPAQUE
from ..facts import AnalysisBroken, walk, key, cval
from ..lin import Lin
from ..util import (stores, lv_field, lv_var, is_call, calls_in, refs, mentions,
                    strip_casts, negate_truth, flatten_and, flatten_or)


class NodeRef:
    truthy = True

    def __init__(self, name):
        self.name = name


def _patch_truth():
    # NodeRef counts as a non-null pointer
    orig = Interp.truth

    def truth(self, v):
        if isinstance(v, NodeRef):
            return True
        return orig(self, v)
    Interp.truth = truth


_patch_truth()


def _rn_kinds(prog):
    kinds = set()
    for fn in ("rnode_count", "rnode_emitnorep"):
        f = prog.func(fn, file="regex.c")
        for n in f.walk():
            if n["k"] == "bin" and n["op"] == "==" and n["l"]["k"] == "member" and n["l"]["field"] == "rn":
                v = cval(n["r"])
                if v is not None:
                    kinds.add(v)
    return sorted(kinds)


def _count_cost(prog, rn, mn, mx):
    f = prog.func("rnode_count", file="regex.c")

    def h_count(ip, fn, e, args, env):
        a = args[0]
        if isinstance(a, NodeRef) and a.name in ("c1", "c2"):
            return Lin({a.name: 1})
        raise Unsupported("rnode_count on %r" % (a,))
    ip = Interp(prog, hooks={"rnode_count": h_count}, sym_cap=4096,
                fields={"rn": rn, "mincnt": mn, "maxcnt": mx, "c1": NodeRef("c1"), "c2": NodeRef("c2")})
    v = ip.call(f, [NodeRef("n")])
    if isinstance(v, int):
        v = Lin(k=v)
    if not isinstance(v, Lin):
        raise Unsupported("rnode_count returned %r" % (v,))
    return v


def _emit_cost(prog, rn, mn, mx):
    f = prog.func("rnode_emit", file="regex.c")

    def h_insert(ip, fn, e, args, env):
        ip.cost = ip.cost + Lin(k=1)
        return OPAQUE

    def h_emit(ip, fn, e, args, env):
        a = args[0]
        if isinstance(a, NodeRef) and a.name in ("c1", "c2"):
            ip.cost = ip.cost + Lin({a.name: 1})
            return None
        raise Unsupported("rnode_emit on %r" % (a,))

    def h_nop(ip, fn, e, args, env):
        return None
    ip = Interp(prog, hooks={"re_insert": h_insert, "rnode_emit": h_emit, "ratom_copy": h_nop},
                fields={"rn": rn, "mincnt": mn, "maxcnt": mx, "c1": NodeRef("c1"), "c2": NodeRef("c2"),
                        "grp": 1, "n": OPAQUE},
                summarize_loops=True)
    ip.call(f, [NodeRef("n"), NodeRef("p")])
    pushes = ip.counters.get("jmpend", -1) + 1
    # the push index variable (jmpend[X++]) holds the exact count after loop summarisation
    for n in f.walk():
        if n["k"] == "sub" and n["base"]["k"] == "ref" and n["base"]["name"] == "jmpend" and \
                n["idx"]["k"] == "un" and n["idx"]["e"]["k"] == "ref":
            v = ip.last_env.get(n["idx"]["e"]["name"])
            if isinstance(v, int):
                pushes = max(pushes, v)
    return ip.cost, pushes


_R1_CTX = None


import threading
ASSIGN_OPS = ("=", "+=", "-=", "*=", "/=", "%=", "|=", "&=", "^=", "<<=", ">>=")
_R1_LOCK = threading.Lock()


def _typed_forms(vals):
    """pattern strings that exercise the repetition syntax: (pattern bytes, description)"""
    out = [b"a", b"a*", b"a+", b"a?"]
    pos = [v for v in vals if v >= 0]
    for m in pos:
        out.append(b"a{%d}" % m)
        out.append(b"a{%d,}" % m)
        for n in pos:
            out.append(b"a{%d,%d}" % (m, n))
    # digit strings that overflow an int accumulator
    for big in (2147483647, 2147483648, 4294967291, 4294967296 + 3, 99999999999, 10 ** 19 + 5):
        out += [b"a{%d}" % big, b"a{1,%d}" % big, b"a{%d,}" % big, b"a{%d,2}" % big]
    return out


def _admit_chunk(args):
    prog, pats = args if len(args) == 2 else (_R11_PROG, args[0])
    cells = {}
    for pat in pats:
        try:
            r, rest, err = _parse_probe(prog, pat)
        except OverRead:
            continue
        except Unsupported as e:
            return "parser not evaluable on %r: %s" % (pat, e)
        if not isinstance(r, dict) or rest != len(pat) or err:
            continue
        mn, mx = r.get("mincnt"), r.get("maxcnt")
        if not isinstance(mn, int) or not isinstance(mx, int):
            return "parser leaves a non-integer count on %r" % pat
        cells.setdefault((mn, mx), pat)
    return cells


def admitted_cells(prog, vals):
    """(min, max) pairs the parser produces and accepts, with a pattern that yields each.  The
    parser itself is evaluated (abstractly) on every typed form, so its rejection tests may be
    spelled, split or moved into helpers freely."""
    global _R11_PROG
    pats = _typed_forms(vals)
    results = []
    if len(pats) > 3000:
        import multiprocessing as mp
        chunks = [pats[i::32] for i in range(32)]
        with _R1_LOCK:
            _R11_PROG = prog
            try:
                with mp.get_context("fork").Pool(min(16, mp.cpu_count())) as pool:
                    results = pool.map(_admit_chunk, [(c,) for c in chunks])
            except (OSError, ValueError):
                results = [_admit_chunk((prog, c)) for c in chunks]
    else:
        results = [_admit_chunk((prog, pats))]
    cells = {}
    for r in results:
        if isinstance(r, str):
            raise AnalysisBroken(r)
        for k_, v_ in r.items():
            cells.setdefault(k_, v_)
    return cells


def _r1_cells(args):
    """cost comparison on a list of admitted cells"""
    cl, ctxt = args if len(args) == 2 else (args[0], _R1_CTX)
    prog, kinds, NREPS = ctxt
    cells = 0
    bad = {}
    jm_bad = None
    for mn, mx in cl:
        for rn in kinds:
            cells += 1
            try:
                C = _count_cost(prog, rn, mn, mx)
                E, pushes = _emit_cost(prog, rn, mn, mx)
            except Unsupported as e:
                return "cost extraction failed at rn=%s min=%d max=%d: %s" % (rn, mn, mx, e)
            D = C - E
            neg = [a for a, v in D.c.items() if v < 0]
            if neg or D.k < 0:
                kind = "negative count" if mn < 0 else ("inverted bounds" if 0 <= mx < mn else "other")
                bad.setdefault(kind, (rn, mn, mx, C, E))
            if pushes > NREPS and jm_bad is None:
                jm_bad = (rn, mn, mx, pushes)
    return cells, bad, jm_bad



def _regcomp_builder(prog):
    """(function that allocates and emits the program, the call in regcomp that enters it or
    None when it is regcomp itself)"""
    rc = prog.func("regcomp", file="regex.c")
    if any(True for _ in rc.calls("rnode_emit")):
        return rc, None
    for c in rc.calls():
        g = prog.resolve(rc, c["fn"]) if c.get("fn") else None
        if g is not None and g.file == rc.file and any(True for _ in g.calls("rnode_emit")):
            return g, c
    raise AnalysisBroken("regcomp: no call of rnode_emit (nor of a helper that emits)")



def rule_R1(ctx):
    ctx.begin("R1", floor=3, what="(kind, min, max) cells of estimate vs emitter")
    prog = ctx.prog
    kinds = _rn_kinds(prog)
    if len(kinds) != 4:
        raise AnalysisBroken("expected 4 node kinds compared with ->rn, found %s" % kinds)
    NREPS = None
    emit = prog.func("rnode_emit", file="regex.c")
    for n in emit.walk():
        if n["k"] == "var" and n["name"] == "jmpend":
            NREPS = n.get("arr_n")
    if NREPS is None:
        raise AnalysisBroken("rnode_emit: jmpend array not found")
    full = ctx.tier == "thorough"
    if full:
        vals = list(range(0, NREPS + 3))
    else:
        vals = list(range(0, 13)) + list(range(NREPS // 2 - 2, NREPS // 2 + 3)) + list(range(NREPS - 4, NREPS + 3))
    # the admitted domain: what the parser, evaluated on every typed repetition form (and on
    # digit strings that overflow), produces and accepts
    adm = admitted_cells(prog, vals)
    if len(adm) < 20:
        raise AnalysisBroken("only %d admitted (min, max) pairs" % len(adm))
    cl = sorted(adm)
    global _R1_CTX
    ctxt = (prog, kinds, NREPS)
    results = []
    if full and len(cl) > 200:
        import multiprocessing as mp
        chunks = [cl[i::32] for i in range(32)]
        with _R1_LOCK:          # the forked workers read the tuple from this module global
            _R1_CTX = ctxt
            try:
                with mp.get_context("fork").Pool(min(16, mp.cpu_count())) as pool:
                    results = pool.map(_r1_cells, [(c,) for c in chunks])
            except (OSError, ValueError):
                results = [_r1_cells((c, ctxt)) for c in chunks]
    else:
        results = [_r1_cells((cl, ctxt))]
    cells = 0
    bad = {}
    jm_bad = None
    for res in results:
        if isinstance(res, str):
            raise AnalysisBroken(res)
        c_, b_, j_ = res
        cells += c_
        for k_, v_ in b_.items():
            bad.setdefault(k_, v_)
        if j_ and jm_bad is None:
            jm_bad = j_
    sh = lambda b_: adm.get((b_[1], b_[2]), b"?").decode("latin-1")
    for kind, (rn, mn, mx, C, E) in sorted(bad.items()):
        construct = {"negative count": "estimate covers the emitter: negative repetition count admitted",
                     "inverted bounds": "estimate covers the emitter: inverted bounds {m,n} with n < m admitted",
                     "other": "estimate covers the emitter"}[kind]
        ctx.violation("rnode_count", construct,
                      "the pattern %s is accepted with {%d,%d}; for node kind %r rnode_count gives %r but "
                      "rnode_emit inserts %r instructions: the program overflows its allocation" % (
                          sh((rn, mn, mx)), mn, mx, chr(rn) if rn else "atom", C, E))
    if not bad:
        for rn in kinds:
            ctx.ok("rnode_count", "kind %r: estimate >= emitted instructions on %d admitted "
                   "(min,max) pairs (%s grid of typed forms, parser evaluated per form)" % (
                       chr(rn) if rn else "atom", len(adm), "full" if full else "reduced"))
    if jm_bad:
        ctx.violation("rnode_emit", "jmpend pushes fit",
                      "the pattern %s is accepted with {%d,%d}; kind %r pushes %d entries onto jmpend[%d]" % (
                          sh(jm_bad), jm_bad[1], jm_bad[2], jm_bad[0], jm_bad[3], NREPS))
    else:
        ctx.ok("rnode_emit", "jmpend pushes <= %d on every admitted pair" % NREPS)
    neg = sorted(c_ for c_ in adm if c_[0] < 0 or c_[1] < -1)
    big = sorted(c_ for c_ in adm if c_[0] > NREPS or c_[1] > NREPS)
    if neg and not bad:
        ctx.violation("rnode_atom", "repetition count cannot be negative",
                      "the pattern %s is accepted with the counts {%d,%d}: the digits are accumulated "
                      "without bound and wrap" % (adm[neg[0]].decode("latin-1"), neg[0][0], neg[0][1]))
    if big and not jm_bad and not bad:
        ctx.violation("rnode_atom", "repetition bound",
                      "the pattern %s is accepted with {%d,%d}, above the limit %d: jmpend[%d] and the "
                      "unrolling are unbounded" % (adm[big[0]].decode("latin-1"), big[0][0], big[0][1], NREPS, NREPS))
    # regcomp adds its own instructions
    rc = prog.func("regcomp", file="regex.c")
    bld, bcall = _regcomp_builder(prog)
    def inserts(g, depth=0):
        """instructions that g appends itself: re_insert calls, also through small helpers"""
        k_ = 0
        for c_ in g.calls():
            if c_.get("fn") == "re_insert":
                k_ += 1
            elif c_.get("fn") and c_["fn"] != "rnode_emit" and depth < 2:
                h_ = prog.resolve(g, c_["fn"])
                if h_ is not None and h_.file == g.file and h_ is not g and h_ is not rc and h_ is not bld and \
                        not any(x["k"] in ("while", "for", "do") for x in h_.walk()):
                    k_ += inserts(h_, depth + 1)
        return k_
    own = inserts(rc) + (inserts(bld) if bld is not rc else 0)
    extra = None
    nvar = None
    for n, lv, op, rhs in stores(rc.body):
        if op in ("=", "init") and rhs is not None and lv["k"] in ("ref", "var") and any(
                is_call(c, "rnode_count") for c in calls_in(rhs)):
            l = strip_casts(rhs)
            if l["k"] == "bin" and l["op"] == "+":
                extra = cval(l["r"]) if cval(l["r"]) is not None else cval(l["l"])
            elif is_call(l, "rnode_count"):
                extra = 0
            nvar = lv["name"]
    if extra is None:
        raise AnalysisBroken("regcomp: n = rnode_count(...) + K not found")
    if extra >= own:
        ctx.ok("regcomp", "allocation adds %d for its own %d instructions" % (extra, own))
    else:
        ctx.violation("regcomp", "allocation covers regcomp's own instructions",
                      "regcomp inserts %d instructions itself but adds only %d to the estimate" % (own, extra))
    # the allocation uses that count (in the builder: the parameter bound to it)
    cnt_name = nvar
    if bcall is not None:
        cnt_name = None
        for p_, a_ in zip(bld.params, bcall["args"]):
            if key(strip_casts(a_)) == nvar:
                cnt_name = p_["name"]
    ok_alloc = False
    allocs = [(bld, cnt_name)]
    for c in rc.calls():
        h_ = prog.resolve(rc, c["fn"]) if c.get("fn") else None
        if h_ is not None and h_.file == rc.file and h_ is not bld and any(True for _ in h_.calls("malloc")):
            for p_, a_ in zip(h_.params, c["args"]):
                if key(strip_casts(a_)) == nvar:
                    allocs.append((h_, p_["name"]))
    for g_, nm_ in allocs:
        for c in g_.calls("malloc"):
            a0 = strip_casts(c["args"][0])
            if nm_ and a0["k"] == "bin" and a0["op"] == "*" and any(r_["name"] == nm_ for r_ in refs(a0)):
                ok_alloc = True
    if ok_alloc:
        ctx.ok(bld.name, "program allocated with the estimate")
    else:
        ctx.violation(bld.name, "program allocated with the estimate",
                      "no malloc(n * sizeof(instruction)) with the estimate %s" % (nvar,))


def rule_R2(ctx):
    ctx.begin("R2", floor=2, what="recursion depth guard")
    prog = ctx.prog
    f = prog.func("re_rec", file="regex.c")
    cfg = f.cfg
    # the recursion: direct calls, or calls of a helper of the file that calls re_rec back
    recs = list(f.calls("re_rec"))
    for c in f.calls():
        g = prog.resolve(f, c["fn"]) if c.get("fn") else None
        if g is not None and g is not f and g.file == f.file and prog.cg.reaches(g, ["re_rec"], stop=set()):
            recs.append(c)
    if not recs:
        raise AnalysisBroken("re_rec is not recursive any more")
    guard = None
    for b in cfg.blocks.values():
        br = cfg.branch(b.id)
        if not br:
            continue
        c = f.nodes.get(br[0])
        if c is not None and c["k"] == "bin" and c["op"] in (">=", ">") and \
                c["l"]["k"] == "member" and c["l"]["field"] == "dep" and cval(c["r"]) is not None:
            guard = (b, c)
    if guard is None:
        ctx.violation("re_rec", "depth guard", "no test of rs->dep against a constant limit")
        return
    b, c = guard
    limit = cval(c["r"]) + (1 if c["op"] == ">" else 0)
    incs = [n for n, lv, op, rhs in stores(f.body)
            if lv["k"] == "member" and lv["field"] == "dep" and op in ("post++", "pre++", "+=")]
    for r in recs:
        if cfg.edge_dominates(b.id, 1, cfg.pos(r)[0]) and any(cfg.dominates(i, r) for i in incs):
            ctx.ok("re_rec", "recursive call behind dep < %d and dep++" % limit, loc=f.loc(r))
        else:
            ctx.violation("re_rec", "depth guard dominates the recursion",
                          "the recursive call is not dominated by the depth test's false edge "
                          "and the increment", f.loc(r))
    # true edge returns failure
    seen = cfg.reachable_blocks(b.succ[0])
    if any(cfg.pos(r)[0] in seen for r in recs):
        ctx.violation("re_rec", "depth guard", "recursion reachable after the limit is hit", f.loc(c))
    size = prog.record("rstate")["size"]
    if limit * size <= (1 << 20):
        ctx.ok("re_rec", "%d frames x %d bytes of saved state <= 1 MiB" % (limit, size))
    else:
        ctx.violation("re_rec", "stack use", "%d x %d bytes exceeds 1 MiB" % (limit, size))


ALPHABET = [0x00, 0x41, 0x5d, 0x80, 0xbf, 0xc3, 0xe2, 0xf0, 0xf8, 0xff]


def rule_R3(ctx):
    ctx.begin("R3", floor=3, what="NUL-safe private decoders on pattern bytes")
    prog = ctx.prog
    ul = prog.func("uc_len", file="regex.c")
    ud = prog.func("uc_dec", file="regex.c")
    # every string of up to 4 bytes over the alphabet, then the terminator
    n_eval = 0
    bad_len = bad_rd = None
    for L in range(0, 5):
        for combo in itertools.product(ALPHABET[1:], repeat=L):
            buf = tuple(combo) + (0,)
            n_eval += 1
            for fn in (ul, ud):
                ip = Interp(prog)
                p = Ptr(buf)
                try:
                    v = ip.call(fn, [p])
                except OverRead as e:
                    if bad_rd is None:
                        bad_rd = (fn.name, buf, str(e))
                    continue
                except Unsupported as e:
                    raise AnalysisBroken("%s not evaluable: %s" % (fn.name, e))
                if fn is ul:
                    if not isinstance(v, int) or v > L or v < 0 or (L > 0 and v == 0):
                        if bad_len is None:
                            bad_len = (buf, v)
    show = lambda b: "".join("\\x%02x" % x for x in b[:-1])
    if bad_len:
        ctx.violation("uc_len", "decoded length stays inside the string",
                      "regex.c:uc_len(\"%s\") = %s but the string has %d bytes before its "
                      "terminator: `p += uc_len(p)` on a pattern skips the terminator" % (
                          show(bad_len[0]), bad_len[1], len(bad_len[0]) - 1), ul.loc(ul.body))
    else:
        ctx.ok("uc_len", "0 < uc_len(s) <= strlen(s) for %d strings" % n_eval)
    if bad_rd:
        ctx.violation(bad_rd[0], "decoder reads stay inside the string",
                      "regex.c:%s(\"%s\"): %s" % (bad_rd[0], show(bad_rd[1]), bad_rd[2]))
    else:
        ctx.ok("uc_len/uc_dec", "no read past the terminator for %d strings" % n_eval)
    # sites: advances on pattern pointers use uc_len / reads use uc_dec
    n_sites = 0
    for fname in ("brk_match", "ratom_read", "ratom_match"):
        f = prog.func(fname, file="regex.c")
        for n, lv, op, rhs in stores(f.body):
            if op == "+=" and rhs is not None and lv.get("ptr") and lv["k"] in ("ref", "member"):
                r = strip_casts(rhs)
                if is_call(r, "uc_len") or is_call(r, "brk_len"):
                    n_sites += 1
                    ctx.ok(fname, "advance by %s" % key(r), loc=f.loc(n))
                elif cval(r) is not None and cval(r) > 0 and lv["k"] == "ref" and lv["cat"] != "param":
                    # constant step on a pattern pointer: must be dominated by a non-NUL test
                    pass
    if n_sites < 4:
        ctx.broken("only %d decoder-driven advances found" % n_sites)
    # brk_len never passes the terminator: every s[n] read at n>=1 follows a test of s[n']
    bl = prog.func("brk_len", file="regex.c")
    bad = None
    cnt = 0
    for L in range(1, 6):
        for combo in itertools.product([0x5b, 0x5d, 0x5e, 0x3a, 0x3d, 0x61], repeat=L):
            buf = tuple(combo) + (0,)
            if buf[0] != 0x5b:
                continue
            cnt += 1
            ip = Interp(prog)
            try:
                v = ip.call(bl, [Ptr(buf)])
            except OverRead as e:
                bad = (buf, str(e))
                break
            except Unsupported as e:
                raise AnalysisBroken("brk_len not evaluable: %s" % e)
            if not isinstance(v, int) or v > L or v < 1:
                bad = (buf, "returns %s for a %d-byte string" % (v, L))
                break
        if bad:
            break
    if bad:
        ctx.violation("brk_len", "bracket scanner stops at the terminator",
                      "brk_len(\"%s\"): %s" % ("".join(chr(x) for x in bad[0][:-1]), bad[1]))
    else:
        ctx.ok("brk_len", "1 <= brk_len(s) <= strlen(s), no over-read, for %d bracket strings" % cnt)


def rule_R7(ctx):
    """Every access to the mark array of the matching state, in any function of regex.c, has
    0 <= index < LEN(mark) proved on every path to it (path prover: guards, loop tests, flag
    locals, `?:` arms)."""
    ctx.begin("R7", floor=2, what="accesses to the mark array of the matching state")
    from ..bounds import path_states
    from ..lin import prove_le, PROVEN, linearize, cmp_constraints
    from .. import lin as _lin
    prog = ctx.prog
    rs = prog.record("rstate")
    N = [x for x in rs["fields"] if x["name"] == "mark"][0]["arr_n"]
    n = 0
    for f in prog.funcs.values():
        if f.file != "regex.c":
            continue
        for x in f.walk():
            if x["k"] != "sub" or strip_casts(x["base"])["k"] != "member" or strip_casts(x["base"])["field"] != "mark":
                continue
            lf = lv_field(x)
            if not lf or lf[0] != "rstate":
                continue
            n += 1
            # the event to stand at: the subscript itself, or the statement that holds it
            tgt = x
            if f.cfg.pos(tgt) is None:
                for anc in f.ancestors(x["id"]):
                    if f.cfg.pos(anc) is not None:
                        tgt = anc
                        break
            try:
                sts = path_states(f, tgt["id"], max_paths=3000)
            except OverflowError:
                ctx.inconclusive(f.name, "mark access bounded", "too many paths", f.loc(x))
                continue
            bad = und = None
            for subst, hyps, items in sts:
                byid = {f.nodes[y[1]]["id"]: y[2] for y in items if y[0] == "br"}
                # inside a `?:` arm the arm's condition holds
                extra = []
                cur = x
                for anc in f.ancestors(x["id"]):
                    if anc["k"] == "cond":
                        if any(z["id"] == cur["id"] for z in walk(anc["t"])):
                            extra += cmp_constraints(anc["c"], True, subst)
                        elif any(z["id"] == cur["id"] for z in walk(anc["f"])):
                            extra += cmp_constraints(anc["c"], False, subst)
                    cur = anc
                idx = subst["__linfn__"](strip_casts(x["idx"]))
                if idx is None:
                    und = "index not linear"
                    continue
                hy = hyps + extra
                a = prove_le(Lin(k=0), idx, hy + [Lin({a_: 1}) for a_ in idx.c if a_.isidentifier()
                                                  and False])
                b = prove_le(idx + Lin(k=1), Lin(k=N), hy)
                if b != PROVEN:
                    if "__havoc__" in subst or "__callhavoc__" in subst:
                        und = b
                    else:
                        bad = (b, items)
            if bad:
                ctx.violation(f.name, "mark access bounded",
                              "rs->mark[%s] (of %d) is accessed without the index being shown < %d (%s)" % (
                                  key(x["idx"]), N, N, bad[0]), f.loc(x))
            elif und:
                ctx.inconclusive(f.name, "mark access bounded", "rs->mark[%s]: %s" % (key(x["idx"]), und), f.loc(x))
            elif sts:
                ctx.ok(f.name, "rs->mark[%s] < %d on all %d paths" % (key(x["idx"]), N, len(sts)), loc=f.loc(x))
    if n < 2:
        raise AnalysisBroken("only %d accesses to the mark array" % n)


def rule_R8(ctx):
    ctx.begin("R8", floor=3, what="the subject pointer never passes the terminator")
    prog = ctx.prog
    f = prog.func("ratom_match", file="regex.c")
    # atom kinds from the comparisons with ra->ra
    kinds = {}
    for n in f.walk():
        if n["k"] == "bin" and n["op"] == "==" and n["l"]["k"] == "member" and n["l"]["field"] == "ra":
            v = cval(n["r"])
            if v is not None:
                kinds[v] = True
    if len(kinds) < 5:
        raise AnalysisBroken("ratom_match: atom kinds not found")
    CHR, ANY, BRK = 0, ord("."), ord("[")
    subj_alpha = [0x41, 0x61, 0x0a, 0xc3, 0xa9, 0xe2]
    # literals incl. a truncated sequence and overlong encodings (they decode to 'A' / 'a', so
    # under ignore-case they equal a one-byte subject character)
    pats = [(0x41,), (0x61, 0x62), (0xc3, 0xa9), (0xc3,), (0x41, 0xc3, 0xa9),
            (0xc1, 0x81), (0xe0, 0x81, 0x81), (0xc1, 0xa1, 0x41)]
    # the flag bits ratom_match looks at
    # the flag bits ratom_match and the helpers it calls look at
    callees = {f.name} | {c_.get("fn") for c_ in f.calls() if c_.get("fn")}
    flagbits = sorted({cval(n["r"]) for g_ in prog.funcs.values()
                       if g_.file == "regex.c" and g_.name in callees
                       for n in g_.walk() if n["k"] == "bin" and n["op"] == "&" and
                       strip_casts(n["l"])["k"] == "member" and strip_casts(n["l"])["field"] == "flg"
                       and cval(n["r"]) is not None})
    from .lmt import matcher_flags
    mf = matcher_flags(prog)
    prevbit = mf["map"].get(mf["PREV"]) if mf["PREV"] is not None else None
    if len(flagbits) < 2:
        raise AnalysisBroken("ratom_match: flag tests not found")
    flagsets = [0] + flagbits
    brks = [(0x5b, 0x61, 0x5d), (0x5b, 0x5e, 0x61, 0x5d), (0x5b, 0xc3, 0xa9, 0x5d), (0x5b, 0x5e, 0xc3, 0xa9, 0x5d)]
    n_eval = 0
    bad = None
    for L in range(0, 4):
        for combo in itertools.product(subj_alpha, repeat=L):
            subj = tuple(combo) + (0,)
            for start in range(0, L + 1):
                cases = [(CHR, p, flg) for p in pats for flg in flagsets] + \
                    [(ANY, (), flg) for flg in flagsets] + \
                    [(BRK, b, flg) for b in brks for flg in flagsets]
                for ra, pat, flg in cases:
                    n_eval += 1
                    if prevbit is not None and flg & prevbit:
                        # the flag promises that o[-1] is readable: o is an interior pointer
                        buf = (0x61,) + subj
                        sp = Ptr(buf, 1)
                        rs = {"s": Ptr(buf, 1 + start, sp.log), "o": sp, "flg": flg, "pc": 0, "dep": 0}
                        L_ = L + 1
                    else:
                        sp = Ptr(subj)
                        rs = {"s": Ptr(subj, start, sp.log), "o": sp, "flg": flg, "pc": 0, "dep": 0}
                        L_ = L
                    atom = {"ra": ra, "s": Ptr(tuple(pat) + (0,)) if pat else None}
                    try:
                        Interp(prog).call(f, [atom, rs])
                    except OverRead as e:
                        if bad is None:
                            bad = ("reads past a terminator", ra, pat, subj, start, str(e))
                        continue
                    except Unsupported as e:
                        raise AnalysisBroken("ratom_match not evaluable: %s" % e)
                    cur = rs["s"]
                    lo_ = start + (1 if L_ != L else 0)
                    if not isinstance(cur, Ptr) or cur.off > L_ or cur.off < lo_:
                        if bad is None:
                            bad = ("leaves the subject pointer at %s" % (cur.off if isinstance(cur, Ptr) else cur),
                                   ra, pat, subj, start, "")
    show = lambda b: "".join("\\x%02x" % x for x in b[:-1])
    if bad:
        ctx.violation("ratom_match", "subject pointer stays within the line",
                      "atom kind %r pattern \"%s\" on subject \"%s\" from offset %d %s %s" % (
                          chr(bad[1]) if bad[1] else "literal", "".join("\\x%02x" % x for x in bad[2]),
                          show(bad[3]), bad[4], bad[0], bad[5]))
    else:
        ctx.ok("ratom_match", "start <= rs->s <= end of subject and no over-read in %d atom x subject cases" % n_eval)
    # marks are only ever rs->s - rs->o
    for rr in prog.funcs.values():
        if rr.file != "regex.c":
            continue
        for n, lv, op, rhs in stores(rr.body):
            lf = lv_field(lv)
            if lf and lf[0] == "rstate" and lf[1] == "mark" and lf[2]:
                r_ = strip_casts(rhs)
                good = r_["k"] == "bin" and r_["op"] == "-" and \
                    strip_casts(r_["l"])["k"] == "member" and strip_casts(r_["l"])["field"] == "s" and \
                    strip_casts(r_["r"])["k"] == "member" and strip_casts(r_["r"])["field"] == "o" and \
                    key(strip_casts(r_["l"])["base"]) == key(strip_casts(r_["r"])["base"])
                if cval(r_) is not None and cval(r_) < 0:
                    continue                      # resetting a mark to `unset`
                if good:
                    ctx.ok(rr.name, "a mark is the current offset s - o of the state", loc=rr.loc(n))
                else:
                    ctx.violation(rr.name, "mark value", "a mark is stored as %s" % key(rhs), rr.loc(n))
    # regexec's scan over start positions ends at the terminator: evaluated abstractly with
    # every attempt failing, on all subjects up to 3 bytes incl. truncated sequences
    rx = prog.func("regexec", file="regex.c")
    n_scan = 0
    scan_bad = None
    for L in range(0, 4):
        for combo in itertools.product([0x61, 0x0a, 0xc3, 0xa9, 0xf0], repeat=L):
            subj = tuple(combo) + (0,)
            starts = []

            def h_match(ip, fn, e, args, env, starts=starts):
                st_ = args[1]
                cur = st_.get("s") if isinstance(st_, dict) else None
                starts.append(cur.off if isinstance(cur, Ptr) else None)
                return 1
            preg = {"__deref__": {"flg": 0, "p": OPAQUE, "n": 0}}
            try:
                Interp(prog, hooks={"re_recmatch": h_match}).call(rx, [preg, Ptr(subj), 0, OPAQUE, 0])
            except OverRead as e:
                scan_bad = scan_bad or ("reads past the terminator of %r: %s" % (bytes(subj[:-1]), e))
                continue
            except Unsupported as e:
                if str(e) in ("loop bound", "step limit"):
                    scan_bad = scan_bad or ("never leaves the scan loop on %r" % bytes(subj[:-1]))
                    continue
                raise AnalysisBroken("regexec not evaluable: %s" % e)
            n_scan += 1
            if any(o is None or o > L for o in starts):
                scan_bad = scan_bad or ("starts an attempt beyond the end of %r" % bytes(subj[:-1]))
    if scan_bad:
        ctx.violation("regexec", "scan stops at the terminator", "the scan %s" % scan_bad)
    else:
        ctx.ok("regexec", "the scan over start positions ends at the terminator on %d subjects "
               "(attempts all failing)" % n_scan)



def rule_R10(ctx):
    """The size estimate is a bounded quantity: rnode_count never returns more than a constant
    cap, its arithmetic cannot leave int when its children are within the cap, and regcomp only
    allocates/emits when the estimate is strictly below the cap (so no clamp fired anywhere and
    R1's comparison applies).  Without a cap nested repetitions multiply and the int estimate
    wraps (replayed: four nested {128})."""
    ctx.begin("R10", floor=3, what="bounded program size estimate")
    from ..bounds import path_states
    from ..lin import prove_le, PROVEN, cmp_constraints
    from ..absint import IntOverflow
    from .. import lin as _lin
    prog = ctx.prog
    cnt = prog.func("rnode_count", file="regex.c")
    rc = prog.func("regcomp", file="regex.c")

    def consts_of(f):
        out = set()
        for n in f.walk():
            if n["k"] == "bin" and n["op"] in ("<", "<=", ">", ">="):
                for side in (n["l"], n["r"]):
                    v = cval(side)
                    if v is not None and v >= 1024:
                        out.add(v)
        return sorted(out)
    # (a) every return of rnode_count is <= capc
    capc = None
    try:
        sts = list(path_states(cnt, "exit", max_paths=4000))
    except OverflowError:
        raise AnalysisBroken("rnode_count: too many paths")
    rets = []
    for subst, hyps, items in sts:
        rs = [cnt.nodes.get(x[1]) for x in items if x[0] == "ev"]
        rs = [x for x in rs if x is not None and x["k"] == "return"]
        if not rs or rs[-1].get("e") is None:
            continue
        byid = {cnt.nodes[x[1]]["id"]: x[2] for x in items if x[0] == "br"}
        _lin._COND_RES[0] = byid
        try:
            from ..lin import linearize
            rl = linearize(strip_casts(rs[-1]["e"]), subst)
        finally:
            _lin._COND_RES[0] = None
        rets.append((rl, hyps, rs[-1]))
    if not rets:
        raise AnalysisBroken("rnode_count: no returns found")
    for K in consts_of(cnt):
        if all(rl is not None and prove_le(rl, Lin(k=K), hyps) == PROVEN for rl, hyps, r in rets):
            capc = K
            break
    if capc is None:
        worst = next((r for rl, hyps, r in rets if rl is None or not rl.is_const()), rets[0][2])
        ctx.violation("rnode_count", "program size estimate bounded",
                      "no constant bounds what rnode_count returns (`%s`): every nesting level multiplies "
                      "the size by min+max, so nested repetitions such as (((a{128}){128}){128}){128} wrap the "
                      "int estimate and regcomp allocates a program far smaller than what is emitted" %
                      key(worst)[:60], cnt.loc(worst))
        return
    ctx.ok("rnode_count", "every return <= %d (%d exit paths)" % (capc, len(rets)))
    # (b) regcomp emits only when the estimate is strictly below the cap
    bld, bcall = _regcomp_builder(prog)
    emits = list(rc.calls("rnode_emit")) if bcall is None else [bcall]
    atom_keys = [key(c) for c in rc.calls("rnode_count")]
    if not atom_keys:
        raise AnalysisBroken("regcomp does not call rnode_count")
    A = Lin({atom_keys[0]: 1})
    for c in emits + list(rc.calls("malloc")):
        sts = path_states(rc, c["id"])
        bad = False
        for subst, hyps, items in sts:
            # the call's value as this path names it (versioned when its argument was stored)
            names = {a_ for l_ in list(subst.values()) + [h_ for h_ in hyps if isinstance(h_, Lin)]
                     if isinstance(l_, Lin) for a_ in l_.c if a_.split("#")[0] == atom_keys[0]}
            A_ = Lin({sorted(names)[0]: 1}) if names else A
            if prove_le(A_ + Lin(k=1), Lin(k=capc), hyps) != PROVEN:
                bad = True
        if c.get("fn") == "malloc" and not any(r_["name"] for r_ in refs(c["args"][0])
                                               if r_.get("cat") == "local"):
            continue
        if c.get("fn") == "malloc" and "rnode_count" not in key(c["args"][0]) and not any(
                r_["name"] == _count_var(rc) for r_ in refs(c["args"][0])):
            continue
        if bad:
            ctx.violation("regcomp", "saturated estimate rejected",
                          "%s is reached with rnode_count() possibly at its cap %d: a clamped estimate is "
                          "smaller than the program that is emitted" % (c.get("fn"), capc), rc.loc(c))
        else:
            ctx.ok("regcomp", "%s only when rnode_count() < %d (not clamped)" % (c.get("fn"), capc), loc=rc.loc(c))
    # (c) no int overflow inside rnode_count with children at the cap
    kinds = _rn_kinds(prog)
    NREPS = None
    for n in prog.func("rnode_emit", file="regex.c").walk():
        if n["k"] == "var" and n["name"] == "jmpend":
            NREPS = n.get("arr_n")
    if NREPS is None:
        raise AnalysisBroken("rnode_emit: jmpend array not found")
    vals = [0, 1, 2, NREPS // 2, NREPS - 1, NREPS, NREPS + 1]
    if ctx.tier == "thorough":
        vals = list(range(0, NREPS + 2))
    adm = admitted_cells(prog, vals)
    n_cells = 0
    ovf = None

    def h_count(ip, fn, e, args, env):
        return capc
    for mn, mx in sorted(adm):
        if True:
            for rn in kinds:
                n_cells += 1
                ip = Interp(prog, hooks={"rnode_count": h_count}, int_overflow=True,
                            fields={"rn": rn, "mincnt": mn, "maxcnt": mx, "c1": NodeRef("c1"), "c2": NodeRef("c2")})
                try:
                    v = ip.call(cnt, [NodeRef("n")])
                except IntOverflow as e:
                    ovf = ovf or (rn, mn, mx, str(e))
                    continue
                except Unsupported as e:
                    raise AnalysisBroken("rnode_count not evaluable at %s {%d,%d}: %s" % (rn, mn, mx, e))
                if isinstance(v, int) and v > capc:
                    ovf = ovf or (rn, mn, mx, "returns %d" % v)
    if n_cells < 20:
        raise AnalysisBroken("only %d admitted cells" % n_cells)
    if ovf:
        ctx.violation("rnode_count", "estimate arithmetic stays inside int",
                      "kind %r with {%d,%d} and children at the cap %d: %s overflows int" % (
                          chr(ovf[0]) if ovf[0] else "atom", ovf[1], ovf[2], capc, ovf[3]))
    else:
        ctx.ok("rnode_count", "no int overflow with children at the cap %d on %d admitted (kind,min,max) cells "
               "(the estimate is monotone in its children: R1's coefficients are non-negative)" % (capc, n_cells))


def _count_var(rc):
    for n in rc.walk():
        if n["k"] == "var" and n.get("init") is not None and any(
                is_call(c, "rnode_count") for c in calls_in(n["init"])):
            return n["name"]
    return None



def _parse_probe(prog, pat):
    """abstractly evaluate rnode_parse on a pattern: (tree or None, bytes consumed, error seen)"""
    f = prog.func("rnode_parse", file="regex.c")
    err = []

    def h_make(ip, fn, e, args, env):
        return {"rn": args[0], "c1": args[1], "c2": args[2], "mincnt": 1, "maxcnt": 1, "ra": {}, "grp": 0}

    def h_free(ip, fn, e, args, env):
        err.append(1)                  # a partial tree is discarded only on a parse error
        return None
    def h_memcpy(ip, fn, e, args, env):
        d, s_, n_ = args[0], args[1], args[2]
        if isinstance(d, dict) and isinstance(s_, Ptr) and isinstance(n_, int):
            for i in range(n_):
                d[i] = s_.read(i)
        return None
    cell = {"__deref__": Ptr(tuple(pat) + (0,))}
    ip = Interp(prog, hooks={"rnode_make": h_make, "rnode_free": h_free, "malloc": lambda *a: {},
                             "memcpy": h_memcpy, "memset": lambda *a: None},
                max_depth=60, max_steps=400000)
    r = ip.call(f, [cell])
    cur = cell["__deref__"]
    return r, (cur.off if isinstance(cur, Ptr) else None), bool(err)


def _quantified_literals(tree, chr_kind=0):
    """byte strings of the literal atoms that carry a repetition"""
    out = []
    stack = [tree]
    while stack:
        n = stack.pop()
        if not isinstance(n, dict):
            continue
        if not isinstance(n.get("c1"), dict) and not isinstance(n.get("c2"), dict) and isinstance(n.get("ra"), dict) \
                and n["ra"].get("ra") == chr_kind and (n.get("mincnt"), n.get("maxcnt")) != (1, 1):
            buf = n["ra"].get("s")
            if isinstance(buf, dict):
                bs = []
                i = 0
                while isinstance(buf.get(i), int) and buf[i] != 0 and i < 64:
                    bs.append(buf[i] & 0xff)
                    i += 1
                out.append(bytes(bs))
        stack += [n.get("c1"), n.get("c2")]
    return out


def _r11_chunk(args):
    prog, pats = args if len(args) == 2 else (_R11_PROG, args[0])
    bad = None
    n = 0
    for pat in pats:
        try:
            r, rest, err = _parse_probe(prog, pat)
        except OverRead as e:
            return ("overread", pat, str(e)), n
        except Unsupported as e:
            if str(e) in ("loop bound", "step limit"):
                # the evaluation is concrete: thousands of passes over a few bytes make no progress
                return ("hang", pat, str(e)), n
            return ("unsupported", pat, str(e)), n
        n += 1
        if err and isinstance(r, dict) and rest == len(pat) and bad is None:
            bad = ("dropped", pat, "")
        if isinstance(r, dict) and bad is None:
            # a repetition binds to one character: the repeated literal atom is a single
            # character by the engine's own length function
            ul = prog.func("uc_len", file="regex.c")
            for lit in _quantified_literals(r):
                if not lit:
                    continue
                try:
                    l1 = Interp(prog).call(ul, [Ptr(tuple(lit) + (0,))])
                except (Unsupported, OverRead):
                    continue
                if isinstance(l1, int) and l1 != len(lit):
                    bad = ("run", pat, lit)
    return bad, n


_R11_PROG = None


def rule_R11(ctx):
    """What is compiled is the whole pattern: regcomp succeeds only with the parse cursor on the
    terminator, and a parse error (a partial tree discarded) never leaves the cursor there.
    Otherwise the part after the failing atom is silently dropped (replayed: b*a{999} compiled
    as b*).  The parser is evaluated abstractly on every string up to a length bound over the
    metacharacter alphabet plus long forms of each repetition error."""
    ctx.begin("R11", floor=2, what="pattern compiled to its end or rejected")
    from ..bounds import path_states
    from ..lin import prove_le, PROVEN
    prog = ctx.prog
    rc = prog.func("regcomp", file="regex.c")
    patp = rc.params[1]["name"]
    for c_ in rc.calls("rnode_parse"):          # the parse cursor: what the parser advances
        a_ = strip_casts(c_["args"][0])
        if a_["k"] == "un" and a_["op"] == "&" and a_["e"]["k"] == "ref":
            patp = a_["e"]["name"]
    # (a) success only with *pat == 0
    n_ok = 0
    bad = None
    for r in rc.cfg.return_nodes():
        if cval(r.get("e")) != 0:
            continue
        for subst, hyps, items in path_states(rc, r["id"]):
            atoms = sorted({a_ for h_ in hyps for a_ in ((h_[1] if isinstance(h_, tuple) else h_).c)
                            if a_.split("#")[0] == "(*%s)" % patp})
            okp = False
            for a_ in atoms:
                A = Lin({a_: 1})
                if prove_le(A, Lin(k=0), hyps) == PROVEN and prove_le(Lin(k=0), A, hyps) == PROVEN:
                    okp = True
            if okp:
                n_ok += 1
            else:
                bad = r
    if bad is not None:
        ctx.violation("regcomp", "success only when the whole pattern was parsed",
                      "a path returns 0 without testing that the parse cursor *%s reached the terminator: "
                      "whatever follows the first atom that fails to parse (or a stray ')') is silently "
                      "dropped, e.g. b*a{999} is compiled as b*" % patp, rc.loc(bad))
    elif n_ok:
        ctx.ok("regcomp", "every successful return has *%s == 0 (%d paths)" % (patp, n_ok))
    else:
        raise AnalysisBroken("regcomp: no successful return found")
    # (c) structurally: parse errors surface through rnode_atom (the only caller of the group
    # parser), and each of its NULL returns leaves the cursor untouched or puts it back
    from ..cfg import paths_to
    from ..util import path_consistent
    at = prog.func("rnode_atom", file="regex.c")
    cur = at.params[0]["name"]
    freeers = {g.name for g in prog.funcs.values() if g.file == "regex.c" and
               any(True for _ in g.calls("rnode_free")) and
               any(p_["ty"].replace(" ", "") == "char**" for p_ in g.params)}
    for gname in sorted(freeers - {"rnode_atom"}):
        callers = {h.name for h in prog.funcs.values() for c in h.calls(gname)}
        if not callers <= {"rnode_atom", gname}:
            ctx.inconclusive(gname, "parse errors surface through rnode_atom",
                             "%s discards a partial tree and is called from %s" % (gname, sorted(callers)))

    def is_cur(e):
        e = strip_casts(e)
        return e is not None and e["k"] == "un" and e["op"] == "*" and strip_casts(e["e"])["k"] == "ref" \
            and strip_casts(e["e"])["name"] == cur
    snaps = {v["name"] for v in at.walk() if v["k"] == "var" and v.get("init") is not None and is_cur(v["init"])}
    n_null = 0
    worst = None
    for r in at.cfg.return_nodes():
        e = r.get("e")
        from ..callgraph import is_null
        if e is None or not (cval(e) == 0 or is_null(e)):
            continue
        for items in paths_to(at.cfg, at.cfg.entry, r["id"]):
            if not path_consistent(at, items):
                continue
            n_null += 1
            mods = []
            for it in items:
                if it[0] != "ev":
                    continue
                n = at.nodes.get(it[1])
                if n is None:
                    continue
                if n["k"] == "un" and n["op"] in ("post++", "pre++", "post--", "pre--") and is_cur(n["e"]):
                    mods.append(("step", n))
                elif n["k"] == "bin" and n["op"] in ASSIGN_OPS and is_cur(n["l"]):
                    rr = strip_casts(n["r"])
                    if n["op"] == "=" and rr["k"] == "ref" and rr["name"] in snaps:
                        mods.append(("restore", n))
                    else:
                        mods.append(("step", n))
                elif n["k"] == "call" and any(strip_casts(a)["k"] == "ref" and strip_casts(a)["name"] == cur
                                              for a in n["args"]):
                    mods.append(("call", n))
                elif n["k"] == "var" and n["name"] in snaps and mods:
                    mods.append(("late snapshot", n))
            if mods and mods[-1][0] != "restore":
                worst = (r, mods[-1][1])
    if n_null < 3:
        raise AnalysisBroken("rnode_atom: only %d NULL-returning paths" % n_null)
    if worst:
        ctx.violation("rnode_atom", "a failed atom is not consumed",
                      "a path returns NULL after `%s` moved the parse cursor and does not put it back: the "
                      "failed atom is consumed and what follows it is silently dropped" % key(worst[1])[:50],
                      at.loc(worst[0]))
    else:
        ctx.ok("rnode_atom", "on all %d NULL-returning paths the cursor is untouched or restored to its "
               "entry value last" % n_null)
    # (b) the parser, evaluated
    NREPS = None
    for n in prog.func("rnode_emit", file="regex.c").walk():
        if n["k"] == "var" and n["name"] == "jmpend":
            NREPS = n.get("arr_n")
    if NREPS is None:
        raise AnalysisBroken("rnode_emit: jmpend array not found")
    alpha = [ord(c) for c in "a()|*{}9,[]\\"] + [0xc3, 0xa9]      # + a lead and a continuation byte
    N = 5 if ctx.tier == "thorough" else 4
    pats = [bytes(c) for L in range(1, N + 1) for c in itertools.product(alpha, repeat=L)]
    big = str(NREPS + 1).encode()
    for pre in (b"a", b"b*a", b"(a)", b"a|b"):
        for suf in (b"{" + big + b"}", b"{1," + big + b"}", b"{2,1}", b"{" + big + b",}", b"(b", b"(b|", b")b"):
            for post in (b"", b"c"):
                pats.append(pre + suf + post)
    global _R11_PROG
    results = []
    if len(pats) > 4000:
        import multiprocessing as mp
        chunks = [pats[i::32] for i in range(32)]
        with _R1_LOCK:
            _R11_PROG = prog
            try:
                with mp.get_context("fork").Pool(min(16, mp.cpu_count())) as pool:
                    results = pool.map(_r11_chunk, [(c,) for c in chunks])
            except (OSError, ValueError):
                results = [_r11_chunk((prog, c)) for c in chunks]
    else:
        results = [_r11_chunk((prog, pats))]
    n_eval = sum(n for b, n in results)
    bads = [b for b, n in results if b]
    for b in bads:
        if b[0] in ("unsupported",):
            raise AnalysisBroken("rnode_parse not evaluable on %r: %s" % (b[1], b[2]))
    if bads:
        b = sorted(bads, key=lambda x: (len(x[1]), x[1]))[0]
        if b[0] == "run":
            ctx.violation("ratom_read", "a repetition binds to one character",
                          "in the pattern %r the repeated literal atom is %r, %d bytes, but its first character "
                          "is shorter: the quantifier applies to a run of characters instead of the last one" % (
                              b[1].decode("latin-1"), b[2].decode("latin-1"), len(b[2])))
        elif b[0] == "hang":
            ctx.violation("rnode_parse", "parser terminates",
                          "on the pattern %r a loop of the parser stops consuming input (more than 5000 passes "
                          "over %d bytes): regcomp never returns" % (b[1].decode("latin-1"), len(b[1])))
        elif b[0] == "overread":
            ctx.violation("rnode_parse", "parser stays inside the pattern",
                          "on the pattern %r the parser %s" % (b[1].decode("latin-1"), b[2]))
        else:
            ctx.violation("rnode_parse", "a parse error leaves unparsed input",
                          "on the pattern %r an atom fails to parse and its partial tree is discarded, yet the "
                          "parser returns a tree with the cursor on the terminator: regcomp cannot tell, and "
                          "compiles only a prefix of the pattern" % b[1].decode("latin-1"))
    else:
        ctx.ok("rnode_parse", "on %d patterns (all strings of length <= %d over %d metacharacters, plus long "
               "repetition/parenthesis errors) a discarded partial tree always leaves the cursor before the "
               "terminator or yields no tree" % (n_eval, N, len(alpha)))



def rule_R12(ctx):
    """Every start position is tried from a fresh state: each field of the matching state that
    re_rec changes and does not put back when it fails (program counter, depth, marks, subject
    pointer) is stored again inside the scan loop before the next re_rec.  Otherwise a failed
    attempt leaks depth or group marks into the next start position (matches are missed after
    NDEPT failures; a group that did not take part reports a stale span)."""
    ctx.begin("R12", floor=3, what="matching state re-initialised per start position")
    prog = ctx.prog
    rec = prog.func("re_rec", file="regex.c")
    rx = prog.func("regexec", file="regex.c")
    # fields re_rec (and the atom matcher) store
    written = set()
    for g in (rec, prog.func("ratom_match", file="regex.c")):
        for n, lv, op, rhs in stores(g.body):
            lf = lv_field(lv)
            if lf and lf[0] == "rstate":
                written.add(lf[1])
    if len(written) < 3:
        raise AnalysisBroken("re_rec: stores to the matching state not found (%s)" % sorted(written))
    # is the depth counter balanced on every return of re_rec?
    from ..cfg import paths_to
    from ..util import path_consistent
    balanced = True
    for r in rec.cfg.return_nodes():
        for items in paths_to(rec.cfg, rec.cfg.entry, r["id"], max_paths=3000):
            d = 0
            for it in items:
                if it[0] != "ev":
                    continue
                n = rec.nodes.get(it[1])
                if n is not None and n["k"] == "un" and n["op"] in ("post++", "pre++", "post--", "pre--") \
                        and lv_field(n["e"]) and lv_field(n["e"])[1] == "dep":
                    d += 1 if "++" in n["op"] else -1
            if d != 0:
                balanced = False
    # the scan loop and the chain of calls from it to re_rec
    loops = [x for x in rx.walk() if x["k"] in ("while", "for", "do")]
    # the scan loop: the one from whose body re_rec is reached
    def reaches_rec(body):
        for c in calls_in(body):
            if c.get("fn") == "re_rec":
                return True
            g = prog.resolve(rx, c["fn"]) if c.get("fn") else None
            if g is not None and g.file == "regex.c" and prog.cg.reaches(g, ["re_rec"], stop=set()):
                return True
        return False
    loops = [x for x in loops if reaches_rec(x["body"])]
    if not loops:
        raise AnalysisBroken("regexec: scan loop not found")
    lp = loops[0]
    chain = []          # (function, call node) from the loop body down to the re_rec call
    f, body = rx, lp
    for _ in range(4):
        direct = [c for c in calls_in(body) if c.get("fn") == "re_rec"]
        if direct:
            chain.append((f, direct[0]))
            break
        nxt = None
        for c in calls_in(body):
            g = prog.resolve(f, c["fn"]) if c.get("fn") else None
            if g is not None and g.file == "regex.c" and prog.cg.reaches(g, ["re_rec"], stop=set()):
                nxt = (g, c)
                break
        if nxt is None:
            break
        chain.append((f, nxt[1]))
        f, body = nxt[0], nxt[0].body
    if not chain or chain[-1][1].get("fn") != "re_rec":
        raise AnalysisBroken("regexec: no call chain from the scan loop to re_rec")

    def fresh_store(g, call, field, in_loop=None, depth=0):
        """a store to the field (or a helper doing it) that precedes the call on every pass"""
        for n, lv, op, rhs in stores(g.body):
            lf = lv_field(lv)
            if not lf or lf[0] != "rstate" or lf[1] != field or op not in ("=",):
                continue
            if in_loop is not None and not any(x["id"] == n["id"] for x in walk(in_loop)):
                continue
            if g.cfg.pos(n) is None or g.cfg.pos(call) is None:
                continue
            if g.cfg.dominates(n, call):
                return n
            # a store inside a fill loop whose head dominates the call (for (i...) mark[i] = -1)
            for x in g.walk():
                if x["k"] in ("for", "while") and any(y["id"] == n["id"] for y in walk(x["body"])) \
                        and x.get("c") is not None and not any(y["id"] == call["id"] for y in walk(x)):
                    c0 = flatten_and(x["c"])[0]
                    if g.cfg.pos(c0) is not None and g.cfg.dominates(c0, call):
                        return n
        if depth < 2:
            for c in g.calls():
                h = prog.resolve(g, c["fn"]) if c.get("fn") else None
                if h is None or h.file != "regex.c" or c["id"] == call["id"] or h.name == "re_rec":
                    continue
                if in_loop is not None and not any(x["id"] == c["id"] for x in walk(in_loop)):
                    continue
                if g.cfg.pos(c) is not None and g.cfg.dominates(c, call):
                    ends = list(h.cfg.return_nodes()) or [None]
                    last = h.nodes.get(h.cfg.blocks[h.cfg.exit].pred[0]) if False else None
                    for n, lv, op, rhs in stores(h.body):
                        lf = lv_field(lv)
                        if lf and lf[0] == "rstate" and lf[1] == field and op == "=":
                            return n
        return None
    for field in sorted(written):
        if field == "dep" and balanced:
            ctx.ok("re_rec", "the depth counter is balanced on every return")
            continue
        found = None
        for i, (g, call) in enumerate(chain):
            found = fresh_store(g, call, field, in_loop=lp if i == 0 else None)
            if found is not None:
                break
        if found is not None:
            ctx.ok(chain[-1][0].name, "%s is set afresh for every start position" % field)
        else:
            what = {"dep": "re_rec leaves the depth raised when an atom fails, so after NDEPT failed start "
                           "positions every later attempt fails at once and matches are missed",
                    "mark": "the group marks of a failed attempt are seen by the next start position: a group "
                            "that does not take part in the match reports a stale span",
                    "pc": "the next attempt starts in the middle of the program",
                    "s": "the next attempt does not start at its own position"}.get(field, "state leaks")
            ctx.violation(chain[-1][0].name, "%s re-initialised per start position" % field,
                          "no store to the state's %s precedes re_rec inside the scan loop of regexec: %s" % (
                              field, what), chain[-1][0].loc(chain[-1][1]))



def _count_groups(tree):
    n = 0
    stack = [tree]
    while stack:
        x = stack.pop()
        if not isinstance(x, dict):
            continue
        if x.get("rn") == ord("(") and "c1" in x:
            n += 1
        stack += [x.get("c1"), x.get("c2")]
    return n


def _r13_chunk(args):
    prog, pats = args if len(args) == 2 else (_R11_PROG, args[0])
    gc = prog.func("re_groupcount", file="rset.c")
    bad = None
    n = 0
    for pat in pats:
        # as rset_make() hands it to regcomp: the member in its own group inside the set's group
        wrapped = b"((" + pat + b"))"
        try:
            tree, rest, err = _parse_probe(prog, wrapped)
        except (OverRead, Unsupported):
            continue
        if not isinstance(tree, dict) or rest != len(wrapped) or err:
            continue                      # does not compile: its group count is never used
        try:
            t2, r2, e2 = _parse_probe(prog, pat)
        except (OverRead, Unsupported):
            continue
        if r2 != len(pat) or e2:
            continue                      # closes the wrapper's own groups: not a pattern of its own
        try:
            c = Interp(prog).call(gc, [Ptr(tuple(pat) + (0,))])
        except OverRead as e:
            return ("overread", pat, str(e)), n
        except Unsupported as e:
            return ("unsupported", pat, str(e)), n
        n += 1
        g = _count_groups(tree) - 2
        if c != g and bad is None:
            bad = ("differ", pat, (c, g))
    return bad, n


def rule_R13(ctx):
    """The set matcher numbers the groups of its member patterns with re_groupcount(), a scanner
    of its own; the regex parser decides what a group really is.  For every pattern that
    compiles the two must agree, or the groups of all later members of a set are shifted.  Both
    are evaluated abstractly on every string up to a length bound over ( ) [ ] \\ ^ : a |."""
    ctx.begin("R13", floor=1, what="group count of the set matcher vs the parser")
    prog = ctx.prog
    alpha = [ord(c) for c in "a()[]\\^:|*"]
    N = 5 if ctx.tier == "thorough" else 4
    pats = [bytes(c) for L in range(1, N + 1) for c in itertools.product(alpha, repeat=L)]
    pats += [b"[a\\](b)", b"[x[:a]b(](y)", b"[[:alpha:]](a)", b"[^]a](b)", b"[]a](b)", b"\\((a)", b"([(])"]
    # and every built-in pattern of the configuration tables
    from .k import _struct_rows
    for tab in ("highlights", "filetypes", "dirmarks", "dircontexts"):
        try:
            for r_ in _struct_rows(prog, tab):
                if isinstance(r_.get("pat"), str):
                    pats.append(r_["pat"].encode("utf-8", "replace"))
        except Exception:
            pass
    global _R11_PROG
    import multiprocessing as mp
    chunks = [pats[i::48] for i in range(48)]
    with _R1_LOCK:
        _R11_PROG = prog
        try:
            with mp.get_context("fork").Pool(min(16, mp.cpu_count())) as pool:
                results = pool.map(_r13_chunk, [(c,) for c in chunks])
        except (OSError, ValueError):
            results = [_r13_chunk((prog, c)) for c in chunks]
    n_eval = sum(n for b, n in results)
    bads = [b for b, n in results if b]
    for b in bads:
        if b[0] == "unsupported":
            raise AnalysisBroken("re_groupcount not evaluable on %r: %s" % (b[1], b[2]))
    if n_eval < 1000:
        raise AnalysisBroken("only %d compiling patterns compared" % n_eval)
    if bads:
        b = sorted(bads, key=lambda x: (len(x[1]), x[1]))[0]
        if b[0] == "overread":
            ctx.violation("re_groupcount", "group scanner stays inside the pattern",
                          "on the pattern %r it %s" % (b[1].decode("latin-1"), b[2]))
        else:
            ctx.violation("re_groupcount", "group count agrees with the parser",
                          "the pattern %r compiles with %d group(s) but re_groupcount() says %d: in a set, "
                          "the groups of this and all later members are read from the wrong slots" % (
                              b[1].decode("latin-1"), b[2][1], b[2][0]))
    else:
        ctx.ok("re_groupcount", "same number of groups as the parser on %d compiling patterns (all strings "
               "of length <= %d over %d characters)" % (n_eval, N, len(alpha)))



RULES = {"R1": rule_R1, "R2": rule_R2, "R3": rule_R3, "R7": rule_R7, "R8": rule_R8, "R10": rule_R10, "R11": rule_R11, "R12": rule_R12, "R13": rule_R13}
