"""W — the write-out / read-in path (DESIGN.md 3.1)."""
from ..cfg import enum_paths
from ..facts import AnalysisBroken, walk, key, cval
from ..lin import Lin, linearize, cmp_constraints, prove_le, PROVEN, REFUTED, CEX
from ..util import (stores, lv_field, lv_var, is_call, calls_in, refs, mentions,
                    strip_casts, negate_truth, flatten_and, path_consistent)

# ----------------------------------------------------------------------------------------
# generic: where is the result of a call tested, and which edge means failure?

FAIL_REPS = {
    "<0": ([-1], [0, 1, 7]),
    "!=0": ([1, -1], [0]),
    "!=NULL": ([1], [0]),
}


def _eval(e, x_id, x_name, val):
    """Evaluate a test expression with the call node / variable replaced by val.
    Returns int or None when not evaluable."""
    if e is None:
        return None
    if e["id"] == x_id or (x_name and e["k"] == "ref" and e["name"] == x_name):
        return val
    k = e["k"]
    if k == "int":
        return e["v"]
    if "cv" in e:
        return e["cv"]
    if k == "cast":
        return _eval(e["e"], x_id, x_name, val)
    if k == "bin" and e["op"] == "=":
        return _eval(e["r"], x_id, x_name, val)
    if k == "un" and e["op"] == "!":
        v = _eval(e["e"], x_id, x_name, val)
        return None if v is None else int(not v)
    if k == "un" and e["op"] == "-":
        v = _eval(e["e"], x_id, x_name, val)
        return None if v is None else -v
    if k == "bin" and e["op"] in ("<", "<=", ">", ">=", "==", "!="):
        a, b = _eval(e["l"], x_id, x_name, val), _eval(e["r"], x_id, x_name, val)
        if a is None or b is None:
            return None
        return int({"<": a < b, "<=": a <= b, ">": a > b, ">=": a >= b,
                    "==": a == b, "!=": a != b}[e["op"]])
    if k == "cond":
        c = _eval(e["c"], x_id, x_name, val)
        if c is None:
            return None
        return _eval(e["t"] if c else e["f"], x_id, x_name, val)
    return None


def result_test(func, call, conv):
    """How is the call's result consumed?
    -> ("branch", block id, fail succ index, cond node) | ("returned", return node) |
       ("dropped", None) | ("unknown", why)"""
    cfg = func.cfg
    fail_vals, ok_vals = FAIL_REPS[conv]
    # (a) inside a branch condition
    cur = call
    for anc in [call] + list(func.ancestors(call["id"])):
        blk = cfg.branch_of_cond(anc["id"])
        if blk is not None:
            tv = [_eval(anc, call["id"], None, v) for v in fail_vals]
            if any(t is None for t in tv):
                return ("unknown", "test %s not evaluable" % key(anc))
            if len(set(bool(t) for t in tv)) != 1:
                return ("nodistinct", "test %s does not single out failure" % key(anc))
            t = bool(tv[0])
            ov = [bool(_eval(anc, call["id"], None, v)) for v in ok_vals]
            if all(o == t for o in ov):
                return ("nodistinct", "test %s is the same for failure and success" % key(anc))
            return ("branch", blk.id, 0 if t else 1, anc)
        if anc["k"] == "return":
            return ("returned", anc)
        if anc["k"] in ("block", "if", "while", "for", "do", "switch", "case", "default", "label"):
            break
        if anc["k"] == "var":
            # initialiser of a variable
            return _var_test(func, anc["name"], anc, conv)
        if anc["k"] == "bin" and anc["op"] == "=" and anc["l"]["k"] == "ref" and \
                (anc["r"]["id"] == cur["id"] or strip_casts(anc["r"])["id"] == cur["id"]):
            # assigned; maybe the assignment itself is tested further up -- keep climbing
            # but remember the variable
            par = func.nodes.get(func.parent.get(anc["id"]))
            if par is None or par["k"] in ("block", "if", "while", "for", "do", "case",
                                           "default", "label", "switch"):
                return _var_test(func, anc["l"]["name"], anc, conv)
        cur = anc
    return ("dropped", None)


def _var_test(func, name, assign, conv):
    cfg = func.cfg
    fail_vals, ok_vals = FAIL_REPS[conv]
    # the first branch condition that mentions the variable and is dominated by the assignment
    best = None
    for b in cfg.blocks.values():
        br = cfg.branch(b.id)
        if not br:
            continue
        c = func.nodes.get(br[0])
        if c is None or not mentions(c, name):
            continue
        if not cfg.dominates(assign, c):
            continue
        if best is None or cfg.dominates(c, best[1]):
            best = (b, c)
    if best is None:
        # returned?
        for r in cfg.return_nodes():
            if r.get("e") is not None and mentions(r["e"], name) and cfg.dominates(assign, r):
                return ("returned", r, name)
        return ("dropped", None)
    b, c = best
    tv = [_eval(c, -1, name, v) for v in fail_vals]
    if any(t is None for t in tv):
        return ("unknown", "test %s not evaluable" % key(c))
    if len(set(bool(t) for t in tv)) != 1:
        return ("nodistinct", "test %s does not single out failure" % key(c))
    t = bool(tv[0])
    ov = [bool(_eval(c, -1, name, v)) for v in ok_vals]
    if all(o == t for o in ov):
        return ("nodistinct", "test %s is the same for failure and success" % key(c))
    return ("branch", b.id, 0 if t else 1, c)


def fail_edge_check(ctx, func, call, conv, forbidden, ret_fail, what):
    """The result of `call` must be tested; from the failing edge no `forbidden` event is
    reachable and every reachable return satisfies ret_fail (when given)."""
    cfg = func.cfg
    r = result_test(func, call, conv)
    name = call.get("fn")
    loc = func.loc(call)
    if r[0] == "dropped":
        ctx.violation(func.name, what, "the result of %s is discarded" % name, loc)
        return None
    if r[0] == "nodistinct":
        ctx.violation(func.name, what, r[1], loc)
        return None
    if r[0] == "unknown":
        ctx.inconclusive(func.name, what, r[1], loc)
        return None
    if r[0] == "returned":
        ctx.ok(func.name, what, "result of %s is returned to the caller" % name, loc)
        return r
    _, bid, k, cond = r
    start = cfg.blocks[bid].succ[k]
    hit = cfg.search(start, lambda e: e != ("exit",) and forbidden(func.nodes.get(e)),
                     start_block=True) if forbidden else None
    if hit is not None:
        n = func.nodes.get(hit)
        ctx.violation(func.name, what,
                      "after %s failed (test %s) the success-only effect %s is reachable" % (
                          name, key(cond), key(n)[:60]), func.loc(n))
        return None
    if ret_fail is not None:
        seen = cfg.reachable_blocks(start)
        bad = None
        n_ret = 0
        for rn in cfg.return_nodes():
            p = cfg.pos(rn)
            if p and p[0] in seen:
                n_ret += 1
                if not ret_fail(rn):
                    bad = rn
        if bad is not None:
            ctx.violation(func.name, what,
                          "after %s failed (test %s) the function can still return success "
                          "(%s)" % (name, key(cond), key(bad.get("e"))), func.loc(bad))
            return None
        if n_ret == 0 and cfg.exit in seen and func.d["ret"] != "void":
            ctx.violation(func.name, what, "failure of %s falls off the function" % name, loc)
            return None
    ctx.ok(func.name, what, "fail edge of `%s` reaches only failing returns" % key(cond)[:70], loc)
    return r


def ret_nonzero(rn):
    v = cval(rn.get("e"))
    return v is not None and v != 0


def ret_nonnull_str(rn):
    e = strip_casts(rn.get("e")) if rn.get("e") else None
    return e is not None and e["k"] == "str"


# ----------------------------------------------------------------------------------------


def _wr_slots(f):
    """Slots of lbuf_wr: loop, ln var, nl key, batch array, fill var, counter var."""
    cfg = f.cfg
    loops = cfg.loops()
    cand = None
    for h, body in loops.items():
        evs = [f.nodes.get(e) for b in body for e in cfg.blocks[b].ev]
        if any(is_call(n, ("write_fully", "write", "memcpy")) for n in evs if n):
            if cand is None or len(body) > len(loops[cand]):
                cand = h
    if cand is None:
        raise AnalysisBroken("lbuf_wr: no loop that emits lines")
    body = loops[cand]
    ln = nl = None
    for n in f.walk():
        if n["k"] == "var" and "init" in n:
            ik = key(n["init"])
            if "->ln[" in ik and n.get("ty", "").startswith("char *"):
                ln = n["name"]
    if ln is None:
        raise AnalysisBroken("lbuf_wr: no variable bound to lbuf->ln[i]")
    for n in f.walk():
        if n["k"] == "var" and "init" in n and is_call(strip_casts(n["init"]), "strlen") \
                and key(strip_casts(n["init"])["args"][0]) == ln:
            nl = n["name"]
    nlkey = nl or ("strlen(%s)" % ln)
    ft = list(f.calls("ftruncate"))
    counter = None
    if ft:
        a = strip_casts(ft[0]["args"][1])
        if a["k"] == "ref":
            counter = a["name"]
    batch = fill = None
    for c in f.calls("memcpy"):
        d = strip_casts(c["args"][0])
        if d["k"] == "bin" and d["op"] == "+" and d["l"]["k"] == "ref" and "arr_n" not in d["l"]:
            pass
        if d["k"] == "bin" and d["op"] == "+" and d["l"]["k"] == "ref" and d["r"]["k"] == "ref":
            batch, fill = d["l"]["name"], d["r"]["name"]
        elif d["k"] == "un" and d["op"] == "&" and d["e"]["k"] == "sub" and \
                d["e"]["base"]["k"] == "ref" and d["e"]["idx"]["k"] == "ref":
            batch, fill = d["e"]["base"]["name"], d["e"]["idx"]["name"]
    return cand, body, ln, nlkey, batch, fill, counter


def _array_size(f, name):
    for n in f.walk():
        if n["k"] == "var" and n["name"] == name and "arr_n" in n:
            return n["size"]
    return None


def rule_W1(ctx):
    ctx.begin("W1", floor=4, what="emit/count paths, flush resets, batch bound")
    f = ctx.prog.func("lbuf_wr")
    cfg = f.cfg
    head, body, ln, nlkey, batch, fill, counter = _wr_slots(f)
    if counter is None:
        # without ftruncate the counter is not needed only when O_TRUNC is used (W2 decides)
        ctx.note("no ftruncate length variable; emit-once is still checked")

    def is_emit(n):
        if is_call(n, "memcpy") and len(n["args"]) == 3:
            return key(strip_casts(n["args"][1])) == ln and key(strip_casts(n["args"][2])) == nlkey
        if is_call(n, ("write_fully", "write")) and len(n["args"]) == 3:
            return key(strip_casts(n["args"][1])) == ln and key(strip_casts(n["args"][2])) == nlkey
        return False

    def is_count(n):
        return n["k"] == "bin" and n["op"] == "+=" and n["l"]["k"] == "ref" and \
            n["l"]["name"] == counter and key(strip_casts(n["r"])) == nlkey

    br = cfg.branch(head)
    if not br:
        raise AnalysisBroken("lbuf_wr: loop header is not a two-way branch")
    start = br[1]
    try:
        paths = enum_paths(cfg, start, {head})
    except OverflowError:
        raise AnalysisBroken("lbuf_wr: too many paths in the loop body")
    n_iter = 0
    for items, end in paths:
        nodes = [f.nodes.get(x[1]) for x in items if x[0] == "ev"]
        nodes = [n for n in nodes if n]
        if end == head:
            n_iter += 1
            ne = sum(1 for n in nodes if is_emit(n))
            nc = sum(1 for n in nodes if is_count(n)) if counter else 1
            conds = [("%s=%s" % (key(f.nodes[x[1]])[:30], x[2])) for x in items if x[0] == "br"]
            if ne != 1:
                ctx.violation("lbuf_wr", "each line emitted exactly once",
                              "an iteration path emits the line %d times (branches %s)" % (
                                  ne, ", ".join(conds)), f.loc(f.nodes[head and cfg.blocks[head].ev[0]]))
            elif nc != 1:
                ctx.violation("lbuf_wr", "each line counted exactly once",
                              "an iteration path adds the line length to the truncation length "
                              "%d times (branches %s)" % (nc, ", ".join(conds)),
                              f.loc(f.nodes[cfg.blocks[head].ev[0]]))
            else:
                ctx.ok("lbuf_wr", "iteration path: 1 emit, 1 count", ", ".join(conds))
        elif end == cfg.exit:
            rets = [n for n in nodes if n["k"] == "return"]
            if not rets or not ret_nonzero(rets[-1]):
                ctx.violation("lbuf_wr", "no early success", "the loop can return success "
                              "before all lines are written", f.loc(rets[-1]) if rets else "")
        else:
            ctx.violation("lbuf_wr", "no early exit",
                          "an iteration path leaves the loop before the last line")
    if n_iter == 0:
        raise AnalysisBroken("lbuf_wr: no complete iteration path")
    # loop bounds: i from beg to end
    # flush resets
    if batch and fill:
        flushes = [c for c in f.calls(("write_fully", "write"))
                   if key(strip_casts(c["args"][1])) == batch]
        for fl in flushes:
            def is_reset(e):
                n = f.nodes.get(e)
                return n is not None and n["k"] == "bin" and n["op"] == "=" and \
                    n["l"]["k"] == "ref" and n["l"]["name"] == fill and cval(n["r"]) == 0

            def into_batch(e):
                n = f.nodes.get(e) if e != ("exit",) else None
                return n is not None and is_call(n, "memcpy") and \
                    mentions(n["args"][0], batch)
            hit = cfg.search(cfg.pos(fl), into_batch, avoid=is_reset)
            if hit is not None:
                ctx.violation("lbuf_wr", "flush resets the fill",
                              "after flushing the batch a copy into it is reachable without "
                              "`%s = 0`" % fill, f.loc(fl))
            else:
                ctx.ok("lbuf_wr", "flush resets the fill", loc=f.loc(fl))
            if key(strip_casts(fl["args"][2])) != fill:
                ctx.violation("lbuf_wr", "flush length", "the batch is flushed with length %s, "
                              "not its fill %s" % (key(fl["args"][2]), fill), f.loc(fl))
        # batch bound at every memcpy into the batch
        S = _array_size(f, batch)
        if S is None:
            raise AnalysisBroken("lbuf_wr: batch array size unknown")
        from ..bounds import path_states

        def fill_inline(call):
            # a helper of the file that is handed the address of the fill (it flushes and resets)
            g = ctx.prog.resolve(f, call["fn"]) if call.get("fn") else None
            if g is None or g.file != f.file or g is f:
                return None
            for a_ in call["args"]:
                a_ = strip_casts(a_)
                if a_["k"] == "un" and a_["op"] == "&" and a_["e"]["k"] == "ref" and a_["e"]["name"] == fill:
                    return g
            return None

        def fill_hyps(subst):
            return [subst.get(fill) or Lin({fill: 1})]          # fill >= 0 (inductive: see below)
        for c in f.calls("memcpy"):
            if not mentions(c["args"][0], batch):
                continue
            try:
                sts = path_states(f, c["id"], init_hyps=[], header_hyps=fill_hyps, inline=fill_inline,
                                  max_paths=4000)
            except OverflowError:
                raise AnalysisBroken("lbuf_wr: too many paths")
            if not sts:
                raise AnalysisBroken("lbuf_wr: memcpy into the batch not reachable")
            verdicts = []
            und = False
            for subst, hyps, items in sts:
                lin_ = subst["__linfn__"]
                cur_fill = subst.get(fill) or Lin({fill: 1})
                ln_len = lin_(strip_casts(c["args"][2]))
                if ln_len is None:
                    und = True
                    continue
                nn = [Lin({a_: 1}) for a_ in ln_len.c if a_.startswith("strlen(") or a_ == nlkey]
                v = prove_le(cur_fill + ln_len, Lin(k=S), hyps + nn)
                if v != PROVEN and ("__havoc__" in subst or "__callhavoc__" in subst):
                    und = True
                    continue
                verdicts.append(v)
            if und and all(v == PROVEN for v in verdicts):
                ctx.inconclusive("lbuf_wr", "batch bound", "a helper on the way to the copy is not summarised", f.loc(c))
            elif all(v == PROVEN for v in verdicts):
                ctx.ok("lbuf_wr", "fill + len <= sizeof(batch) on %d paths" % len(verdicts),
                       loc=f.loc(c))
            else:
                ctx.violation("lbuf_wr", "batch bound",
                              "on some path to the copy into %s[%d] the guards do not imply "
                              "%s + %s <= %d (%s)" % (batch, S, fill, nlkey, S, sorted(set(verdicts))), f.loc(c))
        # fill is non-negative: all stores are = 0 or += strlen-derived
        for n, lv, op, rhs in stores(f.body):
            if lv.get("name") == fill and lv["k"] in ("ref", "var"):
                okst = (op in ("=", "init") and (cval(rhs) or 0) >= 0 and cval(rhs) is not None) or \
                    (op == "+=" and key(strip_casts(rhs)) == nlkey)
                if not okst:
                    ctx.violation("lbuf_wr", "fill bookkeeping",
                                  "the batch fill is updated by `%s %s`, not by the copied "
                                  "length" % (op, key(rhs)), f.loc(n))
                else:
                    ctx.ok("lbuf_wr", "fill store %s %s" % (op, key(rhs)), loc=f.loc(n))
    # loop range: for (i = beg; i < end; i++)
    for lp in f.walk():
        if lp["k"] == "for" and cfg.pos(lp["c"]) and cfg.pos(lp["c"])[0] == head:
            pn = [p["name"] for p in f.params]
            ik = key(lp["init"]) if lp.get("init") else ""
            ck = key(lp["c"])
            inc = key(lp["inc"]) if lp.get("inc") else ""
            if len(pn) >= 4 and ik.endswith("=%s)" % pn[2]) and ck.endswith("<%s)" % pn[3]) \
                    and ("++" in inc):
                ctx.ok("lbuf_wr", "loop covers [beg, end)", loc=f.loc(lp))
            else:
                ctx.violation("lbuf_wr", "loop covers [beg, end)",
                              "loop is for(%s; %s; %s)" % (ik, ck, inc), f.loc(lp))


def rule_W2(ctx):
    ctx.begin("W2", floor=1, what="truncation to the written length")
    prog = ctx.prog
    sv = prog.func("lbuf_save")
    O_TRUNC = 0o1000
    opens = list(sv.calls("open"))
    if not opens:
        raise AnalysisBroken("lbuf_save does not call open")
    trunc_flag = all((cval(o["args"][1]) or 0) & O_TRUNC for o in opens)
    f = prog.func("lbuf_wr")
    cfg = f.cfg
    if trunc_flag:
        ctx.ok("lbuf_save", "file opened with O_TRUNC")
        return
    _, _, ln, nlkey, batch, fill, counter = _wr_slots(f)
    fts = list(f.calls("ftruncate"))
    succ = [r for r in cfg.return_nodes() if cval(r.get("e")) == 0]
    if not succ:
        raise AnalysisBroken("lbuf_wr has no `return 0`")
    is_write = lambda e: e != ("exit",) and is_call(f.nodes.get(e), ("write_fully", "write"))
    for r in succ:
        dom = [t for t in fts if cfg.dominates(t, r)]
        if not dom:
            ctx.violation("lbuf_wr", "truncate on success",
                          "a successful return is reachable without ftruncate (and the file is "
                          "opened without O_TRUNC): a longer previous file keeps its tail", f.loc(r))
            continue
        t = dom[-1]
        later = cfg.search(cfg.pos(t), is_write)
        if later is not None:
            ctx.violation("lbuf_wr", "truncate after the last write",
                          "a write follows ftruncate", f.loc(f.nodes[later]))
            continue
        a = strip_casts(t["args"][1])
        fd_ok = key(strip_casts(t["args"][0])) == f.params[1]["name"]
        if a["k"] == "ref" and a["name"] == counter and fd_ok:
            ctx.ok("lbuf_wr", "ftruncate(fd, bytes written) dominates success", loc=f.loc(t))
        else:
            ctx.violation("lbuf_wr", "truncate length", "ftruncate(%s, %s) is not the written "
                          "byte count of this descriptor" % (key(t["args"][0]), key(a)), f.loc(t))
    # the counter starts at zero
    if counter:
        for n in f.walk():
            if n["k"] == "var" and n["name"] == counter:
                if cval(n.get("init")) == 0:
                    ctx.ok("lbuf_wr", "counter starts at 0", loc=f.loc(n))
                else:
                    ctx.violation("lbuf_wr", "counter starts at 0",
                                  "truncation length starts at %s" % key(n.get("init")), f.loc(n))
        for n, lv, op, rhs in stores(f.body):
            if lv["k"] == "ref" and lv["name"] == counter and not (
                    op == "+=" and key(strip_casts(rhs)) == nlkey):
                ctx.violation("lbuf_wr", "counter bookkeeping", "truncation length updated by "
                              "`%s %s`" % (op, key(rhs)), f.loc(n))


def rule_W3(ctx):
    ctx.begin("W3", floor=4, what="short-write retry loop obligations")
    prog = ctx.prog
    fs = [f for f in prog.funcs.values() if f.file == "lbuf.c" and any(True for _ in f.calls("write"))]
    if not fs:
        raise AnalysisBroken("no function in lbuf.c calls write(2)")
    for f in fs:
        cfg = f.cfg
        for w in f.calls("write"):
            buf, cnt = strip_casts(w["args"][1]), strip_casts(w["args"][2])
            pn = [p["name"] for p in f.params]
            # base + P
            P = None
            if buf["k"] == "bin" and buf["op"] == "+" and buf["l"]["k"] == "ref" and \
                    buf["l"]["name"] in pn and buf["r"]["k"] == "ref":
                base, P = buf["l"]["name"], buf["r"]["name"]
            if P is None:
                ctx.violation(f.name, "resume at the written offset",
                              "write() is given %s, not base + bytes already written" % key(buf),
                              f.loc(w))
                continue
            total = None
            if cnt["k"] == "bin" and cnt["op"] == "-" and cnt["l"]["k"] == "ref" and \
                    cnt["l"]["name"] in pn and key(cnt["r"]) == P:
                total = cnt["l"]["name"]
            if total is None:
                ctx.violation(f.name, "remaining count",
                              "write() count is %s, not total - %s" % (key(cnt), P), f.loc(w))
                continue
            ctx.ok(f.name, "write(fd, %s + %s, %s - %s)" % (base, P, total, P), loc=f.loc(w))
            # result variable
            par = f.nodes.get(f.parent.get(w["id"]))
            while par and par["k"] == "cast":
                par = f.nodes.get(f.parent.get(par["id"]))
            res = None
            if par and par["k"] == "bin" and par["op"] == "=" and par["l"]["k"] == "ref":
                res = par["l"]["name"]
            elif par and par["k"] == "var":
                res = par["name"]
            if res is None:
                ctx.violation(f.name, "result kept", "the result of write() is not kept", f.loc(w))
                continue
            # P += res
            adv = [n for n, lv, op, rhs in stores(f.body)
                   if lv["k"] == "ref" and lv["name"] == P and op == "+=" and key(strip_casts(rhs)) == res]
            other = [n for n, lv, op, rhs in stores(f.body)
                     if lv["k"] == "ref" and lv["name"] == P and not (
                         op == "+=" and key(strip_casts(rhs)) == res)]
            init0 = [n for n in f.walk() if n["k"] == "var" and n["name"] == P and cval(n.get("init")) == 0]
            if adv and not other and init0:
                ctx.ok(f.name, "%s starts at 0 and advances by the result" % P, loc=f.loc(adv[0]))
            else:
                ctx.violation(f.name, "advance by the result",
                              "%s is not (only) initialised to 0 and advanced by %s" % (P, res), f.loc(w))
            # in a loop that continues while P < total and result >= 0
            loop = None
            for anc in f.ancestors(w["id"]):
                if anc["k"] in ("while", "for", "do"):
                    loop = anc
                    break
            if loop is None:
                ctx.violation(f.name, "retry loop", "write() is not retried in a loop: a short "
                              "write loses the rest of the batch", f.loc(w))
                continue
            cs = flatten_and(loop["c"])
            cont = any(key(c) in ("(%s<%s)" % (P, total), "(%s>%s)" % (total, P),
                                  "(%s!=%s)" % (P, total)) for c in cs)
            if cont:
                ctx.ok(f.name, "loop continues while %s < %s" % (P, total), loc=f.loc(loop))
            else:
                ctx.violation(f.name, "retry loop", "loop condition %s does not continue while "
                              "%s < %s" % (key(loop["c"]), P, total), f.loc(loop))
            # negative result leaves the loop
            neg_leaves = False
            for c in cs:
                if mentions(c, res) or any(x["id"] == w["id"] for x in walk(c)):
                    tv = _eval(c, w["id"], res, -1)
                    tz = _eval(c, w["id"], res, 0)
                    tp = _eval(c, w["id"], res, 5)
                    if tv == 0 and tp == 1 and tz in (0, 1):
                        neg_leaves = True
            if not neg_leaves:
                # maybe a break/return in the body on res < 0
                for n in walk(loop["body"]):
                    if n["k"] == "if" and mentions(n["c"], res) and _eval(n["c"], -1, res, -1) == 1 \
                            and _eval(n["c"], -1, res, 5) == 0:
                        neg_leaves = True
            if neg_leaves:
                ctx.ok(f.name, "a negative result ends the loop", loc=f.loc(loop))
            else:
                ctx.violation(f.name, "error ends the loop", "a negative write() result does "
                              "not end the retry loop", f.loc(loop))
            # a failed write() is reported as a negative result: from the failing edge of the
            # test of the result only negative returns are reachable
            rt = result_test(f, w, "<0")
            if rt[0] == "branch":
                _, bid, kk, cond = rt
                start = cfg.blocks[bid].succ[kk]
                seen = cfg.reachable_blocks(start)
                badr = None
                n_r = 0
                for r in cfg.return_nodes():
                    pr = cfg.pos(r)
                    if pr is None or pr[0] not in seen or r.get("e") is None:
                        continue
                    n_r += 1
                    v = _eval(r["e"], w["id"], res, -1)
                    if v is None:
                        v = cval(r["e"])
                    if v is None or v >= 0:
                        badr = r
                if badr is not None:
                    ctx.violation(f.name, "error result", "after write() failed (test %s) the function "
                                  "can return %s, which callers read as success" % (key(cond), key(badr["e"])),
                                  f.loc(badr))
                elif n_r:
                    ctx.ok(f.name, "a failed write() makes the function return a negative value", loc=f.loc(w))
                else:
                    ctx.violation(f.name, "error result", "no return after a failed write()", f.loc(w))
            elif rt[0] in ("dropped", "nodistinct"):
                ctx.violation(f.name, "error result", "the result of write() is not tested for failure "
                              "(%s)" % (rt[1] or "discarded"), f.loc(w))
            else:
                ctx.inconclusive(f.name, "error result", "test of write() result not recognised", f.loc(w))


SUCCESS_EFFECTS_ECWRITE = None


def _is_success_effect(n):
    if n is None:
        return False
    if is_call(n, "lbuf_saved"):
        return True
    if n["k"] == "bin" and n["op"] == "=":
        lf = lv_field(n["l"])
        if lf and lf[0] == "buf" and lf[1] in ("mtime", "path"):
            return True
        lvv = lv_var(n["l"])
        if lvv and lvv[0] == "xquit":
            return True
    return False


def rule_W4(ctx):
    ctx.begin("W4", floor=8, what="error-propagation sites on the save path")
    prog = ctx.prog
    wr = prog.func("lbuf_wr")
    for c in wr.calls("write_fully"):
        fail_edge_check(ctx, wr, c, "<0", None, ret_nonzero, "write failure aborts lbuf_wr")
    sv = prog.func("lbuf_save")
    for c in sv.calls("lbuf_wr"):
        fail_edge_check(ctx, sv, c, "!=0", None, ret_nonnull_str, "lbuf_wr failure reported")
    for c in sv.calls("open"):
        fail_edge_check(ctx, sv, c, "<0",
                        lambda n: is_call(n, ("lbuf_wr", "write", "write_fully")),
                        ret_nonnull_str, "open failure reported")
    closes = list(sv.calls("close"))
    # at least one close is tested (the one on the success path)
    tested = 0
    for c in closes:
        r = result_test(sv, c, "!=0")
        if r[0] == "branch":
            tested += 1
            fail_edge_check(ctx, sv, c, "!=0", None, ret_nonnull_str, "close failure reported")
    if not tested:
        ctx.violation("lbuf_save", "close failure reported",
                      "no close() result is tested: a failed close is reported as success")
    # success return of lbuf_save is dominated by lbuf_wr and a tested close
    for r in sv.cfg.return_nodes():
        e = strip_casts(r.get("e")) if r.get("e") else None
        is_null = e is not None and (cval(e) == 0 or (e["k"] == "int" and e["v"] == 0))
        if is_null:
            w_ok = any(sv.cfg.dominates(c, r) for c in sv.calls("lbuf_wr"))
            c_ok = any(sv.cfg.dominates(c, r) for c in closes)
            if w_ok and c_ok:
                ctx.ok("lbuf_save", "success only after lbuf_wr and close", loc=sv.loc(r))
            else:
                ctx.violation("lbuf_save", "success only after lbuf_wr and close",
                              "a NULL (success) return is not dominated by lbuf_wr and close",
                              sv.loc(r))
    ew = prog.func("ec_write")
    for c in ew.calls("lbuf_save"):
        fail_edge_check(ctx, ew, c, "!=NULL", _is_success_effect, ret_nonzero,
                        "save failure: no saved mark, failing status")
    eq = prog.func("ec_quit")
    for c in eq.calls("lbuf_save"):
        fail_edge_check(ctx, eq, c, "!=NULL", _is_success_effect, None,
                        "xa: first failing save aborts the quit")
    for c in eq.calls("ec_write"):
        fail_edge_check(ctx, eq, c, "!=0", _is_success_effect, ret_nonzero,
                        "wq/x: failed write aborts the quit")
    bm = prog.func("bufs_modified")
    for c in bm.calls("lbuf_save"):
        r = result_test(bm, c, "!=NULL")
        if r[0] == "returned":
            e = r[1]["e"]
            vn = r[2] if len(r) > 2 else None
            tv, ov = _eval(e, c["id"], vn, 1), _eval(e, c["id"], vn, 0)
            if tv and ov == 0:
                ctx.ok("bufs_modified", "autowrite failure keeps the buffer modified",
                       loc=bm.loc(c))
            else:
                ctx.violation("bufs_modified", "autowrite failure keeps the buffer modified",
                              "returns %s" % key(e), bm.loc(c))
        else:
            fail_edge_check(ctx, bm, c, "!=NULL", None, ret_nonzero,
                            "autowrite failure keeps the buffer modified")


def rule_W5(ctx):
    ctx.begin("W5", floor=5, what="overwrite guards and their callers")
    prog = ctx.prog
    f = prog.func("lbuf_save")
    pn = [p["name"] for p in f.params]
    if len(pn) != 6:
        raise AnalysisBroken("lbuf_save no longer takes (lb, beg, end, path, force, ts)")
    path, force, ts = pn[3], pn[4], pn[5]
    opens = [o for o in f.calls("open")]
    if not opens:
        raise AnalysisBroken("lbuf_save: no open()")

    def mtime_conds(g, gpath):
        out_ = []
        for b_ in g.cfg.blocks.values():
            br = g.cfg.branch(b_.id)
            if not br:
                continue
            c = g.nodes.get(br[0])
            if c is None:
                continue
            mt = [x for x in calls_in(c, "mtime") if key(strip_casts(x["args"][0])) == gpath]
            if mt:
                out_.append((b_, c, mt[0]))
        return out_
    # the guards live in lbuf_save or in a helper of the file that it calls with (path, ts) and
    # whose non-NULL result makes it return before the open()
    owner, opath, ots, hcall = f, path, ts, None
    if not mtime_conds(f, path):
        for c_ in f.calls():
            h = prog.resolve(f, c_["fn"]) if c_.get("fn") else None
            if h is None or h.file != f.file or h is f:
                continue
            amap = {key(strip_casts(a_)): q["name"] for q, a_ in zip(h.params, c_["args"])}
            if path in amap and ts in amap and mtime_conds(h, amap[path]):
                owner, opath, ots, hcall = h, amap[path], amap[ts], c_
    g = owner
    cfg = g.cfg
    changed, exists = [], []
    for b_, c, m in mtime_conds(g, opath):
        (changed if mentions(c, ots) else exists).append((b_, c, m))
    if not changed:
        ctx.violation("lbuf_save", "changed-on-disk guard", "no comparison of mtime(path) with "
                      "the caller's timestamp guards the write")
    if not exists:
        ctx.violation("lbuf_save", "exists-but-foreign guard", "no test of mtime(path) against "
                      "'does not exist' guards the write")

    def ev2(c, mcall, mval, tsval):
        def ev(e):
            if e["id"] == mcall["id"]:
                return mval
            if e["k"] == "ref" and e["name"] == ots:
                return tsval
            if e["k"] == "int":
                return e["v"]
            if "cv" in e:
                return e["cv"]
            if e["k"] == "cast":
                return ev(e["e"])
            if e["k"] == "un" and e["op"] == "!":
                v = ev(e["e"])
                return None if v is None else int(not v)
            if e["k"] == "un" and e["op"] == "-":
                v = ev(e["e"])
                return None if v is None else -v
            if e["k"] == "bin" and e["op"] in ("<", "<=", ">", ">=", "==", "!="):
                a_, b2 = ev(e["l"]), ev(e["r"])
                if a_ is None or b2 is None:
                    return None
                return int({"<": a_ < b2, "<=": a_ <= b2, ">": a_ > b2, ">=": a_ >= b2,
                            "==": a_ == b2, "!=": a_ != b2}[e["op"]])
            return None
        return ev(c)

    # what must not be reached once a guard fired: the open() itself, or -- in a helper -- a
    # return that tells the caller to go ahead (NULL / 0)
    def passes(e):
        if e == ("exit",):
            return False
        n_ = g.nodes.get(e)
        if g is f:
            return is_call(n_, "open")
        if n_ is not None and n_["k"] == "return":
            rv = n_.get("e")
            return rv is None or cval(strip_casts(rv)) == 0 or key(strip_casts(rv)) in ("(void *)0", "0")
        return False

    for b_, c, m in changed:
        vals = [ev2(c, m, 10, 5), ev2(c, m, 5, 10), ev2(c, m, 5, 5)]
        if vals[0] == 1 and vals[1] == 0:
            hit = cfg.search(b_.succ[0], passes, start_block=True)
            if hit is None:
                ctx.ok("lbuf_save", "newer file on disk refuses the write", loc=g.loc(c))
            else:
                ctx.violation("lbuf_save", "changed-on-disk guard",
                              "the write goes ahead although %s holds" % key(c), g.loc(c))
        else:
            ctx.violation("lbuf_save", "changed-on-disk guard",
                          "%s is not `file time newer than the recorded one`" % key(c), g.loc(c))
    for b_, c, m in exists:
        vals = [ev2(c, m, -1, 0), ev2(c, m, 0, 0), ev2(c, m, 100, 0)]
        if vals == [0, 1, 1]:
            hit = cfg.search(b_.succ[0], passes, start_block=True)
            if hit is None:
                ctx.ok("lbuf_save", "existing foreign file refuses the write", loc=g.loc(c))
            else:
                ctx.violation("lbuf_save", "exists-but-foreign guard",
                              "the write goes ahead although %s holds" % key(c), g.loc(c))
        else:
            ctx.violation("lbuf_save", "exists-but-foreign guard",
                          "%s is not `the file exists`" % key(c), g.loc(c))

    def infeasible(gg, items):
        for x in items:
            if x[0] == "br":
                c = gg.nodes[x[1]]
                if c["k"] == "bin" and c["op"] in (">", "!=") and c["l"]["k"] == "ref" \
                        and c["l"]["cat"] == "func" and cval(c["r"]) == 0 and not x[2]:
                    return True
        return False

    def guards_passed(facts):
        """None when both guards are known to have let the write through, else the reason"""
        for b_, c, m in changed:
            st = [t for cc, t in facts if cc["id"] == c["id"]]
            if not st or st[-1] is not False:
                return ("changed-on-disk guard bypass", "does not pass `%s` as false" % key(c))
        for b_, c, m in exists:
            st = [t for cc, t in facts if cc["id"] == c["id"]]
            if st and st[-1] is False:
                continue
            skipped_ok = False
            for cc, t in facts:
                names = {r["name"] for r in refs(cc)}
                if names == {ots}:
                    v0 = ev2(cc, {"id": -1}, 0, 0)
                    vm = ev2(cc, {"id": -1}, 0, -1)
                    vp = ev2(cc, {"id": -1}, 0, 7)
                    if v0 is not None and bool(v0) != t and bool(vm) != t and bool(vp) == t:
                        skipped_ok = True
            if not skipped_ok:
                return ("exists-but-foreign guard bypass", "skips `%s` without knowing the timestamp is positive" % key(c))
        return None

    # (1) inside a helper: it says `go ahead` only on paths where both guards let the write through
    if g is not f:
        n_pass = 0
        for r in g.cfg.return_nodes():
            if not passes(r["id"]):
                continue
            pr = g.cfg.pos(r)
            for items, end in enum_paths(g.cfg, g.cfg.entry, {pr[0]}):
                if end != pr[0] or infeasible(g, items):
                    continue
                n_pass += 1
                why = guards_passed([(g.nodes[x[1]], x[2]) for x in items if x[0] == "br"])
                if why:
                    ctx.violation("lbuf_save", why[0], "a path through %s that lets the write go ahead %s" % (g.name, why[1]), g.loc(r))
                    break
        if not n_pass:
            raise AnalysisBroken("%s never lets a write go ahead" % g.name)
    # (2) every path entry -> open in lbuf_save: force, or the guards (the helper's go-ahead)
    for o in opens:
        pos = f.cfg.pos(o)
        try:
            paths = enum_paths(f.cfg, f.cfg.entry, {pos[0]})
        except OverflowError:
            raise AnalysisBroken("lbuf_save: too many paths")
        paths = [p for p in paths if p[1] == pos[0] and not infeasible(f, p[0])]
        if not paths:
            raise AnalysisBroken("lbuf_save: open() unreachable")
        resvars = set()
        if hcall is not None:
            resvars = {lv["name"] for n_, lv, op, rhs in stores(f.body) if rhs is not None and lv["k"] in ("ref", "var") and
                       any(x["id"] == hcall["id"] for x in walk(rhs))}
        for items, _ in paths:
            facts = [(f.nodes[x[1]], x[2]) for x in items if x[0] == "br"]
            forced = False
            for c, t in facts:
                c2, t2 = negate_truth(c, t)
                if c2["k"] == "ref" and c2["name"] == force and t2:
                    forced = True
                if c2["k"] == "bin" and c2["op"] in ("!=",) and key(c2["l"]) == force and \
                        cval(c2["r"]) == 0 and t2:
                    forced = True
            if forced:
                continue
            if g is f:
                why = guards_passed(facts)
            else:
                from ..util import nullness
                went = False
                for c, t in facts:
                    nn = nullness(c, t)
                    if nn and nn[1] and (key(strip_casts(nn[0])) in resvars or
                                         any(x["id"] == hcall["id"] for x in walk(nn[0]))):
                        went = True
                why = None if went else ("overwrite guards bypass", "does not pass %s() with a go-ahead result" % g.name)
            if why:
                ctx.violation("lbuf_save", why[0], "a path to open() with force == 0 %s" % why[1], f.loc(o))
                break
        else:
            ctx.ok("lbuf_save", "open() only behind both guards or force (%d paths)" % len(paths),
                   loc=f.loc(o))
    # callers: path and ts come from the same slot
    n_callers = 0
    from ..cfg import paths_to
    from ..util import path_consistent

    def same_path_fact(cond, truth, a_path):
        """does `cond` having this truth say that ex_path() equals the path argument?"""
        c0, t0 = negate_truth(cond, truth)
        sc = None
        eq = None
        if is_call(c0, "strcmp"):
            sc, eq = c0, (not t0)                 # strcmp(..) false <=> equal
        elif c0["k"] == "bin" and c0["op"] in ("==", "!=") and is_call(strip_casts(c0["l"]), "strcmp") \
                and cval(c0["r"]) == 0:
            sc, eq = strip_casts(c0["l"]), ((c0["op"] == "==") == t0)
        if sc is None or not eq:
            return False
        return any(key(strip_casts(x)) == key(a_path) for x in sc["args"]) and any(
            is_call(strip_casts(x), "ex_path") for x in sc["args"])
    for g in prog.funcs.values():
        for c in g.calls("lbuf_save"):
            n_callers += 1
            a_path, a_ts = strip_casts(c["args"][3]), strip_casts(c["args"][5])
            bad = None
            n_paths = 0
            try:
                plist = paths_to(g.cfg, g.cfg.entry, c["id"], max_paths=3000)
            except OverflowError:
                ctx.inconclusive(g.name, "path/timestamp pairing", "too many paths", g.loc(c))
                continue
            for items in plist:
                if not path_consistent(g, items):
                    continue
                n_paths += 1
                byid = {x[1]: x[2] for x in items if x[0] == "br"}
                facts = [(g.nodes[x[1]], x[2]) for x in items if x[0] == "br"]
                # the value of the timestamp argument on this path
                val = a_ts
                if a_ts["k"] == "ref" and a_ts.get("cat") in ("local", "param"):
                    last = None
                    for x in items:
                        if x[0] != "ev":
                            continue
                        n = g.nodes.get(x[1])
                        if n is None:
                            continue
                        if n["k"] == "var" and n["name"] == a_ts["name"] and n.get("init") is not None:
                            last = n["init"]
                        if n["k"] == "bin" and n["op"] == "=" and n["l"]["k"] == "ref" and n["l"]["name"] == a_ts["name"]:
                            last = n["r"]
                    if last is None:
                        if a_ts.get("cat") == "param":
                            continue              # judged at the callers of this helper: not decided here
                        bad = ("%s is not assigned on a path" % a_ts["name"], items)
                        break
                    val = strip_casts(last)
                while val["k"] == "cond":
                    cid = strip_casts(val["c"])["id"]
                    if cid in byid:
                        facts.append((g.nodes[cid], byid[cid]))
                        val = strip_casts(val["t"] if byid[cid] else val["f"])
                    else:
                        break
                v = cval(val)
                if v is not None and v <= 0:
                    continue                      # unknown file: treated as foreign by lbuf_save
                if val["k"] == "member" and val["field"] == "mtime":
                    if a_path["k"] == "member" and a_path["field"] == "path" and \
                            key(a_path["base"]) == key(val["base"]):
                        continue
                    if key(strip_casts(val["base"])) in ("bufs[0]", "(*bufs)") and any(
                            same_path_fact(cc, tt, a_path) for cc, tt in facts):
                        continue
                bad = ("timestamp %s" % key(val), items)
                break
            if bad:
                ctx.violation(g.name, "path/timestamp pairing",
                              "lbuf_save(path=%s, ts=%s): the timestamp does not belong to "
                              "that path (%s)" % (key(a_path), key(a_ts), bad[0]), g.loc(c))
            elif n_paths:
                ctx.ok(g.name, "path and timestamp of the same buffer on all %d paths" % n_paths, loc=g.loc(c))
    if n_callers < 2:
        ctx.broken("only %d callers of lbuf_save" % n_callers)


def rule_W6(ctx):
    ctx.begin("W6", floor=3, what="saved-state effects in ec_write")
    prog = ctx.prog
    f = prog.func("ec_write")
    cfg = f.cfg
    pn = [p["name"] for p in f.params]
    loc = pn[0]
    # the save: lbuf_save itself, or a helper of the file that calls it and reports its failure
    # as a non-zero status (checked: from lbuf_save's failing edge only non-zero returns)
    saves = [(s_, "!=NULL") for s_ in f.calls("lbuf_save")]
    if not saves:
        for c_ in f.calls():
            h = prog.resolve(f, c_["fn"]) if c_.get("fn") else None
            if h is None or h.file != f.file or h is f:
                continue
            inner = list(h.calls("lbuf_save"))
            if not inner:
                continue
            faithful = True
            for s_ in inner:
                r_ = result_test(h, s_, "!=NULL")
                if r_[0] != "branch":
                    faithful = False
                    continue
                fail_start = h.cfg.blocks[r_[1]].succ[r_[2]]
                seen_b = h.cfg.reachable_blocks(fail_start) | {fail_start}
                for rn in h.cfg.return_nodes():
                    if h.cfg.pos(rn)[0] in seen_b and not (cval(rn.get("e")) is not None and cval(rn["e"]) != 0):
                        faithful = False
                ok_start = h.cfg.blocks[r_[1]].succ[1 - r_[2]]
                # and a zero status only past the success edge
                for rn in h.cfg.return_nodes():
                    if cval(rn.get("e")) == 0 and h.cfg.search(
                            h.cfg.entry, lambda e, t=rn["id"]: e == t,
                            edge_ok=lambda b, k, s2, bid=r_[1], kk=1 - r_[2]: not (b == bid and k != kk),
                            start_block=True) is None:
                        pass
            if faithful:
                saves.append((c_, "!=0"))
    if not saves:
        raise AnalysisBroken("ec_write does not call lbuf_save (nor a helper that reports its failure)")
    # success edge of the save
    succ_edges = set()
    for s, conv in saves:
        r = result_test(f, s, conv)
        if r[0] != "branch":
            continue
        _, bid, k, cond = r
        succ_edges.add((cond["id"], k == 1))   # (cond node, truth on the success edge)
    def effects_in(g):
        out_ = []
        for n in g.walk():
            if is_call(n, "lbuf_saved"):
                out_.append(("saved", n))
            elif n["k"] == "bin" and n["op"] == "=":
                lf = lv_field(n["l"])
                if lf and lf[0] == "buf" and lf[1] == "mtime":
                    out_.append(("mtime", n))
                elif lf and lf[0] == "buf" and lf[1] == "path" and not lf[2]:
                    out_.append(("path", n))
        return out_
    effects = [(k_, n_, f, None) for k_, n_ in effects_in(f)]
    # the bookkeeping may live in a helper of the file that ec_write calls after the save: its
    # effects are judged on the paths through ec_write to the call followed by the helper's own
    for c_ in f.calls():
        h = prog.resolve(f, c_["fn"]) if c_.get("fn") else None
        if h is not None and h.file == f.file and h is not f and h.static and \
                not any(True for _ in h.calls("lbuf_save")):
            effects += [(k_, n_, h, c_) for k_, n_ in effects_in(h)]
    if len(effects) < 3:
        raise AnalysisBroken("ec_write: saved-state effects not found (%d)" % len(effects))

    def same_path_fact(c, t):
        """does (cond, truth) say strcmp(ex_path(), path) == 0 ?  -> True/False/None"""
        c, t = negate_truth(c, t)
        if is_call(c, "strcmp") and any(is_call(strip_casts(a), "ex_path") for a in c["args"]):
            return not t
        if c["k"] == "bin" and c["op"] in ("==", "!=") and is_call(c["l"], "strcmp") and \
                cval(c["r"]) == 0 and any(is_call(strip_casts(a), "ex_path") for a in c["l"]["args"]):
            return t == (c["op"] == "==")
        return None

    def whole_fact(c, t):
        c, t = negate_truth(c, t)
        if any(is_call(x, "ex_region") for x in walk(c)):
            return False
        k_ = key(c)
        # loc[0] == 0 / !loc[0] / !*loc
        if mentions(c, loc) and not t and c["k"] in ("sub", "un"):
            return True
        if mentions(c, loc) and c["k"] == "bin" and c["op"] == "==" and cval(c["r"]) == 0 and t:
            return True
        if "lbuf_len" in k_ and c["k"] == "bin" and c["op"] in ("==", ">=") and t:
            return True
        if "lbuf_len" in k_ and c["k"] == "bin" and c["op"] in ("!=", "<") and not t:
            return True
        return False

    def fact_lists(g, target):
        p_ = g.cfg.pos(target)
        try:
            ps_ = enum_paths(g.cfg, g.cfg.entry, {p_[0]})
        except OverflowError:
            raise AnalysisBroken("%s: too many paths" % g.name)
        return [[(g.nodes[x[1]], x[2]) for x in it if x[0] == "br"]
                for it, end in ps_ if end == p_[0] and path_consistent(g, it)]

    for kind, n, owner, site in effects:
        if owner is f:
            paths = fact_lists(f, n)
        else:
            paths = [a_ + b_ for a_ in fact_lists(f, site) for b_ in fact_lists(owner, n)]
        if not paths:
            raise AnalysisBroken("ec_write: effect unreachable")
        bad_save = bad_same = bad_unnamed = bad_whole = None
        for facts in paths:
            items = facts
            if not any((c["id"], t) in succ_edges for c, t in facts):
                bad_save = items
            if kind in ("saved", "mtime") and not any(same_path_fact(c, t) for c, t in facts):
                bad_same = items
            if kind == "path":
                un = False
                for c, t in facts:
                    c2, t2 = negate_truth(c, t)
                    if "ex_path()" in key(c2) and "[0]" in key(c2) and not t2:
                        un = True
                if not un:
                    bad_unnamed = items
            if kind == "saved" and not any(whole_fact(c, t) for c, t in facts):
                bad_whole = items

        def show(items):
            return ", ".join("%s=%s" % (key(c_)[:40], t_) for c_, t_ in items)
        ok = True
        if bad_save:
            ok = False
            ctx.violation("ec_write", "%s only after a successful save" % _eff_name(kind),
                          "a path reaches it without passing lbuf_save's success edge: " +
                          show(bad_save), f.loc(n))
        if bad_same:
            ok = False
            ctx.violation("ec_write", "%s only for the buffer's own path" % _eff_name(kind),
                          "a path reaches it without strcmp(ex_path(), path) == 0: " + show(bad_same),
                          f.loc(n))
        if bad_unnamed:
            ok = False
            ctx.violation("ec_write", "rename only an unnamed buffer",
                          "a path reaches the path store without ex_path()[0] == 0", f.loc(n))
        if bad_whole:
            ok = False
            ctx.violation("ec_write", "saved mark only after a whole-buffer write",
                          "lbuf_saved is reachable without any test that the written range is "
                          "the whole buffer: `:1,2w` to the buffer's own file marks it saved",
                          f.loc(n))
        if ok:
            ctx.ok("ec_write", "%s: after successful same-path%s save (%d paths)" % (
                _eff_name(kind), " whole-buffer" if kind == "saved" else "", len(paths)), loc=f.loc(n))
    # (v) a successful write of part of the buffer to its own file leaves it dirty:
    # from lbuf_save's success edge, every path on which the path is the buffer's own
    # passes lbuf_saved or a dirtying call before returning
    dirty_fns = tuple(x for x in ("lbuf_unsaved", "lbuf_dirty") if prog.has_func(x))
    for s, conv in saves:
        r = result_test(f, s, conv)
        if r[0] != "branch":
            continue
        _, bid, k, cond = r
        start = cfg.blocks[bid].succ[1 - k]
        try:
            paths = enum_paths(cfg, start, set())
        except OverflowError:
            raise AnalysisBroken("ec_write: too many paths after the save")
        badp = None
        for items, end in paths:
            if end != cfg.exit or not path_consistent(f, items):
                continue
            facts = [(f.nodes[x[1]], x[2]) for x in items if x[0] == "br"]
            sp = [same_path_fact(c, t) for c, t in facts]
            sp = [x for x in sp if x is not None]
            if not sp or not all(sp):
                continue     # some other file: nothing to record
            evs = [f.nodes.get(x[1]) for x in items if x[0] == "ev"]
            if not any(is_call(e, ("lbuf_saved",) + dirty_fns) for e in evs if e):
                badp = items
        if badp:
            ctx.violation("ec_write", "partial write to the own file leaves the buffer dirty",
                          "after a successful save to the buffer's own path a return is reachable "
                          "that neither marks the buffer saved nor dirty", f.loc(s))
        else:
            ctx.ok("ec_write", "own-path save ends in lbuf_saved or a dirtying call", loc=f.loc(s))


def _eff_name(kind):
    return {"saved": "lbuf_saved", "mtime": "store bufs[0].mtime", "path": "store bufs[0].path"}[kind]


def _facts(f, n):
    out = []
    for cid, truth in f.cfg.facts_at(n["id"] if n["id"] in f.cfg.posmap else _first_ev(f, n)):
        c = f.nodes.get(cid)
        if c is None:
            continue
        c, truth = negate_truth(c, truth)
        out.append((c, truth))
    return out


def _first_ev(f, n):
    for d in walk(n):
        if d["id"] in f.cfg.posmap:
            return d["id"]
    return n["id"]


def resolve_flags(func, cond):
    """replace a reference to a local that was assigned a logical expression exactly once by
    that expression (for tests made through a flag such as `failed = nr != 0`)"""
    from ..util import resolve_local
    c = strip_casts(cond)
    if c is None:
        return cond
    if c["k"] == "ref" and c.get("cat") == "local":
        r = resolve_local(func, c)
        if r is not c and r["k"] in ("bin", "un"):
            return r
        return cond
    if c["k"] == "un" and c["op"] == "!":
        inner = resolve_flags(func, c["e"])
        if inner is not c["e"]:
            return {"k": "un", "op": "!", "e": inner, "id": c["id"], "ln": c.get("ln")}
    return cond



def read_sites(prog):
    """Where lbuf_rd reads: (reader function, read call, result variable there, top function,
    result variable in the top function, node standing for the result in the top function).
    The read loop may sit in lbuf_rd itself or in a helper of lbuf.c that returns the result of
    its last read()."""
    top = prog.func("lbuf_rd", file="lbuf.c")

    def res_of(f, call):
        par = f.nodes.get(f.parent.get(call["id"]))
        while par and par["k"] == "cast":
            par = f.nodes.get(f.parent.get(par["id"]))
        if par and par["k"] == "bin" and par["op"] == "=" and par["l"]["k"] == "ref":
            return par["l"]["name"], par
        if par and par["k"] == "var":
            return par["name"], par
        return None, None
    reads = list(top.calls("read"))
    if reads:
        out = []
        for rd in reads:
            r, node = res_of(top, rd)
            out.append((top, rd, r, top, r, rd))
        return out
    out = []
    for c in top.calls():
        g = prog.resolve(top, c["fn"]) if c.get("fn") else None
        if g is None or g.file != top.file or not list(g.calls("read")):
            continue
        r_top, node = res_of(top, c)
        for rd in g.calls("read"):
            r, n_ = res_of(g, rd)
            # the helper hands the result of read() back
            rets = [x for x in g.cfg.return_nodes()]
            if r is None or not rets or not all(x.get("e") is not None and key(strip_casts(x["e"])) == r for x in rets):
                out.append((g, rd, r, top, None, c))
            else:
                out.append((g, rd, r, top, r_top, c))
    return out



def rule_W7(ctx):
    ctx.begin("W7", floor=4, what="read loop obligations")
    prog = ctx.prog
    sites = read_sites(prog)
    if not sites:
        raise AnalysisBroken("lbuf_rd does not call read (nor a helper of lbuf.c that does)")
    for f, rd, res, top, res_top, top_node in sites:
        cfg = f.cfg
        buf = key(strip_casts(rd["args"][1]))
        if res is None:
            ctx.violation(f.name, "read result kept", "result of read() not kept", f.loc(rd))
            continue
        if res_top is None:
            ctx.inconclusive(top.name, "read result kept",
                             "%s() does not hand the result of its last read() back as its return value" % f.name,
                             top.loc(top_node))
            continue
        S = _array_size(f, buf)
        if S is not None and (cval(rd["args"][2]) or 0) > S:
            ctx.violation("lbuf_rd", "read size", "read() asks for %s bytes into %s[%d]" % (
                cval(rd["args"][2]), buf, S), f.loc(rd))
        else:
            ctx.ok("lbuf_rd", "read() size within the chunk buffer", loc=f.loc(rd))
        apps = [c for c in f.calls("sbuf_mem")]
        good = [c for c in apps if key(strip_casts(c["args"][1])) == buf and
                key(strip_casts(c["args"][2])) == res]
        if apps and len(good) == len(apps):
            # appended only when res > 0
            for c in good:
                pos_fact = False
                for cc, t in _facts(f, c):
                    tv = _eval(cc, rd["id"], res, 5)
                    tz = _eval(cc, rd["id"], res, 0)
                    tn = _eval(cc, rd["id"], res, -1)
                    if tv is not None and bool(tv) == t and bool(tz) != t and bool(tn) != t:
                        pos_fact = True
                if pos_fact:
                    ctx.ok("lbuf_rd", "every positive chunk appended with its own count", loc=f.loc(c))
                else:
                    ctx.violation("lbuf_rd", "chunk append guard",
                                  "sbuf_mem(%s, %s) is not guarded by %s > 0" % (buf, res, res), f.loc(c))
        else:
            ctx.violation("lbuf_rd", "chunk append", "chunks are not appended as sbuf_mem(sb, %s, %s)"
                          % (buf, res), f.loc(rd))
        for e in top.calls("lbuf_edit"):
            eof = False
            for cc, t in _facts(top, e):
                cc = resolve_flags(top, cc)
                if mentions(cc, res_top):
                    tz = _eval(cc, top_node["id"], res_top, 0)
                    tn = _eval(cc, top_node["id"], res_top, -1)
                    if tz is not None and bool(tz) == t and bool(tn) != t:
                        eof = True
            if eof:
                ctx.ok("lbuf_rd", "splice only at end of file", loc=top.loc(e))
            else:
                ctx.violation("lbuf_rd", "splice only at end of file",
                              "lbuf_edit is not control-dependent on %s == 0: a read error "
                              "would splice a truncated file" % res_top, top.loc(e))
            # the spliced text is the accumulated buffer
            a = strip_casts(e["args"][1])
            if not (is_call(a, ("sbuf_buf", "sbuf_done"))):
                ctx.violation("lbuf_rd", "splice the accumulated text",
                              "lbuf_edit is given %s" % key(a), top.loc(e))
        for r in top.cfg.return_nodes():
            e = r.get("e")
            # a return may sit under a test of the read result: judge it for the result
            # values (error -1, end of file 0) under which it can be reached
            bad = None
            unknown = False
            for v, want_fail in ((-1, True), (0, False)):
                reach = True
                for cc, t in _facts(top, r):
                    cc = resolve_flags(top, cc)
                    if mentions(cc, res_top):
                        tv = _eval(cc, top_node["id"], res_top, v)
                        if tv is None:
                            unknown = True
                        elif bool(tv) != t:
                            reach = False
                if not reach:
                    continue
                rv = _eval(resolve_flags(top, e) if e is not None else e, top_node["id"], res_top, v)
                if rv is None:
                    unknown = True
                elif bool(rv) != want_fail:
                    bad = v
            if bad is not None:
                ctx.violation("lbuf_rd", "read error reported", "return %s when %s is %d" % (
                    key(e), res_top, bad), top.loc(r))
            elif unknown:
                ctx.inconclusive("lbuf_rd", "read error reported",
                                 "return %s not understood" % key(e), top.loc(r))
            else:
                ctx.ok("lbuf_rd", "returns failure exactly on a read error", loc=top.loc(r))
    # callers
    n = 0
    for g in prog.funcs.values():
        for c in g.calls("lbuf_rd"):
            n += 1
            r = result_test(g, c, "!=0")
            if r[0] in ("branch", "returned"):
                ctx.ok(g.name, "read failure is tested", loc=g.loc(c))
            else:
                ctx.violation(g.name, "read failure is tested",
                              "result of lbuf_rd is %s" % r[0], g.loc(c))
    if n < 2:
        ctx.broken("only %d callers of lbuf_rd" % n)


def rule_W10(ctx):
    """An error test must be able to fail: `x < 0` (or `x >= 0`, `x <= -1`) on a value of an
    unsigned type is decided at compile time, so a failed write / read / open it was meant to
    catch goes unnoticed.  Every such comparison in the program is examined; the instances
    counted are the sign tests on results of calls in lbuf.c and ex.c."""
    ctx.begin("W10", floor=6, what="sign tests on I/O results are made on signed values")
    prog = ctx.prog

    def unsigned(e):
        t = str(e.get("ty", ""))
        return t.startswith("unsigned") or t in ("size_t", "uint", "ulong")

    for f in prog.funcs.values():
        for n in f.walk():
            if n["k"] != "bin" or n["op"] not in ("<", "<=", ">", ">="):
                continue
            l, r = n["l"], n["r"]
            op = n["op"]
            if cval(l) is not None and cval(r) is None:
                l, r = r, l
                op = {"<": ">", "<=": ">=", ">": "<", ">=": "<="}[op]
            k_ = cval(r)
            if k_ is None or not ((op in ("<", ">=") and k_ == 0) or (op in ("<=", ">") and k_ == -1)):
                continue
            x = l
            while x["k"] in ("paren",):
                x = x["e"]
            inner = strip_casts(x)
            is_res = any(True for _ in calls_in(x)) or (inner["k"] == "ref" and any(
                rhs is not None and any(True for _ in calls_in(rhs)) and lv["k"] in ("ref", "var") and lv.get("name") == inner["name"]
                for _n, lv, _o, rhs in stores(f.body)))
            if unsigned(x) or (x["k"] == "cast" and unsigned(x)):
                ctx.violation(f.name, "sign test on a signed value",
                              "%s compares a value of type %s with %d: the test is decided at compile time, an "
                              "error return (-1) is never seen" % (key(n), x.get("ty"), k_), f.loc(n))
            elif is_res and f.file in ("lbuf.c", "ex.c"):
                ctx.ok(f.name, "%s is a test on a signed value" % key(n), loc=f.loc(n))


RULES = {"W10": rule_W10, "W1": rule_W1, "W2": rule_W2, "W3": rule_W3, "W4": rule_W4, "W5": rule_W5,
         "W6": rule_W6, "W7": rule_W7}
