"""Small structural clauses added after the fourth round of independent breaking changes
(DESIGN.md section 7.2).  Same alarm policy as everywhere."""
from ..absint import Interp, Ptr, OverRead, Unsupported, OPAQUE
from ..cfg import paths_to
from ..facts import AnalysisBroken, walk, key, cval
from ..lin import Lin
from ..util import (fact_list, stores, lv_field, is_call, calls_in, refs, strip_casts, negate_truth, flatten_and,
                    flatten_or, enclosing, resolve_local, path_consistent, nullness)
from .w import _facts


def rule_M5(ctx):
    """ex_kwdset records the direction on every path, also when no keyword is given: an empty
    `?` after `/pat` re-aims the remembered pattern."""
    ctx.begin("M5", floor=1, what="search direction stored by ex_kwdset")
    prog = ctx.prog
    f = prog.func("ex_kwdset", file="ex.c")
    dirp = f.params[1]["name"]
    sts = [n for n, lv, op, rhs in stores(f.body)
           if lv["k"] == "ref" and lv.get("cat") in ("global", "sglobal", "static") and op == "=" and
           rhs is not None and key(strip_casts(rhs)) == dirp]
    if not sts:
        raise AnalysisBroken("ex_kwdset: store of the direction not found")
    # every path to the exit passes one of them
    hit = f.cfg.search(f.cfg.entry, lambda e: e == ("exit",), avoid=lambda e: any(e == s_["id"] for s_ in sts),
                       start_block=True)
    if hit is not None:
        ctx.violation("ex_kwdset", "direction recorded on every path",
                      "a path through ex_kwdset returns without storing the direction (the caller passes a "
                      "NULL keyword for `/<Enter>` and `?<Enter>` to change the direction only)", f.loc(sts[0]))
    else:
        ctx.ok("ex_kwdset", "the direction is stored on every path, with or without a keyword", loc=f.loc(sts[0]))


def rule_L6(ctx):
    """rstr_find hands a pattern with operators to the set matcher before it looks at any of the
    literal classifier's fields (they are stale for such a pattern)."""
    ctx.begin("L6", floor=1, what="delegation precedes the literal-path tests in rstr_find")
    prog = ctx.prog
    f = prog.func("rstr_find", file="rstr.c")
    pn = f.params[0]["name"]
    n = 0
    for r in f.cfg.return_nodes():
        e = strip_casts(r.get("e")) if r.get("e") is not None else None
        if e is not None and is_call(e, "rset_find"):
            continue
        n += 1
        okr = False
        for c, t in _facts(f, r):
            nn = nullness(c, t)
            if nn is not None and nn[0]["k"] == "member" and nn[0]["field"] == "rs" and nn[1]:
                okr = True
        if okr:
            ctx.ok("rstr_find", "a literal-path return only when the pattern has no compiled set", loc=f.loc(r))
        else:
            ctx.violation("rstr_find", "patterns with operators go to the regex engine",
                          "`return %s` is reachable while %s->rs is set: the anchor flags left by the "
                          "classifier decide the answer for a pattern it gave up on (e.g. ^a|b with RE_NOTBOL)" % (
                              key(e) if e is not None else "", pn), f.loc(r))
    if not n:
        raise AnalysisBroken("rstr_find: no literal-path return")


def rule_P3(ctx):
    """No use of a local alias after the block it points to was freed (same function)."""
    ctx.begin("P3", floor=2, what="frees with a live local alias")
    prog = ctx.prog
    n_free = 0
    for f in prog.funcs.values():
        if f.file in ("stag.c",):
            continue
        for c in f.calls("free"):
            n_free += 1
            a = strip_casts(c["args"][0])
            ka = key(a)
            # locals assigned from the freed expression (also through `x ? x : ..`) before the free
            aliases = []
            for n, lv, op, rhs in stores(f.body):
                if op not in ("=", "init") or rhs is None or lv["k"] not in ("ref", "var"):
                    continue
                nm = lv["name"]
                if nm == ka or lv.get("cat") not in ("local", None) and lv["k"] != "var":
                    continue
                r = strip_casts(rhs)
                srcs = [r]
                if r["k"] == "cond":
                    srcs = [strip_casts(r["t"]), strip_casts(r["f"])]
                if not any(key(x) == ka for x in srcs) or a["k"] == "ref" and a.get("cat") == "local" and False:
                    continue
                if f.cfg.pos(n) is None or f.cfg.pos(c) is None:
                    continue
                if f.cfg.search(f.cfg.pos(n), lambda e, t=c["id"]: e == t) is None:
                    continue
                aliases.append((nm, n))
            bad = None
            for nm, def_n in aliases:
                rebinds = {x["id"] for x, lv, op, rhs in stores(f.body)
                           if lv["k"] in ("ref", "var") and lv.get("name") == nm and x["id"] != def_n["id"]}
                # the freed expression itself may be re-bound in between (free(p); p = dup(..)): the
                # alias still points to the old block
                for u in f.walk():
                    if u["k"] != "ref" or u["name"] != nm:
                        continue
                    if any(x["id"] == u["id"] for x in walk(c)):
                        continue
                    par = f.nodes.get(f.parent.get(u["id"]))
                    if par is not None and par["k"] == "bin" and par["op"] == "=" and par["l"]["id"] == u["id"]:
                        continue
                    pu = f.cfg.pos(u)
                    if pu is None:
                        continue
                    if f.cfg.search(f.cfg.pos(c), lambda e, t=u["id"]: e == t,
                                    avoid=lambda e: e in rebinds) is not None and \
                            f.cfg.search(f.cfg.pos(def_n), lambda e, t=c["id"]: e == t,
                                         avoid=lambda e: e in rebinds) is not None:
                        # only a dereferencing / passing use counts, not a null test
                        if par is not None and par["k"] == "un" and par["op"] == "!":
                            continue
                        bad = (nm, u)
            if bad:
                ctx.violation(f.name, "no use of an alias after free",
                              "`%s` was assigned from %s, which is freed here, and is used afterwards: it "
                              "points into freed memory" % (bad[0], ka), f.loc(bad[1]))
            elif aliases:
                ctx.ok(f.name, "free(%s): its local alias is not used afterwards" % ka[:30], loc=f.loc(c))
    if n_free < 10:
        raise AnalysisBroken("only %d free() calls" % n_free)
    ctx.ok("*", "%d free() calls examined for live aliases" % n_free)


def rule_X9(ctx):
    """A descriptor written from inside a poll() loop together with reads of the child's output
    is non-blocking: otherwise one write() of the whole input can block while the child blocks
    on its own output (a deadlock for inputs larger than the pipe)."""
    ctx.begin("X9", floor=1, what="pipe written inside a poll loop")
    prog = ctx.prog
    f = prog.func("cmd_pipe", file="cmd.c")
    n = 0
    for w in f.calls("write"):
        lp = enclosing(f, w["id"], ("while", "for", "do"))
        if lp is None or not any(is_call(x, "poll") for x in walk(lp)):
            continue
        if not any(is_call(x, "read") for x in walk(lp)):
            continue
        n += 1
        nb = None
        for c in f.calls("fcntl"):
            if len(c["args"]) >= 3 and any((cval(x) or 0) & 0o4000 and x["k"] != "sizeof"
                                             for x in walk(c["args"][2])) and f.cfg.dominates(c, lp["c"] if lp.get("c") else w):
                nb = c
        if nb is not None:
            ctx.ok("cmd_pipe", "the pipe to the child is set O_NONBLOCK before the poll loop", loc=f.loc(nb))
        else:
            ctx.violation("cmd_pipe", "pipe to the child is non-blocking",
                          "the loop polls for the child's output and writes its input, but no "
                          "fcntl(.., F_SETFL, .. | O_NONBLOCK) precedes it: a write larger than the pipe "
                          "blocks while the child blocks on its output", f.loc(w))
    if not n:
        raise AnalysisBroken("cmd_pipe: poll loop with write and read not found")


def rule_U6(ctx):
    """linecount() counts what the splice loop stores: a final line without a newline is a line."""
    ctx.begin("U6", floor=1, what="line count of a text")
    prog = ctx.prog
    f = prog.func("linecount", file="lbuf.c")
    bad = None
    n = 0
    for txt, want in ((b"", 0), (b"a", 1), (b"a\n", 1), (b"a\nb", 2), (b"a\nb\n", 2), (b"\n", 1), (b"\n\n", 2),
                      (b"ab\ncd\nef", 3)):
        try:
            v = Interp(prog).call(f, [Ptr(tuple(txt) + (0,))])
        except (Unsupported, OverRead) as e:
            raise AnalysisBroken("linecount not evaluable: %s" % e)
        n += 1
        if v != want and bad is None:
            bad = (txt, v, want)
    try:
        v0 = Interp(prog).call(f, [None])
    except (Unsupported, OverRead):
        v0 = 0
    if v0 != 0 and bad is None:
        bad = (b"(null)", v0, 0)
    if bad:
        ctx.violation("linecount", "a text's line count includes an unterminated last line",
                      "linecount(%r) is %r, expected %d: a file whose last line has no newline loses that "
                      "line when it is spliced in (and the edit log records the wrong count)" % (
                          bad[0].decode(), bad[1], bad[2]), f.loc(f.body))
    else:
        ctx.ok("linecount", "%d texts with and without a final newline counted as the splice loop stores them" % n)


def rule_T7(ctx):
    """vi_case changes bytes of the text in place: only under a test that the byte is ASCII."""
    ctx.begin("T7", floor=1, what="in-place case changes")
    prog = ctx.prog
    f = prog.func("vi_case", file="vi.c")
    n = 0
    for s_, lv, op, rhs in stores(f.body):
        if not (lv["k"] == "sub" or (lv["k"] == "un" and lv["op"] == "*")):
            continue
        def changes_case(x):
            if is_call(x, ("toupper", "tolower")) or (x["k"] == "bin" and x["op"] == "^"):
                return True
            if x["k"] == "call" and x.get("fn"):
                h_ = prog.resolve(f, x["fn"])
                return h_ is not None and h_.file == f.file and any(True for _ in h_.calls(("toupper", "tolower")))
            return False
        if rhs is None or not any(changes_case(x) for x in walk(rhs)):
            continue
        n += 1
        okg = False
        for c, t in _facts(f, s_):
            c0 = strip_casts(resolve_local(f, c)) if c["k"] == "ref" else c
            if c0["k"] == "bin" and c0["op"] in ("<=", "<") and t and cval(c0["r"]) is not None and \
                    cval(c0["r"]) + (1 if c0["op"] == "<=" else 0) <= 0x80:
                okg = True
            if c0["k"] == "bin" and c0["op"] in (">", ">=") and not t and cval(c0["r"]) is not None and \
                    cval(c0["r"]) + (0 if c0["op"] == ">=" else 1) <= 0x80:
                okg = True
            if is_call(c0, "isascii") and t:
                okg = True
        if okg:
            ctx.ok("vi_case", "byte rewritten only when it is ASCII", loc=f.loc(s_))
        else:
            ctx.violation("vi_case", "case change keeps the text valid UTF-8",
                          "`%s` rewrites a byte of the text without a dominating test that it is below 0x80: "
                          "the lead byte of a multi-byte character is changed" % key(s_)[:50], f.loc(s_))
    if not n:
        raise AnalysisBroken("vi_case: in-place case store not found")


def rule_T8(ctx):
    """led_readchar returns its static buffer only after terminating what it just stored: it is
    evaluated abstractly with the buffer holding the remains of an earlier, longer character
    (every byte non-zero) for the literal-next key and for each length class of lead byte; the
    byte after the last one read must be NUL."""
    ctx.begin("T8", floor=2, what="returns of the static input buffer")
    prog = ctx.prog
    f = prog.func("led_readchar", file="led.c")
    n = 0
    for c, nread in ((0x16, 1), (0xc3, 1), (0xe2, 2), (0xf0, 3)):
        reads = []

        def term_read(ip, fn, e, args, env):
            reads.append(1)
            return 0x80 + len(reads)
        try:
            v = Interp(prog, hooks={"term_read": term_read}, static_fill=0x41).call(f, [c, 0])
        except (Unsupported, OverRead) as e:
            raise AnalysisBroken("led_readchar not evaluable: %s" % e)
        if isinstance(v, dict):
            got = [v.get(i) for i in range(8)]
        elif isinstance(v, Ptr):
            got = [v.read(i) for i in range(8)]
        else:
            raise AnalysisBroken("led_readchar: result for key 0x%02x not a buffer" % c)
        n += 1
        end = (0 if c == 0x16 else 1) + len(reads)
        if end >= len(got) or got[end] != 0:
            ctx.violation("led_readchar", "the returned buffer is terminated",
                          "for the key 0x%02x (%d more byte%s read) the buffer that is returned holds %s: no NUL after "
                          "what was just stored, the tail of the previous, longer character is still there" % (
                              c, len(reads), "" if len(reads) == 1 else "s", got), f.loc(f.body))
            return
    ctx.ok("led_readchar", "the byte after the last one stored is NUL for the literal-next key and the three "
           "multi-byte length classes, whatever the buffer held before")
    ctx.ok("led_readchar", "%d keys evaluated" % n)


def rule_S6(ctx):
    """ex_arg, evaluated abstractly: an escaped delimiter does not end a part of the substitute
    argument, so `|` inside the replacement stays part of it."""
    ctx.begin("S6", floor=1, what="argument split of the substitute command")
    prog = ctx.prog
    f = prog.func("ex_arg", file="ex.c")
    cases = [
        (b"/a\\/b/X|Y/g\n", b"s", 12, "an escaped delimiter is not a delimiter"),
        (b"/a/X|Y/g\n", b"s", 9, "`|` inside the replacement belongs to it"),
        (b"/a/b/|p\n", b"s", 5, "after the third delimiter `|` ends the command"),
        (b"/a/b/g|p\n", b"s", 6, "flags end at `|`"),
    ]
    bad = None
    n = 0
    for src, cmd, want, why in cases:
        try:
            r = Interp(prog).call(f, [Ptr(tuple(src) + (0,)), {}, Ptr(tuple(cmd) + (0,))])
        except (Unsupported, OverRead) as e:
            raise AnalysisBroken("ex_arg not evaluable: %s" % e)
        n += 1
        got = r.off if isinstance(r, Ptr) else None
        # the scanner may also step over the `|` it stopped at
        if got not in (want, want + 1) and bad is None:
            bad = (src, got, want, why)
    if bad:
        ctx.violation("ex_arg", "escaped delimiters and `|` in a substitute argument",
                      "for `:s%s` the argument ends at offset %s instead of %d (%s)" % (
                          bad[0].decode().rstrip("\n"), bad[1], bad[2], bad[3]), f.loc(f.body))
    else:
        ctx.ok("ex_arg", "%d substitute arguments with escaped delimiters and `|` split as the reference says" % n)


def rule_S7(ctx):
    """Stored text (a register, a script) is executed through ex_command(); a register or file
    that runs itself would recurse without bound.  ex_command reaches ex_exec only under a test
    of a static nesting counter against a constant, with the counter raised before and lowered
    after the call on every path."""
    ctx.begin("S7", floor=1, what="nesting of stored command text")
    prog = ctx.prog
    f = prog.func("ex_command", file="ex.c")
    calls = list(f.calls("ex_exec"))
    if not calls:
        # the nesting limit may live in a helper of the file that ex_command calls
        for c_ in f.calls():
            h_ = prog.resolve(f, c_["fn"]) if c_.get("fn") else None
            if h_ is not None and h_.file == f.file and h_ is not f and any(True for _ in h_.calls("ex_exec")):
                f = h_
                calls = list(f.calls("ex_exec"))
                break
    cfg = f.cfg
    if not calls:
        raise AnalysisBroken("ex_command does not call ex_exec")
    # is there a cycle at all?  (a handler that calls ex_command back)
    back = [g.name for g in prog.funcs.values() if g.file == "ex.c" and g.name != "ex_command" and
            any(True for _ in g.calls("ex_command")) and prog.cg.reaches(prog.func("ex_exec"), [g.name], stop=set())]
    if not back:
        ctx.ok("ex_command", "no handler re-enters ex_command")
        return
    for c in calls:
        guard = None
        for cid, t in cfg.facts_at(c["id"]):
            cc = f.nodes.get(cid)
            if cc is None or cc["k"] != "bin" or cc["op"] not in ("<", "<=", ">", ">="):
                continue
            l, r = strip_casts(cc["l"]), strip_casts(cc["r"])
            var, K = None, None
            if l["k"] == "ref" and cval(r) is not None and l.get("cat") != "param":
                var, K, lt = l["name"], cval(r), cc["op"] in ("<", "<=")
            elif r["k"] == "ref" and cval(l) is not None and r.get("cat") != "param":
                var, K, lt = r["name"], cval(l), cc["op"] in (">", ">=")
            if var and lt == t:
                guard = (var, K)
        if guard is None:
            ctx.violation("ex_command", "nested command text is depth-limited",
                          "%s execute stored text through ex_command(), which calls ex_exec() without a test "
                          "of a nesting counter: a register or script that runs itself recurses until the "
                          "stack overflows" % ", ".join(sorted(back)), f.loc(c))
            continue
        var, K = guard
        incs = [n for n, lv, op, rhs in stores(f.body) if lv["k"] == "ref" and lv["name"] == var
                and op in ("post++", "pre++")]
        decs = [n for n, lv, op, rhs in stores(f.body) if lv["k"] == "ref" and lv["name"] == var
                and op in ("post--", "pre--")]
        if any(cfg.dominates(i_, c) for i_ in incs) and any(cfg.postdominates(d_, c) for d_ in decs):
            ctx.ok("ex_command", "ex_exec only while %s is below %d, raised before and lowered after the call "
                   "(%s re-enter)" % (var, K, ", ".join(sorted(back))), loc=f.loc(c))
        else:
            ctx.violation("ex_command", "nested command text is depth-limited",
                          "the nesting counter %s is tested but not raised before / lowered after ex_exec" % var,
                          f.loc(c))


def rule_B15(ctx):
    """reg_putln cuts the old history text in place so that hist lines remain.  Evaluated
    abstractly for hist = 1..4 over old texts of 0..4 lines (also an empty register): every
    store into the old text is inside its block, and what is kept is at most hist - 1 lines."""
    ctx.begin("B15", floor=1, what="in-place cut of the history register")
    prog = ctx.prog
    f = prog.func("reg_putln", file="vi.c")
    n = 0
    bad = None
    for hist in (1, 2, 3, 4):
        for nlines in range(0, 5):
            old = b"".join(b"l%d\n" % i for i in range(nlines))
            op_ = Ptr(tuple(old) + (0,))
            op_.writes = []

            def h_get(ip, fn, e, args, env, op_=op_):
                return op_
            ip = Interp(prog, hooks={"reg_get": h_get, "reg_put": lambda *a: None, "sbuf_make": lambda *a: {},
                                     "sbuf_str": lambda *a: None, "sbuf_chr": lambda *a: None,
                                     "sbuf_buf": lambda *a: Ptr((0,)), "sbuf_free": lambda *a: None},
                        globals_={"xhist": hist})
            try:
                ip.call(f, [ord("/"), Ptr((0x7a, 0))])
            except OverRead as e:
                if bad is None:
                    bad = ("with hist=%d and %s the cut writes outside the register's text (%s)" % (
                        hist, "an empty register" if not nlines else "%d old lines" % nlines, e))
                continue
            except Unsupported as e:
                raise AnalysisBroken("reg_putln not evaluable: %s" % e)
            n += 1
            cuts = [j for j, v in op_.writes if v == 0]
            keep = min(cuts) if cuts else len(old)
            kept_lines = old[:keep].count(b"\n") + (1 if keep and old[:keep][-1:] != b"\n" else 0)
            if kept_lines > max(hist - 1, 0) and bad is None:
                bad = ("with hist=%d and %d old lines, %d old line(s) (%r) are kept next to the new one" % (
                    hist, nlines, kept_lines, old[:keep].decode()))
    if bad:
        ctx.violation("reg_putln", "history cut stays inside the register text", bad, f.loc(f.body))
    else:
        ctx.ok("reg_putln", "cut inside the block and at most hist - 1 old lines kept on %d (hist, old text) cases" % n)


def rule_T9(ctx):
    """The editor's own decoders never step or read past the terminator, also on a string that
    ends inside a multi-byte sequence (the editor itself produces such strings when it cuts a
    message to its buffer): uc_len, uc_code, uc_next, uc_slen evaluated abstractly on every
    string of up to 4 bytes over a representative alphabet."""
    ctx.begin("T9", floor=2, what="terminator-safe decoders of uc.c")
    import itertools
    prog = ctx.prog
    alpha = [0x41, 0x80, 0xbf, 0xc3, 0xe2, 0xf0, 0xf8, 0xff]
    fns = [(nm, prog.func(nm, file="uc.c")) for nm in ("uc_len", "uc_code", "uc_slen") if prog.has_func(nm, file="uc.c")]
    if len(fns) < 2:
        raise AnalysisBroken("uc.c: decoders not found")
    n = 0
    bad = {}
    for L in range(0, 5):
        for combo in itertools.product(alpha, repeat=L):
            buf = tuple(combo) + (0,)
            n += 1
            for nm, fn in fns:
                try:
                    v = Interp(prog).call(fn, [Ptr(buf)])
                except OverRead as e:
                    bad.setdefault(nm, (buf, str(e)))
                    continue
                except Unsupported as e:
                    raise AnalysisBroken("%s not evaluable: %s" % (nm, e))
                if nm == "uc_len" and (not isinstance(v, int) or v > L or v < 0 or (L > 0 and v == 0)):
                    bad.setdefault(nm, (buf, "returns %s for a string of %d bytes" % (v, L)))
    show = lambda b_: "".join("\\x%02x" % x for x in b_[:-1])
    for nm, fn in fns:
        if nm in bad:
            ctx.violation(nm, "decoder stays inside the string",
                          "uc.c:%s(\"%s\"): %s -- a message cut inside a multi-byte character makes the "
                          "renderer read past its buffer" % (nm, show(bad[nm][0]), bad[nm][1]), fn.loc(fn.body))
        else:
            ctx.ok(nm, "no step or read past the terminator on %d strings (truncated sequences included)" % n)


def _ceval(e, env):
    """Value of a condition under `env` (expression key -> int); None when something else occurs."""
    k_ = key(e)
    if k_ in env:
        return env[k_]
    k = e["k"]
    if k == "int":
        return e["v"]
    if "cv" in e and e["cv"] is not None:
        return e["cv"]
    if k in ("cast", "paren"):
        return _ceval(e["e"], env)
    if k == "un" and e["op"] in ("!", "-"):
        v = _ceval(e["e"], env)
        return None if v is None else (int(not v) if e["op"] == "!" else -v)
    if k == "bin" and e["op"] in ("<", "<=", ">", ">=", "==", "!="):
        a, b = _ceval(e["l"], env), _ceval(e["r"], env)
        if a is None or b is None:
            return None
        return int({"<": a < b, "<=": a <= b, ">": a > b, ">=": a >= b, "==": a == b, "!=": a != b}[e["op"]])
    if k == "cond":
        c = _ceval(e["c"], env)
        if c is not None:
            return _ceval(e["t"] if c else e["f"], env)
        a, b = _ceval(e["t"], env), _ceval(e["f"], env)
        return a if a == b else None
    if k == "bin" and e["op"] in ("&&", "||"):
        a, b = _ceval(e["l"], env), _ceval(e["r"], env)
        if e["op"] == "&&":
            if a == 0 or b == 0:
                return 0
            return None if a is None or b is None else 1
        if (a is not None and a != 0) or (b is not None and b != 0):
            return 1
        return None if a is None or b is None else 0
    return None


def _s8_paths(f, start_block, stop_block, rdvars):
    """[(items, justified, how)] for the consistent paths from start_block to stop_block
    (or to the exit when stop_block is None)"""
    from ..cfg import enum_paths
    cfg = f.cfg
    stops = {stop_block} if stop_block is not None else set()
    try:
        paths = [p for p in enum_paths(cfg, start_block, stops) if p[1] == (stop_block if stop_block is not None else cfg.exit)]
    except OverflowError:
        raise AnalysisBroken("%s: too many paths" % f.name)
    out = []
    for items, _ in paths:
        if not path_consistent(f, items):
            continue
        evs = [f.nodes.get(x[1]) for x in items if x[0] == "ev"]
        did_read = any(e is not None and e["k"] == "call" and e.get("fn") == "lbuf_rd" for e in evs)
        ok = None
        known = {}
        flagdefs = {}          # a local that holds a condition (clean = !rd;) stands for it
        for x in items:
            if x[0] == "ev":
                nd = f.nodes.get(x[1])
                if nd is not None and nd["k"] == "bin" and nd["op"] == "=" and nd["l"]["k"] == "ref" and \
                        nd["l"].get("cat") == "local":
                    flagdefs[nd["l"]["name"]] = nd["r"]
                elif nd is not None and nd["k"] == "var" and "init" in nd:
                    flagdefs[nd["name"]] = nd["init"]
                continue
            if x[0] != "br":
                continue
            c = f.nodes[x[1]]
            t = int(bool(x[2]))
            c0, t0 = negate_truth(c, bool(t))
            if c0["k"] == "ref" and c0["name"] in flagdefs and c0["name"] not in rdvars:
                c, t = flagdefs[c0["name"]], int(t0)
            known = dict(known)
            if did_read:
                envs = []
                for v in rdvars:
                    envs += [{v: 1}, {v: -1}]
                for rc in calls_in(c, "lbuf_rd"):
                    envs += [{key(rc): 1}, {key(rc): -1}]
                vals = [_ceval(c, dict(known, **e_)) for e_ in envs if any(k_ in key(c) for k_ in e_)]
                if vals and all(v is not None and v != t for v in vals):
                    ok = "the read returned 0"
            lens = list(calls_in(c, "lbuf_len"))
            if lens:
                vals = [_ceval(c, dict(known, **{key(lens[0]): n_})) for n_ in (1, 7)]
                if all(v is not None and v != t for v in vals):
                    ok = ok or "the buffer is empty"
            known[key(c)] = t
        out.append((items, ok is not None, known, did_read))
    return out


def rule_S8(ctx):
    """ec_edit marks the buffer saved only when its text is what the file holds: on every path
    from the open() of the (re)load to lbuf_saved() either the read's status was tested zero, or
    the buffer was tested empty, or -- failing both -- the buffer is a fresh one on every way in.
    The load may live in a helper: with lbuf_saved() inside it the helper is examined instead;
    when it returns a status, the values it can return on unjustified paths are computed and
    lbuf_saved() in ec_edit must be unreachable under them."""
    ctx.begin("S8", floor=1, what="a reload that read nothing is not marked saved")
    prog = ctx.prog
    top = prog.func("ec_edit", file="ex.c")

    def has(g, nm):
        return any(True for _ in g.calls(nm))

    loader = top
    via = None
    if not (has(top, "open") and has(top, "lbuf_rd")):
        for c in top.calls():
            g = prog.resolve(top, c["fn"]) if c.get("fn") else None
            if g is not None and g.file == top.file and has(g, "open") and has(g, "lbuf_rd"):
                loader, via = g, c
        if via is None:
            ctx.inconclusive("ec_edit", "reload marks saved only what was read", "open / lbuf_rd not found in ec_edit or a helper")
            return
    f = loader
    cfg = f.cfg
    rdvars = {lv["name"] for n, lv, op, rhs in stores(f.body)
              if rhs is not None and op in ("=", "init") and is_call(strip_casts(rhs), "lbuf_rd") and lv["k"] in ("ref", "var")}
    ob = cfg.pos(list(f.calls("open"))[0])[0]
    fresh = list(top.calls("bufs_open"))
    anchor = via if via is not None else list(top.calls("open"))[0]
    always_fresh = bool(fresh) and top.cfg.search(top.cfg.entry, lambda e: e == anchor["id"],
                                                  avoid=lambda e: any(e == b_["id"] for b_ in fresh), start_block=True) is None
    msg = ("lbuf_saved() is reached from open() on a path where neither the read returned 0 nor "
           "the buffer is empty, and `:e!` without a file name reloads the current buffer (no "
           "bufs_open on that way in): when the file has disappeared or cannot be read, the text "
           "stays and is reported clean, so :q loses it")
    saved_here = list(f.calls("lbuf_saved"))
    if saved_here:
        for sv in saved_here:
            sb = cfg.pos(sv)[0]
            ps = _s8_paths(f, ob, sb, rdvars)
            if not ps:
                raise AnalysisBroken("%s: lbuf_saved() not reachable from open()" % f.name)
            if all(j for _, j, _, _ in ps):
                ctx.ok(f.name, "lbuf_saved() only after a read that returned 0 or on an empty buffer "
                       "(%d paths from open())" % len(ps), loc=f.loc(sv))
            elif always_fresh:
                ctx.ok(f.name, "the buffer is a fresh one whenever the load is attempted", loc=f.loc(sv))
            else:
                ctx.violation(f.name, "reload marks saved only what was read", msg, f.loc(sv))
        return
    # the loader returns a status; lbuf_saved() is in ec_edit
    saved = list(top.calls("lbuf_saved"))
    if not saved:
        raise AnalysisBroken("ec_edit: no lbuf_saved()")
    ps = _s8_paths(f, ob, None, rdvars)
    # what can an unjustified path return?
    bad_vals = set()
    unknown = False
    for items, just, known, did_read in ps:
        if just:
            continue
        rets = [f.nodes[x[1]] for x in items if x[0] == "ev" and f.nodes.get(x[1], {}).get("k") == "return"]
        rv = rets[-1].get("e") if rets else None
        if rv is None:
            unknown = True          # void: the caller cannot tell
            continue
        got = set()
        for rd_ in ((1, -1) if did_read else (0,)):
            for ln_ in (1, 7):
                env = dict(known)
                for v in rdvars:
                    env[v] = rd_
                for lc in calls_in(rv, "lbuf_len"):
                    env[key(lc)] = ln_
                v = _ceval(resolve_local(f, rv), env)
                if v is None:
                    v = _ceval(rv, env)
                got.add(v)
        if None in got:
            unknown = True
        bad_vals |= {bool(v) for v in got if v is not None}
    for sv in saved:
        if always_fresh:
            ctx.ok("ec_edit", "the buffer is a fresh one whenever the load is attempted", loc=top.loc(sv))
            continue
        # which truth values of the loader's result let control reach lbuf_saved()?
        reach = set()
        for tv in (False, True):
            def edge_ok(bid, k, s_, tv=tv):
                br = top.cfg.branch(bid)
                if not br or br[1] == br[2]:
                    return True
                c = top.nodes[br[0]]
                cs = [x for x in walk(c) if x["id"] == via["id"]]
                res = {lv["name"] for n, lv, op, rhs in stores(top.body) if rhs is not None and
                       any(x["id"] == via["id"] for x in walk(rhs)) and lv["k"] in ("ref", "var")}
                env = {}
                if cs:
                    env[key(via)] = int(tv)
                for r_ in res:
                    env[r_] = int(tv)
                if not env:
                    return True
                v = _ceval(c, env)
                if v is None:
                    return True
                return bool(v) == (k == 0)
            if top.cfg.search(top.cfg.pos(via), lambda e: e == sv["id"], edge_ok=edge_ok) is not None:
                reach.add(tv)
        if unknown or (reach & bad_vals):
            ctx.violation("ec_edit", "reload marks saved only what was read",
                          msg + " (the load is in %s(), whose result %s)" % (
                              f.name, "does not tell" if unknown else "is %s on such a path and lbuf_saved() is still reached"
                              % ("non-zero" if True in (reach & bad_vals) else "zero")), top.loc(sv))
        else:
            ctx.ok("ec_edit", "lbuf_saved() only under results of %s() that mean the read returned 0 or the buffer "
                   "is empty" % f.name, loc=top.loc(sv))


_TYBITS = {"char": 8, "signed char": 8, "unsigned char": 8, "short": 16, "unsigned short": 16,
           "int": 32, "unsigned int": 32, "long": 64, "unsigned long": 64}


def rule_G8(ctx):
    """One bit of a line's mark per nesting level: every `1 << level` that is combined with a
    mark cell uses a level below the cell's width.  The level is a parameter of the accessor;
    at every call site it is a constant or a global counter, and every increment of that counter
    is dominated by a test that keeps it inside the width."""
    ctx.begin("G8", floor=2, what="nesting level fits the bits of a line's mark")
    prog = ctx.prog
    acc = {}           # accessor name -> (param index, max shift)

    def shifted_params(g):
        """names of g's parameters used as the amount of a `1 << p`, directly or through a
        helper of the file whose own parameter is"""
        pn_ = [p_["name"] for p_ in g.params]
        out_ = set()
        for n in g.walk():
            if n["k"] == "bin" and n["op"] == "<<" and cval(n["l"]) == 1:
                r = strip_casts(n["r"])
                if r["k"] == "ref" and r["name"] in pn_:
                    out_.add(r["name"])
        return out_
    for f in prog.funcs.values():
        if f.file != "lbuf.c":
            continue
        pn = [p_["name"] for p_ in f.params]
        # the mark cells this function touches, and their width
        mem = [x for x in f.walk() if x["k"] == "member" and x.get("field") == "ln_glob"]
        if not mem:
            continue
        ty = str(mem[0].get("ty", "")).replace("*", "").strip()
        levels = set(shifted_params(f))
        for c_ in f.calls():
            h_ = prog.resolve(f, c_["fn"]) if c_.get("fn") else None
            if h_ is not None and h_.file == f.file and h_ is not f:
                hp_ = [q["name"] for q in h_.params]
                for nm_ in shifted_params(h_):
                    a_ = strip_casts(c_["args"][hp_.index(nm_)]) if hp_.index(nm_) < len(c_["args"]) else None
                    if a_ is not None and a_["k"] == "ref" and a_["name"] in pn:
                        levels.add(a_["name"])
        if not levels:
            continue
        bits = _TYBITS.get(ty)
        if bits is None:
            raise AnalysisBroken("%s: width of a mark cell (%s) unknown" % (f.name, ty))
        mx = bits - 1 if bits < 32 else bits - 2
        for nm_ in levels:
            old = acc.get(f.name)
            acc[f.name] = (pn.index(nm_), min(mx, old[1]) if old else mx)
    if not acc:
        raise AnalysisBroken("lbuf.c: no `1 << level` on ln_glob[] found")
    counters = {}
    for f in prog.funcs.values():
        for c in f.calls():
            if c.get("fn") not in acc:
                continue
            idx, mx = acc[c["fn"]]
            a = strip_casts(c["args"][idx])
            if cval(a) is not None:
                if 0 <= cval(a) <= mx:
                    ctx.ok(f.name, "%s with level %d" % (c["fn"], cval(a)), loc=f.loc(c))
                else:
                    ctx.violation(f.name, "nesting level fits a mark cell",
                                  "%s is given level %d, a mark cell has bits 0..%d" % (c["fn"], cval(a), mx), f.loc(c))
            elif a["k"] == "ref" and a.get("cat") in ("global", "sglobal", "static"):
                counters.setdefault(a["name"], []).append((f, c, mx))
            else:
                ctx.inconclusive(f.name, "nesting level fits a mark cell",
                                 "level argument %s of %s is neither a constant nor a global counter" % (key(a), c["fn"]),
                                 f.loc(c))
    for var, uses in sorted(counters.items()):
        mx = min(u[2] for u in uses)
        bad = None
        nst = 0
        for g in prog.funcs.values():
            for n, lv, op, rhs in stores(g.body):
                if lv["k"] != "ref" or lv["name"] != var or lv.get("cat") not in ("global", "sglobal", "static"):
                    continue
                nst += 1
                if op in ("post--", "pre--"):
                    incs = [m for m, lv2, op2, _ in stores(g.body) if lv2["k"] == "ref" and lv2["name"] == var
                            and op2 in ("post++", "pre++")]
                    if not any(g.cfg.dominates(i_, n) for i_ in incs):
                        bad = (g, n, "is lowered without having been raised in %s (it could go negative)" % g.name)
                    continue
                if op == "=" and rhs is not None and cval(rhs) is not None and 0 <= cval(rhs) <= mx:
                    continue
                if op in ("post++", "pre++"):
                    top = None
                    for cc, t in _facts_plain(g, n["id"]):
                        if cc["k"] != "bin" or cc["op"] not in ("<", "<=", ">", ">="):
                            continue
                        l, r = strip_casts(cc["l"]), strip_casts(cc["r"])
                        op_ = cc["op"]
                        if r["k"] == "ref" and r["name"] == var and cval(l) is not None:
                            l, r = r, l
                            op_ = {"<": ">", "<=": ">=", ">": "<", ">=": "<="}[op_]
                        if not (l["k"] == "ref" and l["name"] == var and cval(r) is not None):
                            continue
                        K = cval(r)
                        # the fact (var op_ K) == t gives an upper bound?
                        if op_ == "<" and t:
                            ub = K - 1
                        elif op_ == "<=" and t:
                            ub = K
                        elif op_ == ">=" and not t:
                            ub = K - 1
                        elif op_ == ">" and not t:
                            ub = K
                        else:
                            continue
                        top = ub if top is None else min(top, ub)
                    if top is None:
                        bad = (g, n, "is raised without a test against a constant: from level %d on `1 << %s` "
                               "no longer fits a mark cell and the nested global visits no line" % (mx + 1, var))
                    elif top + 1 > mx:
                        bad = (g, n, "can reach %d, a mark cell has bits 0..%d" % (top + 1, mx))
                    continue
                bad = (g, n, "is stored in a way that is not understood (%s)" % op)
        if nst == 0:
            raise AnalysisBroken("no store to %s found" % var)
        if bad:
            g, n, why = bad
            ctx.violation(g.name, "nesting level fits a mark cell", "%s %s" % (var, why), g.loc(n))
        else:
            for f, c, _ in uses:
                ctx.ok(f.name, "%s(%s): every increment of %s is under a test that keeps it <= %d" % (
                    c["fn"], var, var, mx), loc=f.loc(c))


def _facts_plain(g, nid):
    out = []
    for cid, t in g.cfg.facts_at(nid):
        c = g.nodes.get(cid)
        if c is None:
            continue
        c, t = negate_truth(c, t)
        for part in (flatten_and(c) if t else flatten_or(c)):
            p2, t2 = negate_truth(part, t)
            out.append((p2, t2))
    return out


def _neval(e, env):
    """Integer value of an expression; env maps variable names and call keys to ints."""
    e = strip_casts(e)
    k = e["k"]
    if k == "int":
        return e["v"]
    if k == "ref":
        return env.get(e["name"])
    if k == "call":
        return env.get(key(e))
    if k == "paren":
        return _neval(e["e"], env)
    if k == "cond":
        c = _neval(e["c"], env)
        if c is None:
            return None
        return _neval(e["t"] if c else e["f"], env)
    if k == "un" and e["op"] in ("!", "-"):
        v = _neval(e["e"], env)
        return None if v is None else (int(not v) if e["op"] == "!" else -v)
    if k == "bin":
        a, b = _neval(e["l"], env), _neval(e["r"], env)
        if a is None or b is None:
            return None
        op = e["op"]
        if op in ("<", "<=", ">", ">=", "==", "!="):
            return int({"<": a < b, "<=": a <= b, ">": a > b, ">=": a >= b, "==": a == b, "!=": a != b}[op])
        if op == "+":
            return a + b
        if op == "-":
            return a - b
        if op == "*":
            return a * b
        if op == "&&":
            return int(bool(a) and bool(b))
        if op == "||":
            return int(bool(a) or bool(b))
    return None


def rule_G9(ctx):
    """After each execution the global goes on scanning at or below every line it has yet to
    visit.  Those lines were after the current one (index i); they can have moved up, but not
    above the lowest line that was changed (c): the first of them is at min(i + 1, c) or later.
    One iteration of ec_glob's loop is evaluated over all its paths on a grid of orderings of
    i, c, the enclosing global's tracker value and adversarial values of everything else
    (cursor row, ...): the index handed to the next mark test must be in [0, min(i + 1, c)].
    The lowest change is read from the line buffer: a field that lbuf_replace lowers to its
    position on every path and nobody else stores; its accessors are evaluated on a model of
    that field, and when the iteration ends the field must be at most min(value on entry, c),
    so that an enclosing global learns what the nested one changed."""
    ctx.begin("G9", floor=2, what="the global resumes at or below the lines yet to visit")
    import itertools
    from ..bounds import path_states
    from ..cfg import enum_paths
    from ..lin import prove_le, PROVEN
    prog = ctx.prog
    f = prog.func("ec_glob", file="ex.c")
    cfg = f.cfg
    execs = list(f.calls("ex_exec"))
    callers_ = [f]         # ec_glob and the helpers of the file that run the command list for it
    if not execs:
        for c_ in f.calls():
            h_ = prog.resolve(f, c_["fn"]) if c_.get("fn") else None
            if h_ is not None and h_.file == f.file and h_ is not f and any(True for _ in h_.calls("ex_exec")):
                execs.append(c_)
                callers_.append(h_)
    if not execs:
        raise AnalysisBroken("ec_glob does not call ex_exec")
    ex = execs[0]
    loops = cfg.loops()
    xb_ = cfg.pos(ex)[0]
    inloops = [h for h, body in loops.items() if xb_ in body]
    if not inloops:
        raise AnalysisBroken("ec_glob: ex_exec is not in a loop")
    head = min(inloops, key=lambda h: len(loops[h]))
    body = loops[head]
    # scan sites: the mark test, directly or through a helper that applies it to its parameter
    sites = {}
    for c in f.calls():
        if cfg.pos(c) is None or cfg.pos(c)[0] not in body:
            continue
        if c.get("fn") == "lbuf_globget":
            sites[c["id"]] = c["args"][1]
            continue
        g = prog.resolve(f, c["fn"]) if c.get("fn") else None
        if g is not None and g.file == f.file and g is not f:
            pn = [p_["name"] for p_ in g.params]
            for c2 in g.calls("lbuf_globget"):
                a1 = strip_casts(c2["args"][1])
                if a1["k"] == "ref" and a1["name"] in pn and pn.index(a1["name"]) < len(c["args"]):
                    sites[c["id"]] = c["args"][pn.index(a1["name"])]
    if not sites:
        raise AnalysisBroken("ec_glob: no mark test in the loop")
    ivars = {r_["name"] for e_ in sites.values() for r_ in refs(e_) if r_.get("cat") in ("local", "param")}
    if len(ivars) != 1:
        raise AnalysisBroken("ec_glob: scan index not a single local (%s)" % sorted(ivars))
    ivar = ivars.pop()
    # the tracker field: stored by lbuf_replace, read by an lbuf.c accessor that ec_glob calls
    rep = prog.func("lbuf_replace", file="lbuf.c")
    accessors = {}
    fld = None
    for g in prog.funcs.values():
        if g.file != "lbuf.c" or g is rep or not g.params or not any(True for h_ in callers_ for _ in h_.calls(g.name)):
            continue
        touched = {x["field"] for x in g.walk() if x["k"] == "member" and x.get("rec") == "lbuf"}
        touched -= {"ln_n", "ln_sz", "ln", "ln_glob", "useq", "hist_n", "hist_u", "hist", "mark", "mark_off"}
        if len(touched) == 1 and g.name not in ("lbuf_len", "lbuf_get", "lbuf_globget", "lbuf_globset"):
            accessors[g.name] = g
            fld = touched.pop()
    LEN_, BIG = 9, 50

    def helper_of(g, n):
        """a helper of the file whose body runs the command list or touches the tracker"""
        h = prog.resolve(g, n["fn"]) if n.get("fn") else None
        if h is None or h.file != f.file or h is f or h.name in accessors:
            return None
        if any(True for _ in h.calls("ex_exec")) or any(True for _ in h.calls(tuple(accessors) or ("__none__",))):
            return h
        return None

    def run_iteration(i0, c_true, t_outer, err, adv):
        """all paths of one iteration (helpers that run the command list or touch the tracker are
        walked too, with pointers to the caller's variables followed); -> [(kind, detail)]"""
        try:
            paths = enum_paths(cfg, head, {head}, within=body | {head})
        except OverflowError:
            raise AnalysisBroken("ec_glob: too many paths through one iteration")
        out = []

        def walk(g, items, st, k0=0):
            """process items[k0:] of function g on state st; returns the list of final states"""
            frames = st["frames"]
            env = frames[-1]
            vals = st["vals"]

            def deref(cell):
                return frames[cell[1]].get(cell[2]) if isinstance(cell, tuple) and cell[0] == "cell" else None

            def val(e):
                e = strip_casts(e)
                if (g.name, e["id"]) in vals:
                    return vals[(g.name, e["id"])]
                k = e["k"]
                if k == "int":
                    return e["v"]
                if e.get("cv") is not None:
                    return e["cv"]
                if k == "ref":
                    if e["name"] in env:
                        v_ = env[e["name"]]
                        return v_
                    if e.get("cat") in ("global", "sglobal", "static") and e.get("ty") == "int":
                        return st["globals"].get(e["name"], adv)
                    return None
                if k == "paren":
                    return val(e["e"])
                if k == "cond":
                    c = val(e["c"])
                    return None if c is None or isinstance(c, tuple) else val(e["t"] if c else e["f"])
                if k == "un" and e["op"] == "*":
                    return deref(val(e["e"]))
                if k == "un" and e["op"] == "&" and strip_casts(e["e"])["k"] == "ref":
                    return ("cell", len(frames) - 1, strip_casts(e["e"])["name"])
                if k == "un" and e["op"] in ("!", "-"):
                    v = val(e["e"])
                    return None if v is None or isinstance(v, tuple) else (int(not v) if e["op"] == "!" else -v)
                if k == "bin" and e["op"] in ("<", "<=", ">", ">=", "==", "!=", "+", "-", "&&", "||"):
                    x, y = val(e["l"]), val(e["r"])
                    if isinstance(x, tuple) or isinstance(y, tuple):
                        return None
                    if e["op"] == "&&" and (x == 0 or y == 0):
                        return 0
                    if e["op"] == "||" and ((x is not None and x != 0) or (y is not None and y != 0)):
                        return 1
                    if x is None or y is None:
                        return None
                    return {"<": int(x < y), "<=": int(x <= y), ">": int(x > y), ">=": int(x >= y),
                            "==": int(x == y), "!=": int(x != y), "+": x + y, "-": x - y,
                            "&&": int(bool(x) and bool(y)), "||": int(bool(x) or bool(y))}[e["op"]]
                if k == "bin" and e["op"] == "=":
                    return val(e["r"])
                return None

            def store(lhs, v):
                lhs = strip_casts(lhs)
                if lhs["k"] == "ref":
                    if lhs.get("cat") in ("global", "sglobal", "static"):
                        st["globals"][lhs["name"]] = v
                    else:
                        env[lhs["name"]] = v
                elif lhs["k"] == "un" and lhs["op"] == "*":
                    cell = val(lhs["e"])
                    if isinstance(cell, tuple) and cell[0] == "cell":
                        frames[cell[1]][cell[2]] = v

            for k_i in range(k0, len(items)):
                it = items[k_i]
                if it[0] == "br":
                    v = val(g.nodes[it[1]])
                    if v is not None and not isinstance(v, tuple) and bool(v) != bool(it[2]):
                        return []
                    continue
                if it[0] != "ev":
                    continue
                n = g.nodes.get(it[1])
                if n is None:
                    continue
                if n["k"] == "return":
                    st["ret"] = val(n["e"]) if n.get("e") is not None else None
                    continue
                if n["k"] == "call":
                    if g is f and n["id"] in sites and st["passed"] and not st["checked"]:
                        st["checked"] = True
                        r = val(sites[n["id"]])
                        lim = min(i0 + 1, c_true)
                        if r is None or isinstance(r, tuple):
                            out.append(("unknown", "index %s at the mark test not evaluable" % key(sites[n["id"]])))
                        elif r < 0 or r > lim:
                            out.append(("resume", "with the current line at %d, the lowest change at %d%s the scan "
                                        "resumes at %d (the first line yet to visit may be at %d)" % (
                                            i0, c_true, ", other globals = %d" % adv, r, lim)))
                    if n.get("fn") == "ex_exec":
                        st["passed"] = True
                        if fld:
                            st["model"][fld] = min(st["model"][fld], c_true)
                        vals[(g.name, n["id"])] = err
                        for nm in list(st["globals"]):      # the command list may have set any global
                            st["globals"][nm] = adv
                    elif n.get("fn") in accessors:
                        h = accessors[n["fn"]]
                        args = [st["model"]] + [val(a_) for a_ in n["args"][1:]]
                        if any(a_ is None or isinstance(a_, tuple) for a_ in args[1:]):
                            out.append(("unknown", "argument of %s not evaluable" % n["fn"]))
                            vals[(g.name, n["id"])] = None
                        else:
                            try:
                                vals[(g.name, n["id"])] = Interp(prog).call(h, args)
                            except (Unsupported, OverRead) as e_:
                                raise AnalysisBroken("%s not evaluable: %s" % (n["fn"], e_))
                    elif n.get("fn") == "lbuf_len":
                        vals[(g.name, n["id"])] = LEN_
                    elif helper_of(g, n) is not None and len(frames) < 3:
                        h = helper_of(g, n)
                        results = []
                        try:
                            hpaths = enum_paths(h.cfg, h.cfg.entry, set())
                        except OverflowError:
                            raise AnalysisBroken("%s: too many paths" % h.name)
                        for hitems, hend in hpaths:
                            st2 = {"frames": [dict(fr) for fr in frames], "vals": dict(vals), "model": dict(st["model"]),
                                   "globals": dict(st["globals"]), "passed": st["passed"], "checked": st["checked"], "ret": None}
                            st2["frames"].append({q["name"]: val(a_) for q, a_ in zip(h.params, n["args"])})
                            for fin in walk(h, hitems, st2):
                                fin["frames"].pop()
                                fin["vals"][(g.name, n["id"])] = fin.pop("ret", None)
                                fin["ret"] = None
                                results += walk(g, items, fin, k_i + 1)
                        return results
                    else:
                        vals[(g.name, n["id"])] = None
                    continue
                if n["k"] == "bin" and n["op"] == "=":
                    store(n["l"], val(n["r"]))
                elif n["k"] == "bin" and n["op"] in ("+=", "-=") and strip_casts(n["l"])["k"] == "ref":
                    x, y = val(n["l"]), val(n["r"])
                    store(n["l"], None if x is None or y is None or isinstance(x, tuple) or isinstance(y, tuple)
                          else (x + y if n["op"] == "+=" else x - y))
                elif n["k"] == "var" and "init" in n:
                    env[n["name"]] = val(n["init"])
                elif n["k"] == "un" and n["op"] in ("post++", "pre++", "post--", "pre--") and strip_casts(n["e"])["k"] == "ref":
                    x = val(n["e"])
                    nv_ = None if x is None or isinstance(x, tuple) else x + (1 if "++" in n["op"] else -1)
                    vals[(g.name, n["id"])] = x if n["op"].startswith("post") else nv_
                    store(n["e"], nv_)
            return [st]

        for items, end in paths:
            st0 = {"frames": [{ivar: i0}], "vals": {}, "model": ({fld: t_outer} if fld else {}), "globals": {},
                   "passed": False, "checked": False, "ret": None}
            for fin in walk(f, items, st0):
                if not fin["passed"]:
                    continue
                if fld and isinstance(fin["model"].get(fld), int) and fin["model"][fld] > min(t_outer, c_true):
                    out.append(("restore", "entered with %d, lowest change %d: the field is left at %d" % (
                        t_outer, c_true, fin["model"][fld])))
        return out


    problems = {}
    cases = 0
    for i0, c_true, t_outer, err, adv in itertools.product((0, 1, 2, 5), (0, 1, 2, 5, LEN_), (0, 3, LEN_), (0, 1), (0, BIG)):
        cases += 1
        for kind, detail in run_iteration(i0, c_true, t_outer, err, adv):
            problems.setdefault(kind, detail)
    if "resume" in problems:
        ctx.violation("ec_glob", "the scan resumes at or below the lines yet to visit",
                      "%s: a command list that deletes lines above the current one and leaves the cursor below it "
                      "(g/x/s/$/!/|1,2d|$) moves the lines yet to visit up past the resume point"
                      % problems["resume"], f.loc(ex))
    elif "unknown" in problems:
        ctx.inconclusive("ec_glob", "the scan resumes at or below the lines yet to visit", problems["unknown"], f.loc(ex))
    else:
        ctx.ok("ec_glob", "index at the next mark test is in [0, min(i + 1, lowest change)] on every path of an "
               "iteration, %d orderings" % cases, loc=f.loc(ex))
    if not fld:
        return
    if "restore" in problems:
        ctx.violation("ec_glob", "the enclosing global's tracker is restored",
                      "%s: an enclosing global does not learn what the nested one changed and steps over lines"
                      % problems["restore"], f.loc(ex))
    else:
        ctx.ok("ec_glob", "%s ends every iteration at most at min(value on entry, lowest change)" % fld, loc=f.loc(ex))
    # lbuf_replace lowers the field to its position on every path
    posn = rep.params[2]["name"] if len(rep.params) >= 3 else None
    try:
        sts = path_states(rep, "exit")
    except Exception:
        sts = None
    okp = bool(sts)
    if sts:
        fk = "%s->%s" % (rep.params[0]["name"], fld)
        for subst, hyps, items in sts:
            cur = subst.get(fk, Lin({fk: 1}))          # not stored on this path: still the value on entry
            if cur is None or prove_le(cur, Lin({posn: 1}), hyps) != PROVEN or prove_le(cur, Lin({fk: 1}), hyps) != PROVEN:
                okp = False
                break
    if okp:
        ctx.ok("lbuf_replace", "%s is lowered to min(itself, %s) on all %d paths" % (fld, posn, len(sts)))
    else:
        ctx.violation("lbuf_replace", "the change tracker is lowered by every splice",
                      "a path through lbuf_replace leaves %s above the splice position %s" % (fld, posn),
                      rep.loc(rep.body))
    # nobody else stores it, except the accessors
    for h in prog.funcs.values():
        if h is rep or h.name in accessors or h.name == "lbuf_make":
            continue
        for n, lv, op, rhs in stores(h.body):
            if lv["k"] == "member" and lv["field"] == fld and lv.get("rec") == "lbuf":
                ctx.violation(h.name, "the change tracker is lowered by every splice",
                              "%s stores %s" % (h.name, fld), h.loc(n))


def rule_Q1(ctx):
    """Keys pushed back are read next, before what is still waiting in the queue: a `.` or `@`
    that was itself read from the queue (a register holding `.dw`) must run in its place.
    term_push is evaluated abstractly on a queue with consumed, waiting and free parts; the
    unread part afterwards must be the pushed keys followed by the old waiting keys."""
    ctx.begin("Q1", floor=1, what="pushed keys are read before the waiting ones")
    prog = ctx.prog
    f = prog.func("term_push", file="term.c")
    gl = {nm: [g for g in prog.globals.get(nm, []) if g["file"] == "term.c"] for nm in ("ibuf", "ibuf_pos", "ibuf_cnt")}
    if not all(gl.values()) or "arr_n" not in gl["ibuf"][0]:
        raise AnalysisBroken("term.c: ibuf / ibuf_pos / ibuf_cnt not found")
    N = gl["ibuf"][0]["arr_n"]
    n = 0
    for consumed, waiting, pushed in ((b"k", b"dw", b"x"), (b"", b"", b"abc"), (b"@a", b"", b"xy"),
                                      (b"12", b"345", b"67"), (b"", b"zz", b"q")):
        model = list(consumed + waiting) + [0] * (N - len(consumed) - len(waiting))
        base = Ptr(tuple([0] * N + [0]))

        def mv(ip, fn, e, args, env, model=model):
            d, s_, k = args
            if not (isinstance(d, Ptr) and isinstance(k, int)) or d.buf is not base.buf:
                raise Unsupported("copy to something else than the queue")
            if k < 0 or d.off < 0 or d.off + k > N:
                raise OverRead(d.off + k, N)
            if isinstance(s_, Ptr) and s_.buf is base.buf:
                src = model[s_.off:s_.off + k]
            elif isinstance(s_, Ptr):
                src = [s_.read(i) for i in range(k)]
            else:
                raise Unsupported("copy source")
            model[d.off:d.off + k] = src
            return d
        ip = Interp(prog, hooks={"memmove": mv, "memcpy": mv},
                    globals_={"ibuf": base, "ibuf_pos": len(consumed), "ibuf_cnt": len(consumed) + len(waiting)})
        try:
            ip.call(f, [Ptr(tuple(pushed) + (0,)), len(pushed)])
        except (Unsupported, OverRead) as e:
            raise AnalysisBroken("term_push not evaluable: %s" % e)
        pos = ip.last_env.get("ibuf_pos", len(consumed))
        cnt = ip.last_env.get("ibuf_cnt", len(consumed) + len(waiting))
        if not isinstance(pos, int) or not isinstance(cnt, int):
            raise AnalysisBroken("term_push: queue indices not evaluable")
        n += 1
        got = bytes(model[pos:cnt])
        if got != pushed + waiting:
            ctx.violation("term_push", "pushed keys are read before the waiting ones",
                          "with %r consumed and %r waiting, pushing %r leaves %r to be read (expected %r): keys "
                          "pushed by a `.` or `@` that came from the queue itself run after the rest of it"
                          % (consumed.decode(), waiting.decode(), pushed.decode(), got.decode("latin1"),
                             (pushed + waiting).decode()), f.loc(f.body))
            return
    ctx.ok("term_push", "the unread part is the pushed keys followed by the waiting ones on %d queue states" % n)


def rule_Q2(ctx):
    """Every key handed to term_push is queued, or the caller is told: `N.` and `N@r` push N
    copies, and copies that are dropped without a word make the replay differ from retyping.
    term_push is evaluated abstractly on a queue with less room than the pushed text."""
    ctx.begin("Q2", floor=1, what="pushed keys are not dropped silently")
    prog = ctx.prog
    f = prog.func("term_push", file="term.c")
    gl = {nm: [g for g in prog.globals.get(nm, []) if g["file"] == "term.c"] for nm in ("ibuf", "ibuf_pos", "ibuf_cnt")}
    if not all(gl.values()) or "arr_n" not in gl["ibuf"][0]:
        # a queue of another kind (grown on demand): nothing to drop
        if any(True for _ in f.calls(("realloc", "malloc"))):
            ctx.ok("term_push", "the queue is grown on demand")
            return
        raise AnalysisBroken("term.c: ibuf / ibuf_pos / ibuf_cnt not found")
    N = gl["ibuf"][0]["arr_n"]
    base = Ptr(tuple([0] * N + [0]))
    stored = []

    def mv(ip, fn, e, args, env):
        d, s_, k = args
        if isinstance(d, Ptr) and d.buf is base.buf and isinstance(s_, Ptr) and s_.buf is not base.buf and isinstance(k, int):
            stored.append(k)
        return d
    ip = Interp(prog, hooks={"memmove": mv, "memcpy": mv},
                globals_={"ibuf": base, "ibuf_pos": N - 2, "ibuf_cnt": N - 2})
    try:
        rv = ip.call(f, [Ptr(tuple(b"hello") + (0,)), 5])
    except (Unsupported, OverRead) as e:
        raise AnalysisBroken("term_push not evaluable: %s" % e)
    took = sum(stored)
    void = f.ret_ty == "void" if hasattr(f, "ret_ty") else True
    if took >= 5:
        ctx.ok("term_push", "all keys are queued even when the fixed part of the queue is full")
        return
    told = isinstance(rv, int) and rv != 0
    users = [(g, c) for g in prog.funcs.values() for c in g.calls("term_push")]
    checked = told and all(enclosing(g, c["id"], ("if", "while", "for", "cond", "return")) is not None or
                           any(c["id"] in [x["id"] for x in walk(rhs)] for _n, _lv, _op, rhs in stores(g.body) if rhs is not None)
                           for g, c in users)
    if checked:
        ctx.ok("term_push", "a short push is reported and every caller looks at the result")
    else:
        ctx.violation("term_push", "every pushed key is queued",
                      "with room for 2 more keys, pushing 5 queues %d and %s: `N.` / `N@r` whose N copies exceed the "
                      "%d-byte queue are cut in the middle of a copy (ihello<Esc>700. inserts 512 copies and leaves the "
                      "last one open)" % (took, "returns nothing" if not told else "the callers ignore the result", N),
                      f.loc(f.body))


def rule_K6(ctx):
    """Shaping looks at the nearest non-combining neighbours, and a letter at the start (end) of
    the line has none: uc_shape is evaluated abstractly on short lines (letters, a diacritic in
    between, Latin neighbours, the first and the last position) and the (previous, next) pair it
    hands to the form table must be the nearest characters that uc_acomb does not call
    combining, 0 at either end."""
    ctx.begin("K6", floor=1, what="neighbours used for shaping")
    prog = ctx.prog
    f = prog.func("uc_shape", file="uc.c")
    acomb = prog.func("uc_acomb", file="uc.c")
    lines = ["\u0628", "\u0628\u062a", "\u0627\u0628\u062a", "\u0628\u064e\u062a", "a\u0628\u064e\u064f\u062ab",
             "\u0628\u064e", "\u064e\u0628"]
    n = 0

    def comb(c):
        try:
            return bool(Interp(prog).call(acomb, [c]))
        except (Unsupported, OverRead) as e:
            raise AnalysisBroken("uc_acomb not evaluable: %s" % e)
    for ln in lines:
        b = ln.encode("utf-8")
        offs = []
        o = 0
        for ch in ln:
            offs.append(o)
            o += len(ch.encode("utf-8"))
        buf = tuple(b) + (0,)
        for i, ch in enumerate(ln):
            if not (0x600 <= ord(ch) <= 0x6ff) or comb(ord(ch)):
                continue
            want_prev = next((ord(c) for c in reversed(ln[:i]) if not comb(ord(c))), 0)
            want_next = next((ord(c) for c in ln[i + 1:] if not comb(ord(c))), 0)
            rec = []

            def h_cshape(ip, fn, e, args, env):
                rec.append(tuple(args))
                return args[0]
            base = Ptr(buf)
            try:
                Interp(prog, hooks={"uc_cshape": h_cshape, "uc_cput": lambda *a: None}).call(f, [base, base.add(offs[i])])
            except OverRead as e:
                ctx.violation("uc_shape", "neighbours used for shaping",
                              "reads outside the line %r while shaping the character at %d: %s" % (ln, i, e), f.loc(f.body))
                return
            except Unsupported as e:
                raise AnalysisBroken("uc_shape not evaluable: %s" % e)
            n += 1
            if not rec:
                raise AnalysisBroken("uc_shape: no call of uc_cshape on %r" % ln)
            cur, prev, nxt = rec[-1][:3]
            if (cur, prev, nxt) != (ord(ch), want_prev, want_next):
                ctx.violation("uc_shape", "neighbours used for shaping",
                              "in the line %s the letter U+%04X at position %d is shaped with previous U+%04X and "
                              "next U+%04X; its nearest non-combining neighbours are U+%04X and U+%04X (0 = none): "
                              "the letter gets the form of a joined one" % (
                                  " ".join("U+%04X" % ord(c) for c in ln), ord(ch), i,
                                  prev if isinstance(prev, int) else -1, nxt if isinstance(nxt, int) else -1,
                                  want_prev, want_next), f.loc(f.body))
                return
    ctx.ok("uc_shape", "previous / next are the nearest non-combining characters, none at the line's ends "
           "(%d letters in %d lines)" % (n, len(lines)))


def _walk_path(f, items, env, on_call):
    """Evaluate one CFG path (items of enum_paths) over concrete small integers: assignments to
    plain variables update env, branch conditions that evaluate against the path's direction
    make it infeasible (returns False), on_call(node, val) gives the value of a call (and may
    record it).  Only comparisons, !, &&, ||, ?:, + and - are evaluated; anything else is None."""
    vals = {}

    def val(e):
        e = strip_casts(e)
        if e["id"] in vals:
            return vals[e["id"]]
        k = e["k"]
        if k == "int":
            return e["v"]
        if e.get("cv") is not None:
            return e["cv"]
        if k == "ref":
            return env.get(e["name"])
        if k == "paren":
            return val(e["e"])
        if k == "cond":
            c = val(e["c"])
            return None if c is None else val(e["t"] if c else e["f"])
        if k == "un" and e["op"] in ("!", "-"):
            v = val(e["e"])
            return None if v is None else (int(not v) if e["op"] == "!" else -v)
        if k == "bin" and e["op"] in ("<", "<=", ">", ">=", "==", "!=", "+", "-", "&&", "||"):
            x, y = val(e["l"]), val(e["r"])
            if e["op"] == "&&" and (x == 0 or y == 0):
                return 0
            if e["op"] == "||" and ((x is not None and x != 0) or (y is not None and y != 0)):
                return 1
            if x is None or y is None:
                return None
            return {"<": int(x < y), "<=": int(x <= y), ">": int(x > y), ">=": int(x >= y),
                    "==": int(x == y), "!=": int(x != y), "+": x + y, "-": x - y,
                    "&&": int(bool(x) and bool(y)), "||": int(bool(x) or bool(y))}[e["op"]]
        if k == "bin" and e["op"] == "=":
            return val(e["r"])
        return None

    for it in items:
        if it[0] == "br":
            v = val(f.nodes[it[1]])
            if v is not None and bool(v) != bool(it[2]):
                return False
            continue
        if it[0] != "ev":
            continue
        n = f.nodes.get(it[1])
        if n is None:
            continue
        if n["k"] == "call":
            vals[n["id"]] = on_call(n, val)
            continue
        tgt = rhs = None
        if n["k"] == "bin" and n["op"] == "=" and n["l"]["k"] == "ref":
            tgt, rhs = n["l"]["name"], val(n["r"])
        elif n["k"] == "bin" and n["op"] in ("+=", "-=") and n["l"]["k"] == "ref":
            x, y = val(n["l"]), val(n["r"])
            tgt, rhs = n["l"]["name"], (None if x is None or y is None else (x + y if n["op"] == "+=" else x - y))
        elif n["k"] == "var" and "init" in n:
            tgt, rhs = n["name"], val(n["init"])
        elif n["k"] == "un" and n["op"] in ("post++", "pre++", "post--", "pre--") and n["e"]["k"] == "ref":
            x = val(n["e"])
            vals[n["id"]] = x if n["op"].startswith("post") else (None if x is None else x + (1 if "++" in n["op"] else -1))
            tgt, rhs = n["e"]["name"], (None if x is None else x + (1 if "++" in n["op"] else -1))
        if tgt is not None:
            env[tgt] = rhs
    return True


def rule_O3(ctx):
    """dir_fix reverses the whole matched span exactly when the context is right-to-left and the
    inner group exactly when the mark's own direction is right-to-left (whole span first), and
    recurses into the inner group -- without its first character when the group starts the
    match -- exactly when the mark has a nested group.  One iteration of its loop is evaluated
    over all paths for the four sign combinations; which out-parameter of dir_match is the whole
    match, the group and the direction is read from dir_match's own stores."""
    ctx.begin("O3", floor=1, what="which spans dir_fix reverses")
    import itertools
    from ..cfg import enum_paths
    prog = ctx.prog
    f = prog.func("dir_fix", file="dir.c")
    if not any(True for _ in f.calls("dir_match")):
        for c_ in f.calls():
            h_ = prog.resolve(f, c_["fn"]) if c_.get("fn") else None
            if h_ is not None and h_.file == f.file and h_ is not f and any(True for _ in h_.calls("dir_match")):
                f = h_
                break
    dm = prog.func("dir_match", file="dir.c")
    pn = [p_["name"] for p_ in dm.params]
    role = {}
    for n, lv, op, rhs in stores(dm.body):
        if lv["k"] == "un" and lv["op"] == "*" and strip_casts(lv["e"])["k"] == "ref" and strip_casts(lv["e"])["name"] in pn and rhs is not None:
            nm = strip_casts(lv["e"])["name"]
            def subs_of(e_, depth=0):
                out_ = [x for x in walk(e_) if x["k"] == "sub" and strip_casts(x["base"])["k"] == "ref" and strip_casts(x["base"])["name"] == "subs"]
                if depth < 2:
                    for r_ in refs(e_):
                        if r_.get("cat") == "local":
                            d_ = resolve_local(dm, r_)
                            if d_ is not None and d_["id"] != r_["id"]:
                                out_ += subs_of(d_, depth + 1)
                return out_
            subs = subs_of(rhs)
            if not subs:
                if any(r_["name"] == "grp" for r_ in refs(rhs)):
                    role["rec"] = pn.index(nm)
                continue
            ci = [cval(x["idx"]) for x in subs]
            if all(c_ == 0 for c_ in ci):
                role["wb"] = pn.index(nm)
            elif all(c_ == 1 for c_ in ci):
                role["we"] = pn.index(nm)
            elif any(c_ is None for c_ in ci):
                odd = any("+1" in key(x["idx"]).replace(" ", "") for x in subs if cval(x["idx"]) is None)
                role.setdefault("ce" if odd else "cb", pn.index(nm))
    for c in dm.calls("conf_dirmark"):
        for a_ in c["args"]:
            a_ = strip_casts(a_)
            if a_["k"] == "ref" and a_["name"] in pn and a_.get("ty", "").endswith("*"):
                role["cdir"] = pn.index(a_["name"])
    if set(role) != {"wb", "we", "cb", "ce", "cdir", "rec"}:
        raise AnalysisBroken("dir_match: roles of the out-parameters not recognised (%s)" % sorted(role))
    calls = list(f.calls("dir_match"))
    if len(calls) != 1:
        raise AnalysisBroken("dir_fix: one call of dir_match expected")
    mc = calls[0]

    def outvar(r_):
        a_ = strip_casts(mc["args"][role[r_]])
        if a_["k"] == "un" and a_["op"] == "&" and a_["e"]["k"] == "ref":
            return a_["e"]["name"]
        raise AnalysisBroken("dir_fix: argument %d of dir_match is not &variable" % role[r_])
    V = {r_: outvar(r_) for r_ in role}
    ctxarg = strip_casts(mc["args"][3])
    if ctxarg["k"] != "ref":
        raise AnalysisBroken("dir_fix: context argument of dir_match")
    cfg = f.cfg
    loops = cfg.loops()
    mb = cfg.pos(mc)[0]
    heads = [h for h, body in loops.items() if mb in body or h == mb]
    if heads:
        head = min(heads, key=lambda h: len(loops[h]))
        body = loops[head] | {head}
        paths = enum_paths(cfg, head, {head}, within=body)
    else:
        # the loop body is a function of its own: its paths from entry to exit
        head = cfg.exit
        paths = enum_paths(cfg, cfg.entry, set())
    n = 0
    def effect(l):
        o = list(range(20))
        for g in l:
            if g[0] == "rev":
                if not (isinstance(g[1], int) and isinstance(g[2], int)):
                    return None
                o[g[1]:g[2]] = o[g[1]:g[2]][::-1]
        return o, [g for g in l if g[0] == "fix"]

    for dirv, cdir, rec, cb in itertools.product((-1, 1), (-1, 1), (0, 1), (2, 4)):
        ce = 7
        if not rec:            # a mark without a nested group: the group is the whole match
            cb, ce = 2, 9
        want = ([("rev", 2, 9)] if dirv < 0 else []) + ([("rev", cb, ce)] if cdir < 0 else []) + \
               ([("fix", cdir, cb + (1 if cb == 2 else 0), ce)] if rec else [])
        for items, end in paths:
            if end != head:
                continue
            got = []
            env = {ctxarg["name"]: dirv, "beg": 0, "end": 20}

            def on_call(nd, val, env=None):
                return None
            def mk(env):
                def on_call(nd, val):
                    fn = nd.get("fn")
                    if nd["id"] == mc["id"]:
                        env.update({V["wb"]: 2, V["we"]: 9, V["cb"]: cb, V["ce"]: ce, V["cdir"]: cdir, V["rec"]: rec})
                        return 0
                    if fn == "dir_reverse":
                        got.append(("rev", val(nd["args"][1]), val(nd["args"][2])))
                    elif fn == "dir_fix":
                        got.append(("fix", val(nd["args"][2]), val(nd["args"][3]), val(nd["args"][4])))
                    return None
                return on_call
            if not _walk_path(f, items, env, mk(env)):
                continue
            if not any(x[0] == "ev" and x[1] == mc["id"] for x in items):
                continue
            n += 1
            if effect(got) != effect(want):
                show = lambda l: ", ".join("%s%s" % ("reverse" if g[0] == "rev" else "recurse", g[1:]) for g in l) or "nothing"
                ctx.violation("dir_fix", "spans reversed for a matched mark",
                              "context %s, mark direction %s, %s nested group, match [2,9) with group [%d,%d): dir_fix does "
                              "{%s}; the whole match is reversed iff the context is right-to-left and the group iff the "
                              "mark is, i.e. {%s}" % ("rtl" if dirv < 0 else "ltr", "rtl" if cdir < 0 else "ltr",
                                                    "with a" if rec else "without", cb, ce, show(got), show(want)), f.loc(mc))
                return
    if n < 16:
        raise AnalysisBroken("dir_fix: only %d iteration paths evaluated" % n)
    ctx.ok("dir_fix", "whole match reversed iff the context is rtl, group iff the mark is rtl, recursion into the "
           "group iff nested (%d path x sign cases)" % n)


def rule_V8(ctx):
    """Whether a change command is recorded for `.` depends on the command just typed only: the
    copy of the key record into the repeat buffer (and its length, and register `.`) is guarded
    by nothing but values of the current iteration of the main loop -- a guard that reads a
    static or global variable makes recording depend on what happened before."""
    ctx.begin("V8", floor=2, what="the repeat record is saved for every change command")
    prog = ctx.prog
    f = prog.func("vi", file="vi.c")
    rep = None
    sites = []
    for c in f.calls("memcpy"):
        a0 = strip_casts(c["args"][0])
        if a0["k"] == "ref" and a0.get("cat") in ("global", "sglobal", "static") and \
                any("arr_n" in g_ for g_ in prog.globals.get(a0["name"], [])):
            rep = a0["name"]
            sites.append((c, "copy into %s" % rep))
    if rep is None:
        raise AnalysisBroken("vi(): copy into the repeat buffer not found")
    for c in f.calls("reg_put"):
        if cval(c["args"][0]) == ord("."):
            sites.append((c, "register `.`"))
    loopconds = set()
    for lp in f.walk():
        if lp["k"] in ("while", "for", "do") and lp.get("c") is not None:
            c_, _t = negate_truth(lp["c"], True)
            loopconds.add(key(c_))
    for c, what in sites:
        bad = None
        for cc, t in fact_list(f, c["id"]):
            if key(cc) in loopconds:
                continue
            for r_ in refs(cc):
                if r_.get("cat") in ("global", "sglobal", "static"):
                    if any("arr_n" in g_ for g_ in prog.globals.get(r_["name"], [])):
                        continue                  # an array's name (its size), not a state
                    bad = bad or (cc, r_["name"])
        if bad:
            ctx.violation("vi", "the repeat record is saved for every change command",
                          "the %s is under the test %s of the %s variable %s: whether a change is recorded for `.` "
                          "depends on earlier commands (a change typed after `N.` is not recorded and a later `.` "
                          "repeats an older one)" % (what, key(bad[0]), "static", bad[1]), f.loc(c))
        else:
            ctx.ok("vi", "%s guarded by values of the current command only" % what, loc=f.loc(c))


def rule_V7(ctx):
    """pos_next / pos_prev pick the nearest column whatever the order of pos[]: on a reordered
    (bidi) line the columns are not increasing with the character index.  Both are evaluated
    abstractly on every arrangement of up to four columns drawn from 0..5 (duplicates = width 0
    included), every probe column and both `cur` values, against min / max over the
    qualifying entries."""
    ctx.begin("V7", floor=2, what="nearest column independent of the order of pos[]")
    import itertools
    prog = ctx.prog
    for name, pick in (("pos_next", min), ("pos_prev", max)):
        f = prog.func(name, file="ren.c")
        n = 0
        bad = None
        for L in range(0, 5):
            for arr in itertools.product(range(0, 6, 1 if L < 4 else 2), repeat=L):
                for p in range(-1, 7):
                    for cur in (0, 1):
                        if name == "pos_next":
                            q = [v for v in arr if v - (0 if cur else 1) >= p]
                        else:
                            q = [v for v in arr if v + (0 if cur else 1) <= p]
                        want = pick(q) if q else -1
                        try:
                            got = Interp(prog).call(f, [dict(enumerate(arr)), L, p, cur])
                        except (Unsupported, OverRead) as e:
                            raise AnalysisBroken("%s not evaluable: %s" % (name, e))
                        n += 1
                        if got != want and bad is None:
                            bad = (arr, p, cur, got, want)
        if bad:
            arr, p, cur, got, want = bad
            ctx.violation(name, "nearest column whatever the order of pos[]",
                          "%s(pos=%s, p=%d, cur=%d) returns %s, the %s qualifying column is %d: on a line with a "
                          "reversed run the cursor lands on the wrong character" % (
                              name, list(arr), p, cur, got, "smallest" if pick is min else "largest", want), f.loc(f.body))
        else:
            ctx.ok(name, "%s of the qualifying columns on %d (arrangement, probe, cur) cases" % (
                "minimum" if pick is min else "maximum", n))


def _h_atoi(ip, f, e, args, env):
    p_ = args[0]
    if not isinstance(p_, Ptr):
        raise Unsupported("atoi of a non-string")
    i, sgn, v = 0, 1, 0
    while p_.read(i) in (0x20, 0x09):
        i += 1
    if p_.read(i) in (0x2b, 0x2d):
        sgn = -1 if p_.read(i) == 0x2d else 1
        i += 1
    while 0x30 <= p_.read(i) <= 0x39:
        v = v * 10 + p_.read(i) - 0x30
        i += 1
    return sgn * v


def rule_X10(ctx):
    """Line addresses: an address is its base (number, `.`, `$`) plus *all* the signed offsets
    that follow it, a range is the last two addresses of the list, and `;` makes the address
    before it the current line for the ones after.  ex_region (with ex_lineno) is evaluated
    abstractly on a list of address strings for a 10-line buffer with the cursor on line 5 and
    compared with that reference reading."""
    ctx.begin("X10", floor=1, what="address lists: offsets chain, last two addresses, `;`")
    prog = ctx.prog
    f = prog.func("ex_region", file="ex.c")
    L, XROW = 10, 4

    def ref(loc):
        cur = XROW
        addrs = []
        i = 0
        while i < len(loc):
            c = loc[i]
            if c == ".":
                n = cur
                i += 1
            elif c == "$":
                n = L - 1
                i += 1
            elif c.isdigit():
                j = i
                while j < len(loc) and loc[j].isdigit():
                    j += 1
                n = int(loc[i:j]) - 1
                i = j
            else:
                n = cur
            while i < len(loc) and loc[i] in "+-":
                j = i + 1
                while j < len(loc) and loc[j].isdigit():
                    j += 1
                n += int(loc[i:j]) if j > i + 1 else 0
                i = j
            addrs.append(n)
            while i < len(loc) and loc[i] not in ",;":
                i += 1
            if i < len(loc):
                if loc[i] == ";":
                    cur = n
                i += 1
        beg = addrs[-2] if len(addrs) > 1 else addrs[-1]
        end = addrs[-1] + 1
        if beg < 0 and end == 0:
            beg = 0
        if beg < 0 or beg >= L or end < beg or end > L:
            return None
        return beg, end
    cases = ["3", "2,4", "1,2,4", "2;+1", "1,2;+1", "1,3;+1,+2", "2+1+1", "$-1-1", ".+2+1,$", "5-1+3",
             "2+1+1,$-1-1", "11", "4,2", ".,.+1+1", "1,2,3,4", "$", ".", "3;.,+1+1"]
    n = 0
    for loc in cases:
        b, e_ = {"__deref__": OPAQUE}, {"__deref__": OPAQUE}
        try:
            rv = Interp(prog, hooks={"atoi": _h_atoi, "lbuf_len": lambda *a: L, "ex_lbuf": lambda *a: {}},
                        globals_={"xrow": XROW}, shared_globals=True).call(f, [Ptr(tuple(loc.encode()) + (0,)), b, e_])
        except (Unsupported, OverRead) as ex_:
            raise AnalysisBroken("ex_region(%r) not evaluable: %s" % (loc, ex_))
        n += 1
        want = ref(loc)
        got = None if rv != 0 else (b["__deref__"], e_["__deref__"])
        if got != want:
            sh = lambda r: "rejected" if r is None else "lines %d..%d" % (r[0] + 1, r[1])
            ctx.violation("ex_region", "address list read as base + all offsets, last two addresses",
                          "`%s` (10 lines, cursor on line 5) is %s; by the reference reading it is %s" % (
                              loc, sh(got), sh(want)), f.loc(f.body))
            return
    ctx.ok("ex_region", "%d address lists agree with the reference reading" % n)


def rule_O4(ctx):
    """The base direction of a line follows the textdirection option as documented: +2 / -2
    always ltr / rtl; +1 / -1 follow the context patterns and are ltr / rtl for lines that match
    none; 0 is ltr when the first character is single-byte and follows the patterns otherwise.
    dir_context is evaluated abstractly for the five option values and four kinds of first
    character, the pattern set modelled as (rtl letter -> -1, Latin letter or digit -> +1)."""
    ctx.begin("O4", floor=1, what="base direction from the option and the context patterns")
    prog = ctx.prog
    f = prog.func("dir_context", file="dir.c")
    kinds = {"latin": "a", "ascii neutral": " ", "rtl letter": "\u0628", "other multi-byte": "\u00e9"}
    n = 0
    for xtd in (-2, -1, 0, 1, 2):
        for kind, ch in kinds.items():
            idx = {"rtl letter": 0, "latin": 1}.get(kind, -1)

            def h_find(ip, fn, e, args, env, idx=idx):
                return idx

            def h_ctx(ip, fn, e, args, env):
                i_ = args[0]
                if not isinstance(i_, int) or i_ < 0 or i_ > 1:
                    return 1
                for a_ in args[1:]:
                    if isinstance(a_, dict) and "__deref__" in a_:
                        a_["__deref__"] = (-1, 1)[i_]
                return 0
            try:
                got = Interp(prog, hooks={"rset_find": h_find, "conf_dircontext": h_ctx},
                             globals_={"xtd": xtd, "dir_rsctx": {"set": 1}}).call(
                                 f, [Ptr(tuple((ch + "bc").encode("utf-8")) + (0,))])
            except (Unsupported, OverRead) as e:
                raise AnalysisBroken("dir_context not evaluable: %s" % e)
            pat = {0: -1, 1: 1}.get(idx)
            if xtd >= 2:
                want = 1
            elif xtd <= -2:
                want = -1
            elif xtd == 0 and ord(ch) < 0x80:
                want = 1
            else:
                want = pat if pat is not None else (-1 if xtd < 0 else 1)
            n += 1
            if got != want:
                ctx.violation("dir_context", "base direction as documented for textdirection",
                              "td=%+d and a line starting with a %s character: dir_context gives %s, the documented "
                              "direction is %+d" % (xtd, kind, got, want), f.loc(f.body))
                return
    ctx.ok("dir_context", "%d (option, first character) cases agree with the documented meaning of td" % n)


def rule_V9(ctx):
    """f / F / t / T with a count, also a negative one (`,` repeats the search the other way):
    the n-th occurrence in the effective direction, and for t / T one character back towards
    where the search came from.  lbuf_findchar is evaluated abstractly on two short lines (one
    with a two-byte character) for every command letter, count in +-1..2 and start offset, and
    compared with that reading; a failed search leaves the offset alone."""
    ctx.begin("V9", floor=1, what="character search with counts in both directions")
    prog = ctx.prog
    f = prog.func("lbuf_findchar", file="mot.c")
    n = 0
    for ln, tgt in (("a x b x c", "x"), ("x\u00e9x.x", "x")):
        chars = list(ln)
        buf = Ptr(tuple((ln + "\n").encode("utf-8")) + (0,))
        for cmd in "fFtT":
            for cnt in (1, 2, -1, -2):
                for off in range(len(chars)):
                    d = 1 if cmd in "ft" else -1
                    if cnt < 0:
                        d = -d
                    k, pos, left = off, None, abs(cnt)
                    while left:
                        k += d
                        if k < 0 or k >= len(chars):
                            break
                        if chars[k] == tgt:
                            left -= 1
                    want = None
                    if not left:
                        want = k - d if cmd in "tT" else k
                    row, o = {"__deref__": 0}, {"__deref__": off}
                    try:
                        rv = Interp(prog, hooks={"lbuf_get": lambda *a: buf}).call(
                            f, [{}, Ptr(tuple(tgt.encode()) + (0,)), ord(cmd), cnt, row, o])
                    except (Unsupported, OverRead) as e:
                        raise AnalysisBroken("lbuf_findchar not evaluable: %s" % e)
                    n += 1
                    got = o["__deref__"] if rv == 0 else None
                    if got != want or (want is None and o["__deref__"] != off):
                        ctx.violation("lbuf_findchar", "n-th occurrence in the effective direction",
                                      "on `%s` from offset %d, `%s` with count %d gives %s; the %d. `%s` %s is at %s%s" % (
                                          ln, off, cmd, cnt, "offset %s" % got if got is not None else "no match",
                                          abs(cnt), tgt, "to the right" if d > 0 else "to the left",
                                          "none" if want is None else "offset %d" % (want + d if cmd in "tT" else want),
                                          "" if want is None or cmd in "fF" else ", one short of it: offset %d" % want),
                                      f.loc(f.body))
                        return
    ctx.ok("lbuf_findchar", "%d (line, command, count, start) cases agree with the reference reading" % n)


def rule_T10(ctx):
    """A typed multi-byte character is read whole: led_readchar, evaluated abstractly for every
    kind of lead byte with its static buffer in the initial (all zero) state, reads exactly the
    number of continuation bytes the lead byte announces and returns them as one string."""
    ctx.begin("T10", floor=1, what="typed multi-byte characters are read whole")
    prog = ctx.prog
    fn = prog.func("led_readchar", file="led.c")
    n = 0
    for c, want in ((0xc3, 2), (0xdf, 2), (0xe2, 3), (0xef, 3), (0xf0, 4), (0xf4, 4)):
        reads = []

        def term_read(it, f, e, args, env):
            reads.append(1)
            return 0x80 + len(reads)
        try:
            v = Interp(prog, hooks={"term_read": term_read}).call(fn, [c, 0])
        except (Unsupported, OverRead) as e:
            raise AnalysisBroken("led_readchar not evaluable: %s" % e)
        n += 1
        got = None
        if isinstance(v, dict):
            got = [v.get(i) for i in range(want + 1)]
        elif isinstance(v, Ptr):
            got = [v.read(i) for i in range(want + 1)]
        exp = [c] + [0x81 + i for i in range(want - 1)] + [0]
        if len(reads) != want - 1 or got != exp:
            ctx.violation("led_readchar", "a typed multi-byte character is read whole",
                          "lead byte 0x%02x announces %d bytes but %d more %s read and the returned string is %s: "
                          "the rest of the character is taken for commands (the length is asked of a buffer "
                          "that holds only the lead byte)" % (c, want, len(reads), "is" if len(reads) == 1 else "are", got),
                          fn.loc(fn.body))
            return
    ctx.ok("led_readchar", "reads exactly the announced continuation bytes for %d kinds of lead byte" % n)


def rule_R14(ctx):
    """Ignore-case in a bracket range: a character matches [X-Y] when it or its other case lies
    in the range as written.  brk_match is evaluated abstractly for every range over a set of
    letter / punctuation end points and every printable character, with and without the flag."""
    ctx.begin("R14", floor=1, what="bracket ranges under ignore-case")
    prog = ctx.prog
    bm = prog.func("brk_match", file="regex.c")
    am = prog.func("ratom_match", file="regex.c")
    icase = None
    for bit in (1, 2, 4, 8, 16, 32, 64, 128):
        line = (0x41, 0x0a, 0)
        sp = Ptr(line)
        st = {"s": Ptr(line, 0, sp.log), "o": sp, "flg": bit, "pc": 0, "dep": 0}
        try:
            if Interp(prog).call(am, [{"ra": 0, "s": Ptr((0x61, 0))}, st]) == 0:
                icase = bit
                break
        except (Unsupported, OverRead):
            continue
    if icase is None:
        raise AnalysisBroken("ignore-case flag not found")
    ends = [ord(c) for c in "AWZ_abz"]
    n = 0
    bad = None
    for x in ends:
        for y in ends:
            if y < x:
                continue
            brk = Ptr((x, 0x2d, y, 0x5d, 0))          # the text after `[`
            for c in range(0x20, 0x7f):
                for flg in (0, icase):
                    try:
                        v = Interp(prog).call(bm, [brk, c, flg])
                    except (Unsupported, OverRead) as e:
                        raise AnalysisBroken("brk_match not evaluable: %s" % e)
                    n += 1
                    alts = {c}
                    if flg and chr(c).isalpha():
                        alts.add(ord(chr(c).swapcase()))
                    want = any(x <= a <= y for a in alts)
                    if (v == 0) != want and bad is None:
                        bad = (x, y, c, flg, v == 0, want)
    if bad:
        x, y, c, flg, got, want = bad
        ctx.violation("brk_match", "bracket range under ignore-case",
                      "[%s-%s] %s %r %s ignore-case, but %s: the ends of the range are folded separately" % (
                          chr(x), chr(y), "matches" if got else "does not match", chr(c),
                          "with" if flg else "without", "it should" if want else "it should not"), bm.loc(bm.body))
    else:
        ctx.ok("brk_match", "a character matches [X-Y] exactly when it or (with ignore-case) its other case is in "
               "the range, on %d (range, character, flag) cases" % n)


_INT_WIDTH = {"char": 1, "signed char": 1, "unsigned char": 1, "_Bool": 1, "int8_t": 1, "uint8_t": 1,
              "short": 2, "unsigned short": 2, "int16_t": 2, "uint16_t": 2,
              "int": 4, "unsigned int": 4, "unsigned": 4, "int32_t": 4, "uint32_t": 4,
              "long": 8, "unsigned long": 8, "long long": 8, "unsigned long long": 8,
              "size_t": 8, "ssize_t": 8, "int64_t": 8, "uint64_t": 8, "off_t": 8}


def _int_width(ty):
    t = " ".join(w for w in str(ty or "").split() if w not in ("const", "volatile", "register", "static"))
    return _INT_WIDTH.get(t)


def rule_U7(ctx):
    """Entries of one undo step are recognised by comparing stored copies of the command counter
    that lbuf_modified() advances.  Two commands are told apart only while every copy keeps all
    the counter's bits: a copy held in a narrower integer makes commands 2^k apart share a step,
    and one undo then reverts both.  The counter is found as the field lbuf_modified increments;
    every field, local and return value of lbuf.c that (transitively) receives it is a carrier,
    and every carrier must be at least as wide as the counter."""
    ctx.begin("U7", floor=5, what="copies of the command counter are as wide as the counter")
    prog = ctx.prog
    fm = prog.func("lbuf_modified", file="lbuf.c")
    counter = None
    for n, lv, op, rhs in stores(fm.body):
        if rhs is None and lv_field(lv) and not lv_field(lv)[2]:
            counter = lv_field(lv)[:2]
            cw = _int_width(lv.get("ty"))
            cty = lv.get("ty")
    if counter is None:
        raise AnalysisBroken("lbuf_modified increments no field: the command counter was not found")
    if cw is None:
        raise AnalysisBroken("width of the counter's type %s is not known" % cty)
    funcs = [f for f in prog.funcs.values() if f.file == "lbuf.c"]
    fields, locs, rets = {counter}, set(), set()

    def carries(e):
        e = strip_casts(e)
        while e is not None and e["k"] == "paren":
            e = strip_casts(e["e"])
        if e is None:
            return False
        if e["k"] == "cond":
            return carries(e["t"]) or carries(e["f"])
        if e["k"] == "member":
            lf = lv_field(e)
            return bool(lf) and not lf[2] and lf[:2] in fields
        if e["k"] == "ref":
            return e.get("did") in locs
        if e["k"] == "call":
            return e.get("fn") in rets
        return False

    seen = {}
    changed = True
    while changed:
        changed = False
        for f in funcs:
            for n in f.walk():
                if n["k"] == "return" and n.get("e") is not None and carries(n["e"]) and f.name not in rets:
                    rets.add(f.name)
                    seen[("ret", f.name)] = (f, n, f.d.get("ret"), "value returned by %s()" % f.name)
                    changed = True
            for n, lv, op, rhs in stores(f.body):
                if rhs is None or op not in ("=", "init") or not carries(rhs):
                    continue
                if lv["k"] in ("ref", "var"):
                    did = lv.get("did")
                    if did is not None and did not in locs:
                        locs.add(did)
                        changed = True
                    seen[("loc", f.name, did)] = (f, n, lv.get("ty"), "local %s of %s" % (lv.get("name"), f.name))
                else:
                    lf = lv_field(lv)
                    if lf and not lf[2]:
                        if lf[:2] not in fields:
                            fields.add(lf[:2])
                            changed = True
                        seen[("fld",) + lf[:2]] = (f, n, lv.get("ty"), "field %s.%s" % lf[:2])
    for kk, (f, n, ty, what) in sorted(seen.items(), key=lambda x: str(x[0])):
        w = _int_width(ty)
        if w is None:
            ctx.inconclusive(f.name, "copy of the command counter keeps all its bits",
                             "%s has type %s whose width is not known to the rule" % (what, ty), f.loc(n))
        elif w < cw:
            ctx.violation(f.name, "copy of the command counter keeps all its bits",
                          "%s (%s, %d bytes) receives the command counter %s.%s (%s, %d bytes): commands 2^%d apart "
                          "get the same step number, so one undo reverts both and the redo reinstates both"
                          % (what, ty, w, counter[0], counter[1], cty, cw, 8 * w), f.loc(n))
        else:
            ctx.ok(f.name, "%s (%s) holds the counter without narrowing" % (what, ty), loc=f.loc(n))


def rule_Q4(ctx):
    """Every key term_read hands out is appended to the command record term_cmd returns: the
    append is guarded by nothing but the record's own capacity test.  A guard that reads other
    program state (a static or global) makes the record depend on where the key came from --
    keys replayed by `.` or `@r` would be missing from the record of the change they make."""
    ctx.begin("Q4", floor=1, what="the key record is appended unconditionally (capacity aside)")
    prog = ctx.prog
    fc = prog.func("term_cmd", file="term.c")
    rec = None
    for n in fc.walk():
        if n["k"] == "return" and n.get("e") is not None:
            e = strip_casts(n["e"])
            if e["k"] == "ref" and e.get("cat") in ("global", "slocal"):
                rec = e["name"]
    if rec is None:
        raise AnalysisBroken("term_cmd does not return a static record")
    f = prog.func("term_read", file="term.c")
    found = 0
    for n, lv, op, rhs in stores(f.body):
        b = lv
        if b["k"] != "sub":
            continue
        base = strip_casts(b["base"])
        if base["k"] != "ref" or base["name"] != rec:
            continue
        found += 1
        own = {r["name"] for r in refs(b["idx"])} | {rec}
        bad = und = None
        for a in f.ancestors(n["id"]):
            if a["k"] in ("if", "cond", "while", "for", "do", "switch") and isinstance(a.get("c"), dict):
                for r in refs(a["c"]):
                    if r["name"] in own:
                        continue
                    if r.get("cat") in ("global", "slocal"):
                        bad = (a, r["name"])
                    else:
                        und = (a, r["name"])
        if bad:
            ctx.violation("term_read", "key record appended whatever the key's origin",
                          "the append to %s[] is guarded by `%s`, which reads the static/global %s: some keys handed "
                          "out are not recorded, so the record of a change executed from a register or by `.` "
                          "is incomplete" % (rec, key(bad[0]["c"])[:60], bad[1]), f.loc(n))
        elif und:
            ctx.inconclusive("term_read", "key record appended whatever the key's origin",
                             "the append to %s[] is guarded by `%s` (reads %s)" % (rec, key(und[0]["c"])[:60], und[1]), f.loc(n))
        else:
            ctx.ok("term_read", "the append to %s[] is guarded only by its own capacity test" % rec, loc=f.loc(n))
        # the same guard spelt as an early exit: a key returned before the append is reached
        for r_ in f.walk():
            if r_["k"] != "return" or r_.get("e") is None or cval(r_["e"]) is not None or r_["ln"] >= n["ln"]:
                continue
            for a in f.ancestors(r_["id"]):
                if a["k"] in ("if", "cond", "while", "for", "do", "switch") and isinstance(a.get("c"), dict):
                    outs = [x["name"] for x in refs(a["c"]) if x["name"] not in own]
                    if any(x.get("cat") in ("global", "slocal") for x in refs(a["c"]) if x["name"] not in own):
                        ctx.violation("term_read", "key record appended whatever the key's origin",
                                      "a key is returned before the append to %s[] under `%s`, which reads other program "
                                      "state (%s): that key is missing from the record" % (rec, key(a["c"])[:60], ", ".join(outs)),
                                      f.loc(r_))
                    elif outs:
                        ctx.inconclusive("term_read", "key record appended whatever the key's origin",
                                         "a key is returned before the append under `%s`" % key(a["c"])[:60], f.loc(r_))
    if not found:
        raise AnalysisBroken("term_read does not store into %s[]" % rec)


RULES = {"Q4": rule_Q4, "U7": rule_U7, "M5": rule_M5, "L6": rule_L6, "P3": rule_P3, "X9": rule_X9, "U6": rule_U6, "T7": rule_T7,
         "T8": rule_T8, "S6": rule_S6, "S7": rule_S7, "B15": rule_B15, "T9": rule_T9, "T10": rule_T10, "V9": rule_V9, "O4": rule_O4, "X10": rule_X10, "V7": rule_V7, "V8": rule_V8, "O3": rule_O3, "K6": rule_K6, "Q2": rule_Q2, "Q1": rule_Q1, "G9": rule_G9, "G8": rule_G8, "S8": rule_S8, "R14": rule_R14}
