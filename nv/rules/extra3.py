"""Small structural clauses added after the fourth round of independent breaking changes
(DESIGN.md section 7.2).  Same alarm policy as everywhere."""
from ..absint import Interp, Ptr, OverRead, Unsupported, OPAQUE
from ..cfg import paths_to
from ..facts import AnalysisBroken, walk, key, cval
from ..lin import Lin
from ..util import (stores, lv_field, is_call, calls_in, refs, strip_casts, negate_truth, flatten_and,
                    flatten_or, enclosing, resolve_local, path_consistent, nullness)
from .w import _facts


def rule_M5(ctx):
    """ex_kwdset records the direction on every path, also when no keyword is given: an empty
    `?` after `/pat` re-aims the remembered pattern."""
    ctx.begin("M5", floor=1, what="search direction stored by ex_kwdset")
    prog = ctx.prog
    f = prog.func("ex_kwdset", file="ex.c")
    dirp = f.params[1]["name"]
    sts = [n for n, lv, op, rhs in stores(f.body)
           if lv["k"] == "ref" and lv.get("cat") in ("global", "sglobal", "static") and op == "=" and
           rhs is not None and key(strip_casts(rhs)) == dirp]
    if not sts:
        raise AnalysisBroken("ex_kwdset: store of the direction not found")
    # every path to the exit passes one of them
    hit = f.cfg.search(f.cfg.entry, lambda e: e == ("exit",), avoid=lambda e: any(e == s_["id"] for s_ in sts),
                       start_block=True)
    if hit is not None:
        ctx.violation("ex_kwdset", "direction recorded on every path",
                      "a path through ex_kwdset returns without storing the direction (the caller passes a "
                      "NULL keyword for `/<Enter>` and `?<Enter>` to change the direction only)", f.loc(sts[0]))
    else:
        ctx.ok("ex_kwdset", "the direction is stored on every path, with or without a keyword", loc=f.loc(sts[0]))


def rule_L6(ctx):
    """rstr_find hands a pattern with operators to the set matcher before it looks at any of the
    literal classifier's fields (they are stale for such a pattern)."""
    ctx.begin("L6", floor=1, what="delegation precedes the literal-path tests in rstr_find")
    prog = ctx.prog
    f = prog.func("rstr_find", file="rstr.c")
    pn = f.params[0]["name"]
    n = 0
    for r in f.cfg.return_nodes():
        e = strip_casts(r.get("e")) if r.get("e") is not None else None
        if e is not None and is_call(e, "rset_find"):
            continue
        n += 1
        okr = False
        for c, t in _facts(f, r):
            nn = nullness(c, t)
            if nn is not None and nn[0]["k"] == "member" and nn[0]["field"] == "rs" and nn[1]:
                okr = True
        if okr:
            ctx.ok("rstr_find", "a literal-path return only when the pattern has no compiled set", loc=f.loc(r))
        else:
            ctx.violation("rstr_find", "patterns with operators go to the regex engine",
                          "`return %s` is reachable while %s->rs is set: the anchor flags left by the "
                          "classifier decide the answer for a pattern it gave up on (e.g. ^a|b with RE_NOTBOL)" % (
                              key(e) if e is not None else "", pn), f.loc(r))
    if not n:
        raise AnalysisBroken("rstr_find: no literal-path return")


def rule_P3(ctx):
    """No use of a local alias after the block it points to was freed (same function)."""
    ctx.begin("P3", floor=2, what="frees with a live local alias")
    prog = ctx.prog
    n_free = 0
    for f in prog.funcs.values():
        if f.file in ("stag.c",):
            continue
        for c in f.calls("free"):
            n_free += 1
            a = strip_casts(c["args"][0])
            ka = key(a)
            # locals assigned from the freed expression (also through `x ? x : ..`) before the free
            aliases = []
            for n, lv, op, rhs in stores(f.body):
                if op not in ("=", "init") or rhs is None or lv["k"] not in ("ref", "var"):
                    continue
                nm = lv["name"]
                if nm == ka or lv.get("cat") not in ("local", None) and lv["k"] != "var":
                    continue
                r = strip_casts(rhs)
                srcs = [r]
                if r["k"] == "cond":
                    srcs = [strip_casts(r["t"]), strip_casts(r["f"])]
                if not any(key(x) == ka for x in srcs) or a["k"] == "ref" and a.get("cat") == "local" and False:
                    continue
                if f.cfg.pos(n) is None or f.cfg.pos(c) is None:
                    continue
                if f.cfg.search(f.cfg.pos(n), lambda e, t=c["id"]: e == t) is None:
                    continue
                aliases.append((nm, n))
            bad = None
            for nm, def_n in aliases:
                rebinds = {x["id"] for x, lv, op, rhs in stores(f.body)
                           if lv["k"] in ("ref", "var") and lv.get("name") == nm and x["id"] != def_n["id"]}
                # the freed expression itself may be re-bound in between (free(p); p = dup(..)): the
                # alias still points to the old block
                for u in f.walk():
                    if u["k"] != "ref" or u["name"] != nm:
                        continue
                    if any(x["id"] == u["id"] for x in walk(c)):
                        continue
                    par = f.nodes.get(f.parent.get(u["id"]))
                    if par is not None and par["k"] == "bin" and par["op"] == "=" and par["l"]["id"] == u["id"]:
                        continue
                    pu = f.cfg.pos(u)
                    if pu is None:
                        continue
                    if f.cfg.search(f.cfg.pos(c), lambda e, t=u["id"]: e == t,
                                    avoid=lambda e: e in rebinds) is not None and \
                            f.cfg.search(f.cfg.pos(def_n), lambda e, t=c["id"]: e == t,
                                         avoid=lambda e: e in rebinds) is not None:
                        # only a dereferencing / passing use counts, not a null test
                        if par is not None and par["k"] == "un" and par["op"] == "!":
                            continue
                        bad = (nm, u)
            if bad:
                ctx.violation(f.name, "no use of an alias after free",
                              "`%s` was assigned from %s, which is freed here, and is used afterwards: it "
                              "points into freed memory" % (bad[0], ka), f.loc(bad[1]))
            elif aliases:
                ctx.ok(f.name, "free(%s): its local alias is not used afterwards" % ka[:30], loc=f.loc(c))
    if n_free < 10:
        raise AnalysisBroken("only %d free() calls" % n_free)
    ctx.ok("*", "%d free() calls examined for live aliases" % n_free)


def rule_X9(ctx):
    """A descriptor written from inside a poll() loop together with reads of the child's output
    is non-blocking: otherwise one write() of the whole input can block while the child blocks
    on its own output (a deadlock for inputs larger than the pipe)."""
    ctx.begin("X9", floor=1, what="pipe written inside a poll loop")
    prog = ctx.prog
    f = prog.func("cmd_pipe", file="cmd.c")
    n = 0
    for w in f.calls("write"):
        lp = enclosing(f, w["id"], ("while", "for", "do"))
        if lp is None or not any(is_call(x, "poll") for x in walk(lp)):
            continue
        if not any(is_call(x, "read") for x in walk(lp)):
            continue
        n += 1
        nb = None
        for c in f.calls("fcntl"):
            if len(c["args"]) >= 3 and any((cval(x) or 0) & 0o4000 and x["k"] != "sizeof"
                                             for x in walk(c["args"][2])) and f.cfg.dominates(c, lp["c"] if lp.get("c") else w):
                nb = c
        if nb is not None:
            ctx.ok("cmd_pipe", "the pipe to the child is set O_NONBLOCK before the poll loop", loc=f.loc(nb))
        else:
            ctx.violation("cmd_pipe", "pipe to the child is non-blocking",
                          "the loop polls for the child's output and writes its input, but no "
                          "fcntl(.., F_SETFL, .. | O_NONBLOCK) precedes it: a write larger than the pipe "
                          "blocks while the child blocks on its output", f.loc(w))
    if not n:
        raise AnalysisBroken("cmd_pipe: poll loop with write and read not found")


def rule_U6(ctx):
    """linecount() counts what the splice loop stores: a final line without a newline is a line."""
    ctx.begin("U6", floor=1, what="line count of a text")
    prog = ctx.prog
    f = prog.func("linecount", file="lbuf.c")
    bad = None
    n = 0
    for txt, want in ((b"", 0), (b"a", 1), (b"a\n", 1), (b"a\nb", 2), (b"a\nb\n", 2), (b"\n", 1), (b"\n\n", 2),
                      (b"ab\ncd\nef", 3)):
        try:
            v = Interp(prog).call(f, [Ptr(tuple(txt) + (0,))])
        except (Unsupported, OverRead) as e:
            raise AnalysisBroken("linecount not evaluable: %s" % e)
        n += 1
        if v != want and bad is None:
            bad = (txt, v, want)
    try:
        v0 = Interp(prog).call(f, [None])
    except (Unsupported, OverRead):
        v0 = 0
    if v0 != 0 and bad is None:
        bad = (b"(null)", v0, 0)
    if bad:
        ctx.violation("linecount", "a text's line count includes an unterminated last line",
                      "linecount(%r) is %r, expected %d: a file whose last line has no newline loses that "
                      "line when it is spliced in (and the edit log records the wrong count)" % (
                          bad[0].decode(), bad[1], bad[2]), f.loc(f.body))
    else:
        ctx.ok("linecount", "%d texts with and without a final newline counted as the splice loop stores them" % n)


def rule_T7(ctx):
    """vi_case changes bytes of the text in place: only under a test that the byte is ASCII."""
    ctx.begin("T7", floor=1, what="in-place case changes")
    prog = ctx.prog
    f = prog.func("vi_case", file="vi.c")
    n = 0
    for s_, lv, op, rhs in stores(f.body):
        if not (lv["k"] == "sub" or (lv["k"] == "un" and lv["op"] == "*")):
            continue
        if rhs is None or not any(is_call(x, ("toupper", "tolower")) or (x["k"] == "bin" and x["op"] == "^")
                                  for x in walk(rhs)):
            continue
        n += 1
        okg = False
        for c, t in _facts(f, s_):
            c0 = strip_casts(resolve_local(f, c)) if c["k"] == "ref" else c
            if c0["k"] == "bin" and c0["op"] in ("<=", "<") and t and cval(c0["r"]) is not None and \
                    cval(c0["r"]) + (1 if c0["op"] == "<=" else 0) <= 0x80:
                okg = True
            if c0["k"] == "bin" and c0["op"] in (">", ">=") and not t and cval(c0["r"]) is not None and \
                    cval(c0["r"]) + (0 if c0["op"] == ">=" else 1) <= 0x80:
                okg = True
            if is_call(c0, "isascii") and t:
                okg = True
        if okg:
            ctx.ok("vi_case", "byte rewritten only when it is ASCII", loc=f.loc(s_))
        else:
            ctx.violation("vi_case", "case change keeps the text valid UTF-8",
                          "`%s` rewrites a byte of the text without a dominating test that it is below 0x80: "
                          "the lead byte of a multi-byte character is changed" % key(s_)[:50], f.loc(s_))
    if not n:
        raise AnalysisBroken("vi_case: in-place case store not found")


def rule_T8(ctx):
    """led_readchar returns its static buffer only after terminating what it just stored."""
    ctx.begin("T8", floor=2, what="returns of the static input buffer")
    prog = ctx.prog
    f = prog.func("led_readchar", file="led.c")
    bufs = [v["name"] for v in f.walk() if v["k"] == "var" and v.get("arr_n") and "char" in v.get("ty", "")]
    if not bufs:
        raise AnalysisBroken("led_readchar: static buffer not found")
    buf = bufs[0]
    n = 0
    for r in f.cfg.return_nodes():
        e = strip_casts(r.get("e")) if r.get("e") is not None else None
        if e is None or e["k"] != "ref" or e["name"] != buf:
            continue
        bad = False
        for items in paths_to(f.cfg, f.cfg.entry, r["id"]):
            if not path_consistent(f, items):
                continue
            last = None
            for x in items:
                if x[0] != "ev":
                    continue
                nd = f.nodes.get(x[1])
                if nd is not None and nd["k"] == "bin" and nd["op"] == "=" and nd["l"]["k"] == "sub" and \
                        key(strip_casts(nd["l"]["base"])) == buf:
                    last = nd
            if last is None or cval(last["r"]) != 0:
                bad = True
        n += 1
        if bad:
            ctx.violation("led_readchar", "the returned buffer is terminated",
                          "a path returns %s with a non-NUL store as the last store into it: the tail of the "
                          "previous, longer character is still there" % buf, f.loc(r))
        else:
            ctx.ok("led_readchar", "every path to `return %s` ends its stores with the terminator" % buf, loc=f.loc(r))
    if n < 2:
        raise AnalysisBroken("led_readchar: only %d returns of the buffer" % n)


def rule_S6(ctx):
    """ex_arg, evaluated abstractly: an escaped delimiter does not end a part of the substitute
    argument, so `|` inside the replacement stays part of it."""
    ctx.begin("S6", floor=1, what="argument split of the substitute command")
    prog = ctx.prog
    f = prog.func("ex_arg", file="ex.c")
    cases = [
        (b"/a\\/b/X|Y/g\n", b"s", 12, "an escaped delimiter is not a delimiter"),
        (b"/a/X|Y/g\n", b"s", 9, "`|` inside the replacement belongs to it"),
        (b"/a/b/|p\n", b"s", 5, "after the third delimiter `|` ends the command"),
        (b"/a/b/g|p\n", b"s", 6, "flags end at `|`"),
    ]
    bad = None
    n = 0
    for src, cmd, want, why in cases:
        try:
            r = Interp(prog).call(f, [Ptr(tuple(src) + (0,)), {}, Ptr(tuple(cmd) + (0,))])
        except (Unsupported, OverRead) as e:
            raise AnalysisBroken("ex_arg not evaluable: %s" % e)
        n += 1
        got = r.off if isinstance(r, Ptr) else None
        # the scanner may also step over the `|` it stopped at
        if got not in (want, want + 1) and bad is None:
            bad = (src, got, want, why)
    if bad:
        ctx.violation("ex_arg", "escaped delimiters and `|` in a substitute argument",
                      "for `:s%s` the argument ends at offset %s instead of %d (%s)" % (
                          bad[0].decode().rstrip("\n"), bad[1], bad[2], bad[3]), f.loc(f.body))
    else:
        ctx.ok("ex_arg", "%d substitute arguments with escaped delimiters and `|` split as the reference says" % n)


def rule_S7(ctx):
    """Stored text (a register, a script) is executed through ex_command(); a register or file
    that runs itself would recurse without bound.  ex_command reaches ex_exec only under a test
    of a static nesting counter against a constant, with the counter raised before and lowered
    after the call on every path."""
    ctx.begin("S7", floor=1, what="nesting of stored command text")
    prog = ctx.prog
    f = prog.func("ex_command", file="ex.c")
    cfg = f.cfg
    calls = list(f.calls("ex_exec"))
    if not calls:
        raise AnalysisBroken("ex_command does not call ex_exec")
    # is there a cycle at all?  (a handler that calls ex_command back)
    back = [g.name for g in prog.funcs.values() if g.file == "ex.c" and g.name != "ex_command" and
            any(True for _ in g.calls("ex_command")) and prog.cg.reaches(prog.func("ex_exec"), [g.name], stop=set())]
    if not back:
        ctx.ok("ex_command", "no handler re-enters ex_command")
        return
    for c in calls:
        guard = None
        for cid, t in cfg.facts_at(c["id"]):
            cc = f.nodes.get(cid)
            if cc is None or cc["k"] != "bin" or cc["op"] not in ("<", "<=", ">", ">="):
                continue
            l, r = strip_casts(cc["l"]), strip_casts(cc["r"])
            var, K = None, None
            if l["k"] == "ref" and cval(r) is not None and l.get("cat") != "param":
                var, K, lt = l["name"], cval(r), cc["op"] in ("<", "<=")
            elif r["k"] == "ref" and cval(l) is not None and r.get("cat") != "param":
                var, K, lt = r["name"], cval(l), cc["op"] in (">", ">=")
            if var and lt == t:
                guard = (var, K)
        if guard is None:
            ctx.violation("ex_command", "nested command text is depth-limited",
                          "%s execute stored text through ex_command(), which calls ex_exec() without a test "
                          "of a nesting counter: a register or script that runs itself recurses until the "
                          "stack overflows" % ", ".join(sorted(back)), f.loc(c))
            continue
        var, K = guard
        incs = [n for n, lv, op, rhs in stores(f.body) if lv["k"] == "ref" and lv["name"] == var
                and op in ("post++", "pre++")]
        decs = [n for n, lv, op, rhs in stores(f.body) if lv["k"] == "ref" and lv["name"] == var
                and op in ("post--", "pre--")]
        if any(cfg.dominates(i_, c) for i_ in incs) and any(cfg.postdominates(d_, c) for d_ in decs):
            ctx.ok("ex_command", "ex_exec only while %s is below %d, raised before and lowered after the call "
                   "(%s re-enter)" % (var, K, ", ".join(sorted(back))), loc=f.loc(c))
        else:
            ctx.violation("ex_command", "nested command text is depth-limited",
                          "the nesting counter %s is tested but not raised before / lowered after ex_exec" % var,
                          f.loc(c))


def rule_B15(ctx):
    """reg_putln cuts the old history text in place so that hist lines remain.  Evaluated
    abstractly for hist = 1..4 over old texts of 0..4 lines (also an empty register): every
    store into the old text is inside its block, and what is kept is at most hist - 1 lines."""
    ctx.begin("B15", floor=1, what="in-place cut of the history register")
    prog = ctx.prog
    f = prog.func("reg_putln", file="vi.c")
    n = 0
    bad = None
    for hist in (1, 2, 3, 4):
        for nlines in range(0, 5):
            old = b"".join(b"l%d\n" % i for i in range(nlines))
            op_ = Ptr(tuple(old) + (0,))
            op_.writes = []

            def h_get(ip, fn, e, args, env, op_=op_):
                return op_
            ip = Interp(prog, hooks={"reg_get": h_get, "reg_put": lambda *a: None, "sbuf_make": lambda *a: {},
                                     "sbuf_str": lambda *a: None, "sbuf_chr": lambda *a: None,
                                     "sbuf_buf": lambda *a: Ptr((0,)), "sbuf_free": lambda *a: None},
                        globals_={"xhist": hist})
            try:
                ip.call(f, [ord("/"), Ptr((0x7a, 0))])
            except OverRead as e:
                if bad is None:
                    bad = ("with hist=%d and %s the cut writes outside the register's text (%s)" % (
                        hist, "an empty register" if not nlines else "%d old lines" % nlines, e))
                continue
            except Unsupported as e:
                raise AnalysisBroken("reg_putln not evaluable: %s" % e)
            n += 1
            cuts = [j for j, v in op_.writes if v == 0]
            keep = min(cuts) if cuts else len(old)
            kept_lines = old[:keep].count(b"\n") + (1 if keep and old[:keep][-1:] != b"\n" else 0)
            if kept_lines > max(hist - 1, 0) and bad is None:
                bad = ("with hist=%d and %d old lines, %d old line(s) (%r) are kept next to the new one" % (
                    hist, nlines, kept_lines, old[:keep].decode()))
    if bad:
        ctx.violation("reg_putln", "history cut stays inside the register text", bad, f.loc(f.body))
    else:
        ctx.ok("reg_putln", "cut inside the block and at most hist - 1 old lines kept on %d (hist, old text) cases" % n)


def rule_T9(ctx):
    """The editor's own decoders never step or read past the terminator, also on a string that
    ends inside a multi-byte sequence (the editor itself produces such strings when it cuts a
    message to its buffer): uc_len, uc_code, uc_next, uc_slen evaluated abstractly on every
    string of up to 4 bytes over a representative alphabet."""
    ctx.begin("T9", floor=2, what="terminator-safe decoders of uc.c")
    import itertools
    prog = ctx.prog
    alpha = [0x41, 0x80, 0xbf, 0xc3, 0xe2, 0xf0, 0xf8, 0xff]
    fns = [(nm, prog.func(nm, file="uc.c")) for nm in ("uc_len", "uc_code", "uc_slen") if prog.has_func(nm, file="uc.c")]
    if len(fns) < 2:
        raise AnalysisBroken("uc.c: decoders not found")
    n = 0
    bad = {}
    for L in range(0, 5):
        for combo in itertools.product(alpha, repeat=L):
            buf = tuple(combo) + (0,)
            n += 1
            for nm, fn in fns:
                try:
                    v = Interp(prog).call(fn, [Ptr(buf)])
                except OverRead as e:
                    bad.setdefault(nm, (buf, str(e)))
                    continue
                except Unsupported as e:
                    raise AnalysisBroken("%s not evaluable: %s" % (nm, e))
                if nm == "uc_len" and (not isinstance(v, int) or v > L or v < 0 or (L > 0 and v == 0)):
                    bad.setdefault(nm, (buf, "returns %s for a string of %d bytes" % (v, L)))
    show = lambda b_: "".join("\\x%02x" % x for x in b_[:-1])
    for nm, fn in fns:
        if nm in bad:
            ctx.violation(nm, "decoder stays inside the string",
                          "uc.c:%s(\"%s\"): %s -- a message cut inside a multi-byte character makes the "
                          "renderer read past its buffer" % (nm, show(bad[nm][0]), bad[nm][1]), fn.loc(fn.body))
        else:
            ctx.ok(nm, "no step or read past the terminator on %d strings (truncated sequences included)" % n)


def _ceval(e, env):
    """Value of a condition under `env` (expression key -> int); None when something else occurs."""
    k_ = key(e)
    if k_ in env:
        return env[k_]
    k = e["k"]
    if k == "int":
        return e["v"]
    if "cv" in e and e["cv"] is not None:
        return e["cv"]
    if k in ("cast", "paren"):
        return _ceval(e["e"], env)
    if k == "un" and e["op"] in ("!", "-"):
        v = _ceval(e["e"], env)
        return None if v is None else (int(not v) if e["op"] == "!" else -v)
    if k == "bin" and e["op"] in ("<", "<=", ">", ">=", "==", "!="):
        a, b = _ceval(e["l"], env), _ceval(e["r"], env)
        if a is None or b is None:
            return None
        return int({"<": a < b, "<=": a <= b, ">": a > b, ">=": a >= b, "==": a == b, "!=": a != b}[e["op"]])
    if k == "cond":
        c = _ceval(e["c"], env)
        if c is not None:
            return _ceval(e["t"] if c else e["f"], env)
        a, b = _ceval(e["t"], env), _ceval(e["f"], env)
        return a if a == b else None
    if k == "bin" and e["op"] in ("&&", "||"):
        a, b = _ceval(e["l"], env), _ceval(e["r"], env)
        if e["op"] == "&&":
            if a == 0 or b == 0:
                return 0
            return None if a is None or b is None else 1
        if (a is not None and a != 0) or (b is not None and b != 0):
            return 1
        return None if a is None or b is None else 0
    return None


def rule_S8(ctx):
    """ec_edit marks the buffer saved only when its text is what the file holds: on every path
    from the open() of the (re)load to lbuf_saved() either the read's status was tested zero, or
    the buffer was tested empty, or -- failing both -- the buffer is a fresh one on every way in."""
    ctx.begin("S8", floor=1, what="a reload that read nothing is not marked saved")
    from ..cfg import enum_paths
    prog = ctx.prog
    f = prog.func("ec_edit", file="ex.c")
    cfg = f.cfg
    saved = list(f.calls("lbuf_saved"))
    opens = list(f.calls("open"))
    reads = list(f.calls("lbuf_rd"))
    if not saved or not opens or not reads:
        ctx.inconclusive("ec_edit", "reload marks saved only what was read",
                         "open / lbuf_rd / lbuf_saved are not all in ec_edit itself")
        return
    rdvars = set()
    for n, lv, op, rhs in stores(f.body):
        if rhs is not None and op in ("=", "init") and is_call(strip_casts(rhs), "lbuf_rd") and lv["k"] in ("ref", "var"):
            rdvars.add(lv["name"])
    ob = cfg.pos(opens[0])[0]
    for sv in saved:
        sb = cfg.pos(sv)[0]
        try:
            paths = [p for p in enum_paths(cfg, ob, {sb}) if p[1] == sb]
        except OverflowError:
            raise AnalysisBroken("ec_edit: too many paths from open() to lbuf_saved()")
        if not paths:
            raise AnalysisBroken("ec_edit: lbuf_saved() not reachable from open()")
        unjust = None
        for items, _ in paths:
            if not path_consistent(f, items):
                continue
            evs = [f.nodes.get(x[1]) for x in items if x[0] == "ev"]
            did_read = any(e is not None and any(True for _ in calls_in(e, "lbuf_rd")) for e in evs) or \
                any(x[0] == "br" and any(True for _ in calls_in(f.nodes[x[1]], "lbuf_rd")) for x in items)
            ok = False
            known = {}          # what the path has decided so far (conditions inside ?: arms)
            for x in items:
                if x[0] != "br":
                    continue
                c = f.nodes[x[1]]
                t = int(bool(x[2]))
                known = dict(known)
                # the status of the read is zero
                if did_read:
                    envs = []
                    for v in rdvars:
                        envs += [{v: 1}, {v: -1}]
                    for rc in calls_in(c, "lbuf_rd"):
                        envs += [{key(rc): 1}, {key(rc): -1}]
                    vals = [_ceval(c, dict(known, **e_)) for e_ in envs if any(k_ in key(c) for k_ in e_)]
                    if vals and all(v is not None and v != t for v in vals):
                        ok = True
                # the buffer is empty
                lens = list(calls_in(c, "lbuf_len"))
                if lens:
                    vals = [_ceval(c, dict(known, **{key(lens[0]): n_})) for n_ in (1, 7)]
                    if all(v is not None and v != t for v in vals):
                        ok = True
                known[key(c)] = t
            if not ok:
                unjust = items
                break
        if unjust is None:
            ctx.ok("ec_edit", "lbuf_saved() only after a read that returned 0 or on an empty buffer "
                   "(%d paths from open())" % len(paths), loc=f.loc(sv))
            continue
        # every way to the open() creates a fresh buffer?
        fresh = list(f.calls("bufs_open"))
        hit = cfg.search(cfg.entry, lambda e: e == opens[0]["id"],
                         avoid=lambda e: any(e == b_["id"] for b_ in fresh), start_block=True)
        if fresh and hit is None:
            ctx.ok("ec_edit", "the buffer is a fresh one whenever the load is attempted", loc=f.loc(sv))
        else:
            ctx.violation("ec_edit", "reload marks saved only what was read",
                          "lbuf_saved() is reached from open() on a path where neither the read returned 0 nor "
                          "the buffer is empty, and `:e!` without a file name reloads the current buffer (no "
                          "bufs_open on that way in): when the file has disappeared or cannot be read, the text "
                          "stays and is reported clean, so :q loses it", f.loc(sv))


_TYBITS = {"char": 8, "signed char": 8, "unsigned char": 8, "short": 16, "unsigned short": 16,
           "int": 32, "unsigned int": 32, "long": 64, "unsigned long": 64}


def rule_G8(ctx):
    """One bit of a line's mark per nesting level: every `1 << level` that is combined with a
    mark cell uses a level below the cell's width.  The level is a parameter of the accessor;
    at every call site it is a constant or a global counter, and every increment of that counter
    is dominated by a test that keeps it inside the width."""
    ctx.begin("G8", floor=2, what="nesting level fits the bits of a line's mark")
    prog = ctx.prog
    acc = {}           # accessor name -> (param index, max shift)
    for f in prog.funcs.values():
        if f.file != "lbuf.c":
            continue
        pn = [p_["name"] for p_ in f.params]
        for n in f.walk():
            if n["k"] != "bin" or n["op"] != "<<" or cval(n["l"]) != 1:
                continue
            r = strip_casts(n["r"])
            if r["k"] != "ref" or r["name"] not in pn:
                continue
            # the mark cell the shifted bit is combined with
            cells = []
            for m in f.walk():
                if m["k"] in ("bin", "var") and any(x["id"] == n["id"] for x in walk(m)):
                    cells += [x for x in walk(m) if x["k"] == "sub" and strip_casts(x["base"])["k"] == "member"
                              and strip_casts(x["base"])["field"] == "ln_glob"]
            if not cells:
                continue
            bits = _TYBITS.get(cells[0].get("ty"))
            if bits is None:
                raise AnalysisBroken("%s: width of a mark cell (%s) unknown" % (f.name, cells[0].get("ty")))
            mx = bits - 1 if bits < 32 else bits - 2
            old = acc.get(f.name)
            acc[f.name] = (pn.index(r["name"]), min(mx, old[1]) if old else mx)
    if not acc:
        raise AnalysisBroken("lbuf.c: no `1 << level` on ln_glob[] found")
    counters = {}
    for f in prog.funcs.values():
        for c in f.calls():
            if c.get("fn") not in acc:
                continue
            idx, mx = acc[c["fn"]]
            a = strip_casts(c["args"][idx])
            if cval(a) is not None:
                if 0 <= cval(a) <= mx:
                    ctx.ok(f.name, "%s with level %d" % (c["fn"], cval(a)), loc=f.loc(c))
                else:
                    ctx.violation(f.name, "nesting level fits a mark cell",
                                  "%s is given level %d, a mark cell has bits 0..%d" % (c["fn"], cval(a), mx), f.loc(c))
            elif a["k"] == "ref" and a.get("cat") in ("global", "sglobal", "static"):
                counters.setdefault(a["name"], []).append((f, c, mx))
            else:
                ctx.inconclusive(f.name, "nesting level fits a mark cell",
                                 "level argument %s of %s is neither a constant nor a global counter" % (key(a), c["fn"]),
                                 f.loc(c))
    for var, uses in sorted(counters.items()):
        mx = min(u[2] for u in uses)
        bad = None
        nst = 0
        for g in prog.funcs.values():
            for n, lv, op, rhs in stores(g.body):
                if lv["k"] != "ref" or lv["name"] != var or lv.get("cat") not in ("global", "sglobal", "static"):
                    continue
                nst += 1
                if op in ("post--", "pre--"):
                    incs = [m for m, lv2, op2, _ in stores(g.body) if lv2["k"] == "ref" and lv2["name"] == var
                            and op2 in ("post++", "pre++")]
                    if not any(g.cfg.dominates(i_, n) for i_ in incs):
                        bad = (g, n, "is lowered without having been raised in %s (it could go negative)" % g.name)
                    continue
                if op == "=" and rhs is not None and cval(rhs) is not None and 0 <= cval(rhs) <= mx:
                    continue
                if op in ("post++", "pre++"):
                    top = None
                    for cc, t in _facts_plain(g, n["id"]):
                        if cc["k"] != "bin" or cc["op"] not in ("<", "<=", ">", ">="):
                            continue
                        l, r = strip_casts(cc["l"]), strip_casts(cc["r"])
                        op_ = cc["op"]
                        if r["k"] == "ref" and r["name"] == var and cval(l) is not None:
                            l, r = r, l
                            op_ = {"<": ">", "<=": ">=", ">": "<", ">=": "<="}[op_]
                        if not (l["k"] == "ref" and l["name"] == var and cval(r) is not None):
                            continue
                        K = cval(r)
                        # the fact (var op_ K) == t gives an upper bound?
                        if op_ == "<" and t:
                            ub = K - 1
                        elif op_ == "<=" and t:
                            ub = K
                        elif op_ == ">=" and not t:
                            ub = K - 1
                        elif op_ == ">" and not t:
                            ub = K
                        else:
                            continue
                        top = ub if top is None else min(top, ub)
                    if top is None:
                        bad = (g, n, "is raised without a test against a constant: from level %d on `1 << %s` "
                               "no longer fits a mark cell and the nested global visits no line" % (mx + 1, var))
                    elif top + 1 > mx:
                        bad = (g, n, "can reach %d, a mark cell has bits 0..%d" % (top + 1, mx))
                    continue
                bad = (g, n, "is stored in a way that is not understood (%s)" % op)
        if nst == 0:
            raise AnalysisBroken("no store to %s found" % var)
        if bad:
            g, n, why = bad
            ctx.violation(g.name, "nesting level fits a mark cell", "%s %s" % (var, why), g.loc(n))
        else:
            for f, c, _ in uses:
                ctx.ok(f.name, "%s(%s): every increment of %s is under a test that keeps it <= %d" % (
                    c["fn"], var, var, mx), loc=f.loc(c))


def _facts_plain(g, nid):
    out = []
    for cid, t in g.cfg.facts_at(nid):
        c = g.nodes.get(cid)
        if c is None:
            continue
        c, t = negate_truth(c, t)
        for part in (flatten_and(c) if t else flatten_or(c)):
            p2, t2 = negate_truth(part, t)
            out.append((p2, t2))
    return out


def _neval(e, env):
    """Integer value of an expression; env maps variable names and call keys to ints."""
    e = strip_casts(e)
    k = e["k"]
    if k == "int":
        return e["v"]
    if k == "ref":
        return env.get(e["name"])
    if k == "call":
        return env.get(key(e))
    if k == "paren":
        return _neval(e["e"], env)
    if k == "cond":
        c = _neval(e["c"], env)
        if c is None:
            return None
        return _neval(e["t"] if c else e["f"], env)
    if k == "un" and e["op"] in ("!", "-"):
        v = _neval(e["e"], env)
        return None if v is None else (int(not v) if e["op"] == "!" else -v)
    if k == "bin":
        a, b = _neval(e["l"], env), _neval(e["r"], env)
        if a is None or b is None:
            return None
        op = e["op"]
        if op in ("<", "<=", ">", ">=", "==", "!="):
            return int({"<": a < b, "<=": a <= b, ">": a > b, ">=": a >= b, "==": a == b, "!=": a != b}[op])
        if op == "+":
            return a + b
        if op == "-":
            return a - b
        if op == "*":
            return a * b
        if op == "&&":
            return int(bool(a) and bool(b))
        if op == "||":
            return int(bool(a) or bool(b))
    return None


def rule_G9(ctx):
    """After each execution the global goes on scanning at or below every line it has yet to
    visit.  Those lines were after the current one; they can have moved up, but not above the
    lowest line that was changed.  So the resume index must be 0, or at most min(current index,
    lowest change) where the lowest change comes from the line buffer: a field that
    lbuf_replace lowers to its position on every path and that only its accessor raises.  With
    nested globals the enclosing global's value is restored as min(its own, the inner one)."""
    ctx.begin("G9", floor=2, what="the global resumes at or below the lines yet to visit")
    import itertools
    from ..bounds import path_states
    from ..lin import prove_le, PROVEN
    prog = ctx.prog
    f = prog.func("ec_glob", file="ex.c")
    cfg = f.cfg
    execs = list(f.calls("ex_exec"))
    if not execs:
        raise AnalysisBroken("ec_glob does not call ex_exec")
    ex = execs[0]
    loops = cfg.loops()
    xb_ = cfg.pos(ex)[0]
    inloops = [h for h, body in loops.items() if xb_ in body]
    if not inloops:
        raise AnalysisBroken("ec_glob: ex_exec is not in a loop")
    body = min((loops[h] for h in inloops), key=len)
    # the scan index: first argument after the buffer of lbuf_globget in that loop
    ivar = None
    for c in f.calls("lbuf_globget"):
        if cfg.pos(c)[0] in body and strip_casts(c["args"][1])["k"] == "ref":
            ivar = strip_casts(c["args"][1])["name"]
    if ivar is None:
        raise AnalysisBroken("ec_glob: scan index of the mark test not found")
    # the tracker accessor: an lbuf.c function that returns a field lbuf_replace stores
    rep = prog.func("lbuf_replace", file="lbuf.c")
    rep_fields = {}
    for n, lv, op, rhs in stores(rep.body):
        fld = lv_field(lv)
        if fld and lv["k"] == "member":
            rep_fields.setdefault(lv["field"], []).append((n, op, rhs))
    tracker = None
    for g in prog.funcs.values():
        if g.file != "lbuf.c" or g is rep or not g.params:
            continue
        rets = [r for r in g.walk() if r["k"] == "return" and r.get("e") is not None]
        if len(rets) != 1:
            continue
        rv = strip_casts(resolve_local(g, rets[0]["e"]))
        if rv["k"] == "member" and rv.get("rec") == "lbuf" and rv["field"] not in ("ln_n", "ln_sz", "useq", "hist_n", "hist_u") \
                and any(lv_["k"] == "member" and lv_["field"] == rv["field"] for _n, lv_, _o, _r in stores(g.body)):
            if any(True for _ in f.calls(g.name)):
                tracker = (g, rv["field"])
    # the resume stores: stores to the scan index that ex_exec dominates, inside the loop, not the scan's own ++
    resume = []
    for n, lv, op, rhs in stores(f.body):
        if lv["k"] == "ref" and lv["name"] == ivar and cfg.pos(n) and cfg.pos(n)[0] in body and \
                cfg.dominates(ex, n) and op == "=":
            resume.append((n, rhs))
    if not resume:
        # no store: the scan goes on from the current index -- fine only if nothing can move up
        ctx.violation("ec_glob", "the scan resumes at or below the lines yet to visit",
                      "after ex_exec the index %s is left as it is: lines that the command list moved up "
                      "(by deleting above them) are stepped over" % ivar, f.loc(ex))
        return
    curvars, lovars = set(), set()
    if tracker:
        for n, lv, op, rhs in stores(f.body):
            if rhs is not None and op in ("=", "init") and is_call(strip_casts(rhs), tracker[0].name) and lv["k"] in ("ref", "var"):
                (curvars if cfg.dominates(ex, n) else lovars).add(lv["name"])
    BIG = 50

    def bounded(e, names_min, what):
        """e <= min of names_min and e >= 0 for all small values, whatever the other variables hold"""
        others = sorted({r_["name"] for r_ in refs(e)} - set(names_min))
        callkeys = sorted({key(c_) for c_ in calls_in(e)})
        for vals in itertools.product((0, 1, 2, 5), repeat=len(names_min)):
            for ov in itertools.product((0, BIG), repeat=len(others) + len(callkeys)):
                env = dict(zip(names_min, vals))
                env.update(zip(others + callkeys, ov))
                v = _neval(e, env)
                if v is None:
                    return "not evaluable"
                if v > min(vals) or v < 0:
                    return "with %s it is %d" % (", ".join("%s=%d" % kv for kv in sorted(env.items())), v)
        return None

    for n, rhs in resume:
        e = strip_casts(resolve_local(f, rhs))
        if cval(e) == 0:
            ctx.ok("ec_glob", "the scan restarts at line 0 after each execution", loc=f.loc(n))
            continue
        names = [ivar] + sorted(curvars)
        why = bounded(e, names, "resume") if curvars else "no value from the line buffer's change tracker is used"
        if why is None:
            ctx.ok("ec_glob", "resume index <= min(%s) and >= 0 for all values" % ", ".join(names), loc=f.loc(n))
        elif why == "not evaluable":
            ctx.inconclusive("ec_glob", "the scan resumes at or below the lines yet to visit",
                             "resume expression %s not understood" % key(e), f.loc(n))
        else:
            ctx.violation("ec_glob", "the scan resumes at or below the lines yet to visit",
                          "%s = %s is not bounded by the lowest changed line (%s): a command list that deletes "
                          "lines above the current one and leaves the cursor below it (g/x/s/$/!/|1,2d|$) moves "
                          "the lines yet to visit up past the resume point" % (ivar, key(e), why), f.loc(n))
    if not tracker:
        return
    g, fld = tracker
    # lbuf_replace lowers the field to its position on every path
    posn = rep.params[2]["name"] if len(rep.params) >= 3 else None
    try:
        sts = path_states(rep, "exit")
    except Exception as e_:
        sts = None
    okp = bool(sts)
    if sts:
        fk = "%s->%s" % (rep.params[0]["name"], fld)
        for subst, hyps, items in sts:
            cur = subst.get(fk)
            if cur is None or prove_le(cur, Lin({posn: 1}), hyps) != PROVEN or prove_le(cur, Lin({fk: 1}), hyps) != PROVEN:
                okp = False
                break
    if okp:
        ctx.ok("lbuf_replace", "%s is lowered to min(itself, %s) on all %d paths" % (fld, posn, len(sts)))
    else:
        ctx.violation("lbuf_replace", "the change tracker is lowered by every splice",
                      "a path through lbuf_replace leaves %s above the splice position %s" % (fld, posn),
                      rep.loc(rep.body))
    # nobody else stores it, except the accessor
    for h in prog.funcs.values():
        if h is rep or h is g:
            continue
        for n, lv, op, rhs in stores(h.body):
            if lv["k"] == "member" and lv["field"] == fld and lv.get("rec") == "lbuf":
                if h.name == "lbuf_make":
                    continue
                ctx.violation(h.name, "the change tracker is lowered by every splice",
                              "%s stores %s" % (h.name, fld), h.loc(n))
    # the enclosing global's value is restored, merged with what the inner execution changed
    restores = [c for c in f.calls(g.name) if cfg.dominates(ex, c) and cfg.pos(c)[0] in body]
    good, other = [], []
    for c in restores:
        a = strip_casts(resolve_local(f, c["args"][-1]))
        if cval(a) == 0 or (lovars and curvars and bounded(strip_casts(c["args"][-1]), sorted(lovars) + sorted(curvars), "restore") is None):
            good.append(c)          # 0 is always sound (the enclosing global restarts at the top)
        else:
            other.append(c)
    if not lovars:
        ctx.ok("ec_glob", "the tracker is not reset by the global (nothing to restore)")
        return
    # the last tracker call on every way from ex_exec to the exit or round the loop sets a sound value
    hit = None
    for st in [ex] + other:
        hit = hit or cfg.search(cfg.pos(st), lambda e: e == ("exit",) or e == ex["id"],
                                avoid=lambda e: any(e == c_["id"] for c_ in good))
    if hit is None and good:
        ctx.ok("ec_glob", "the enclosing global's tracker value is set to min(saved, inner) (or 0) on every "
               "path after ex_exec", loc=f.loc(good[0]))
    else:
        ctx.violation("ec_glob", "the enclosing global's tracker is restored",
                      "the tracker is reset before ex_exec, and on a path after it the last value set is not "
                      "min(saved value, inner value): an enclosing global does not learn what the nested one "
                      "changed and steps over lines", f.loc((other or [ex])[0]))


def rule_Q1(ctx):
    """Keys pushed back are read next, before what is still waiting in the queue: a `.` or `@`
    that was itself read from the queue (a register holding `.dw`) must run in its place.
    term_push is evaluated abstractly on a queue with consumed, waiting and free parts; the
    unread part afterwards must be the pushed keys followed by the old waiting keys."""
    ctx.begin("Q1", floor=1, what="pushed keys are read before the waiting ones")
    prog = ctx.prog
    f = prog.func("term_push", file="term.c")
    gl = {nm: [g for g in prog.globals.get(nm, []) if g["file"] == "term.c"] for nm in ("ibuf", "ibuf_pos", "ibuf_cnt")}
    if not all(gl.values()) or "arr_n" not in gl["ibuf"][0]:
        raise AnalysisBroken("term.c: ibuf / ibuf_pos / ibuf_cnt not found")
    N = gl["ibuf"][0]["arr_n"]
    n = 0
    for consumed, waiting, pushed in ((b"k", b"dw", b"x"), (b"", b"", b"abc"), (b"@a", b"", b"xy"),
                                      (b"12", b"345", b"67"), (b"", b"zz", b"q")):
        model = list(consumed + waiting) + [0] * (N - len(consumed) - len(waiting))
        base = Ptr(tuple([0] * N + [0]))

        def mv(ip, fn, e, args, env, model=model):
            d, s_, k = args
            if not (isinstance(d, Ptr) and isinstance(k, int)) or d.buf is not base.buf:
                raise Unsupported("copy to something else than the queue")
            if k < 0 or d.off < 0 or d.off + k > N:
                raise OverRead(d.off + k, N)
            if isinstance(s_, Ptr) and s_.buf is base.buf:
                src = model[s_.off:s_.off + k]
            elif isinstance(s_, Ptr):
                src = [s_.read(i) for i in range(k)]
            else:
                raise Unsupported("copy source")
            model[d.off:d.off + k] = src
            return d
        ip = Interp(prog, hooks={"memmove": mv, "memcpy": mv},
                    globals_={"ibuf": base, "ibuf_pos": len(consumed), "ibuf_cnt": len(consumed) + len(waiting)})
        try:
            ip.call(f, [Ptr(tuple(pushed) + (0,)), len(pushed)])
        except (Unsupported, OverRead) as e:
            raise AnalysisBroken("term_push not evaluable: %s" % e)
        pos = ip.last_env.get("ibuf_pos", len(consumed))
        cnt = ip.last_env.get("ibuf_cnt", len(consumed) + len(waiting))
        if not isinstance(pos, int) or not isinstance(cnt, int):
            raise AnalysisBroken("term_push: queue indices not evaluable")
        n += 1
        got = bytes(model[pos:cnt])
        if got != pushed + waiting:
            ctx.violation("term_push", "pushed keys are read before the waiting ones",
                          "with %r consumed and %r waiting, pushing %r leaves %r to be read (expected %r): keys "
                          "pushed by a `.` or `@` that came from the queue itself run after the rest of it"
                          % (consumed.decode(), waiting.decode(), pushed.decode(), got.decode("latin1"),
                             (pushed + waiting).decode()), f.loc(f.body))
            return
    ctx.ok("term_push", "the unread part is the pushed keys followed by the waiting ones on %d queue states" % n)


def rule_Q2(ctx):
    """Every key handed to term_push is queued, or the caller is told: `N.` and `N@r` push N
    copies, and copies that are dropped without a word make the replay differ from retyping.
    term_push is evaluated abstractly on a queue with less room than the pushed text."""
    ctx.begin("Q2", floor=1, what="pushed keys are not dropped silently")
    prog = ctx.prog
    f = prog.func("term_push", file="term.c")
    gl = {nm: [g for g in prog.globals.get(nm, []) if g["file"] == "term.c"] for nm in ("ibuf", "ibuf_pos", "ibuf_cnt")}
    if not all(gl.values()) or "arr_n" not in gl["ibuf"][0]:
        # a queue of another kind (grown on demand): nothing to drop
        if any(True for _ in f.calls(("realloc", "malloc"))):
            ctx.ok("term_push", "the queue is grown on demand")
            return
        raise AnalysisBroken("term.c: ibuf / ibuf_pos / ibuf_cnt not found")
    N = gl["ibuf"][0]["arr_n"]
    base = Ptr(tuple([0] * N + [0]))
    stored = []

    def mv(ip, fn, e, args, env):
        d, s_, k = args
        if isinstance(d, Ptr) and d.buf is base.buf and isinstance(s_, Ptr) and s_.buf is not base.buf and isinstance(k, int):
            stored.append(k)
        return d
    ip = Interp(prog, hooks={"memmove": mv, "memcpy": mv},
                globals_={"ibuf": base, "ibuf_pos": N - 2, "ibuf_cnt": N - 2})
    try:
        rv = ip.call(f, [Ptr(tuple(b"hello") + (0,)), 5])
    except (Unsupported, OverRead) as e:
        raise AnalysisBroken("term_push not evaluable: %s" % e)
    took = sum(stored)
    void = f.ret_ty == "void" if hasattr(f, "ret_ty") else True
    if took >= 5:
        ctx.ok("term_push", "all keys are queued even when the fixed part of the queue is full")
        return
    told = isinstance(rv, int) and rv != 0
    users = [(g, c) for g in prog.funcs.values() for c in g.calls("term_push")]
    checked = told and all(enclosing(g, c["id"], ("if", "while", "for", "cond", "return")) is not None or
                           any(c["id"] in [x["id"] for x in walk(rhs)] for _n, _lv, _op, rhs in stores(g.body) if rhs is not None)
                           for g, c in users)
    if checked:
        ctx.ok("term_push", "a short push is reported and every caller looks at the result")
    else:
        ctx.violation("term_push", "every pushed key is queued",
                      "with room for 2 more keys, pushing 5 queues %d and %s: `N.` / `N@r` whose N copies exceed the "
                      "%d-byte queue are cut in the middle of a copy (ihello<Esc>700. inserts 512 copies and leaves the "
                      "last one open)" % (took, "returns nothing" if not told else "the callers ignore the result", N),
                      f.loc(f.body))


def rule_T10(ctx):
    """A typed multi-byte character is read whole: led_readchar, evaluated abstractly for every
    kind of lead byte with its static buffer in the initial (all zero) state, reads exactly the
    number of continuation bytes the lead byte announces and returns them as one string."""
    ctx.begin("T10", floor=1, what="typed multi-byte characters are read whole")
    prog = ctx.prog
    fn = prog.func("led_readchar", file="led.c")
    n = 0
    for c, want in ((0xc3, 2), (0xdf, 2), (0xe2, 3), (0xef, 3), (0xf0, 4), (0xf4, 4)):
        reads = []

        def term_read(it, f, e, args, env):
            reads.append(1)
            return 0x80 + len(reads)
        try:
            v = Interp(prog, hooks={"term_read": term_read}).call(fn, [c, 0])
        except (Unsupported, OverRead) as e:
            raise AnalysisBroken("led_readchar not evaluable: %s" % e)
        n += 1
        got = None
        if isinstance(v, dict):
            got = [v.get(i) for i in range(want + 1)]
        elif isinstance(v, Ptr):
            got = [v.read(i) for i in range(want + 1)]
        exp = [c] + [0x81 + i for i in range(want - 1)] + [0]
        if len(reads) != want - 1 or got != exp:
            ctx.violation("led_readchar", "a typed multi-byte character is read whole",
                          "lead byte 0x%02x announces %d bytes but %d more %s read and the returned string is %s: "
                          "the rest of the character is taken for commands (the length is asked of a buffer "
                          "that holds only the lead byte)" % (c, want, len(reads), "is" if len(reads) == 1 else "are", got),
                          fn.loc(fn.body))
            return
    ctx.ok("led_readchar", "reads exactly the announced continuation bytes for %d kinds of lead byte" % n)


def rule_R14(ctx):
    """Ignore-case in a bracket range: a character matches [X-Y] when it or its other case lies
    in the range as written.  brk_match is evaluated abstractly for every range over a set of
    letter / punctuation end points and every printable character, with and without the flag."""
    ctx.begin("R14", floor=1, what="bracket ranges under ignore-case")
    prog = ctx.prog
    bm = prog.func("brk_match", file="regex.c")
    am = prog.func("ratom_match", file="regex.c")
    icase = None
    for bit in (1, 2, 4, 8, 16, 32, 64, 128):
        line = (0x41, 0x0a, 0)
        sp = Ptr(line)
        st = {"s": Ptr(line, 0, sp.log), "o": sp, "flg": bit, "pc": 0, "dep": 0}
        try:
            if Interp(prog).call(am, [{"ra": 0, "s": Ptr((0x61, 0))}, st]) == 0:
                icase = bit
                break
        except (Unsupported, OverRead):
            continue
    if icase is None:
        raise AnalysisBroken("ignore-case flag not found")
    ends = [ord(c) for c in "AWZ_abz"]
    n = 0
    bad = None
    for x in ends:
        for y in ends:
            if y < x:
                continue
            brk = Ptr((x, 0x2d, y, 0x5d, 0))          # the text after `[`
            for c in range(0x20, 0x7f):
                for flg in (0, icase):
                    try:
                        v = Interp(prog).call(bm, [brk, c, flg])
                    except (Unsupported, OverRead) as e:
                        raise AnalysisBroken("brk_match not evaluable: %s" % e)
                    n += 1
                    alts = {c}
                    if flg and chr(c).isalpha():
                        alts.add(ord(chr(c).swapcase()))
                    want = any(x <= a <= y for a in alts)
                    if (v == 0) != want and bad is None:
                        bad = (x, y, c, flg, v == 0, want)
    if bad:
        x, y, c, flg, got, want = bad
        ctx.violation("brk_match", "bracket range under ignore-case",
                      "[%s-%s] %s %r %s ignore-case, but %s: the ends of the range are folded separately" % (
                          chr(x), chr(y), "matches" if got else "does not match", chr(c),
                          "with" if flg else "without", "it should" if want else "it should not"), bm.loc(bm.body))
    else:
        ctx.ok("brk_match", "a character matches [X-Y] exactly when it or (with ignore-case) its other case is in "
               "the range, on %d (range, character, flag) cases" % n)


RULES = {"M5": rule_M5, "L6": rule_L6, "P3": rule_P3, "X9": rule_X9, "U6": rule_U6, "T7": rule_T7,
         "T8": rule_T8, "S6": rule_S6, "S7": rule_S7, "B15": rule_B15, "T9": rule_T9, "T10": rule_T10, "Q2": rule_Q2, "Q1": rule_Q1, "G9": rule_G9, "G8": rule_G8, "S8": rule_S8, "R14": rule_R14}
