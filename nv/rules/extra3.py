"""Small structural clauses added after the fourth round of independent breaking changes
(DESIGN.md section 7.2).  Same alarm policy as everywhere."""
from ..absint import Interp, Ptr, OverRead, Unsupported, OPAQUE
from ..cfg import paths_to
from ..facts import AnalysisBroken, walk, key, cval
from ..lin import Lin
from ..util import (stores, lv_field, is_call, calls_in, refs, strip_casts, negate_truth, flatten_and,
                    flatten_or, enclosing, resolve_local, path_consistent, nullness)
from .w import _facts


def rule_M5(ctx):
    """ex_kwdset records the direction on every path, also when no keyword is given: an empty
    `?` after `/pat` re-aims the remembered pattern."""
    ctx.begin("M5", floor=1, what="search direction stored by ex_kwdset")
    prog = ctx.prog
    f = prog.func("ex_kwdset", file="ex.c")
    dirp = f.params[1]["name"]
    sts = [n for n, lv, op, rhs in stores(f.body)
           if lv["k"] == "ref" and lv.get("cat") in ("global", "sglobal", "static") and op == "=" and
           rhs is not None and key(strip_casts(rhs)) == dirp]
    if not sts:
        raise AnalysisBroken("ex_kwdset: store of the direction not found")
    # every path to the exit passes one of them
    hit = f.cfg.search(f.cfg.entry, lambda e: e == ("exit",), avoid=lambda e: any(e == s_["id"] for s_ in sts),
                       start_block=True)
    if hit is not None:
        ctx.violation("ex_kwdset", "direction recorded on every path",
                      "a path through ex_kwdset returns without storing the direction (the caller passes a "
                      "NULL keyword for `/<Enter>` and `?<Enter>` to change the direction only)", f.loc(sts[0]))
    else:
        ctx.ok("ex_kwdset", "the direction is stored on every path, with or without a keyword", loc=f.loc(sts[0]))


def rule_L6(ctx):
    """rstr_find hands a pattern with operators to the set matcher before it looks at any of the
    literal classifier's fields (they are stale for such a pattern)."""
    ctx.begin("L6", floor=1, what="delegation precedes the literal-path tests in rstr_find")
    prog = ctx.prog
    f = prog.func("rstr_find", file="rstr.c")
    pn = f.params[0]["name"]
    n = 0
    for r in f.cfg.return_nodes():
        e = strip_casts(r.get("e")) if r.get("e") is not None else None
        if e is not None and is_call(e, "rset_find"):
            continue
        n += 1
        okr = False
        for c, t in _facts(f, r):
            nn = nullness(c, t)
            if nn is not None and nn[0]["k"] == "member" and nn[0]["field"] == "rs" and nn[1]:
                okr = True
        if okr:
            ctx.ok("rstr_find", "a literal-path return only when the pattern has no compiled set", loc=f.loc(r))
        else:
            ctx.violation("rstr_find", "patterns with operators go to the regex engine",
                          "`return %s` is reachable while %s->rs is set: the anchor flags left by the "
                          "classifier decide the answer for a pattern it gave up on (e.g. ^a|b with RE_NOTBOL)" % (
                              key(e) if e is not None else "", pn), f.loc(r))
    if not n:
        raise AnalysisBroken("rstr_find: no literal-path return")


def rule_P3(ctx):
    """No use of a local alias after the block it points to was freed (same function)."""
    ctx.begin("P3", floor=2, what="frees with a live local alias")
    prog = ctx.prog
    n_free = 0
    for f in prog.funcs.values():
        if f.file in ("stag.c",):
            continue
        for c in f.calls("free"):
            n_free += 1
            a = strip_casts(c["args"][0])
            ka = key(a)
            # locals assigned from the freed expression (also through `x ? x : ..`) before the free
            aliases = []
            for n, lv, op, rhs in stores(f.body):
                if op not in ("=", "init") or rhs is None or lv["k"] not in ("ref", "var"):
                    continue
                nm = lv["name"]
                if nm == ka or lv.get("cat") not in ("local", None) and lv["k"] != "var":
                    continue
                r = strip_casts(rhs)
                srcs = [r]
                if r["k"] == "cond":
                    srcs = [strip_casts(r["t"]), strip_casts(r["f"])]
                if not any(key(x) == ka for x in srcs) or a["k"] == "ref" and a.get("cat") == "local" and False:
                    continue
                if f.cfg.pos(n) is None or f.cfg.pos(c) is None:
                    continue
                if f.cfg.search(f.cfg.pos(n), lambda e, t=c["id"]: e == t) is None:
                    continue
                aliases.append((nm, n))
            bad = None
            for nm, def_n in aliases:
                rebinds = {x["id"] for x, lv, op, rhs in stores(f.body)
                           if lv["k"] in ("ref", "var") and lv.get("name") == nm and x["id"] != def_n["id"]}
                # the freed expression itself may be re-bound in between (free(p); p = dup(..)): the
                # alias still points to the old block
                for u in f.walk():
                    if u["k"] != "ref" or u["name"] != nm:
                        continue
                    if any(x["id"] == u["id"] for x in walk(c)):
                        continue
                    par = f.nodes.get(f.parent.get(u["id"]))
                    if par is not None and par["k"] == "bin" and par["op"] == "=" and par["l"]["id"] == u["id"]:
                        continue
                    pu = f.cfg.pos(u)
                    if pu is None:
                        continue
                    if f.cfg.search(f.cfg.pos(c), lambda e, t=u["id"]: e == t,
                                    avoid=lambda e: e in rebinds) is not None and \
                            f.cfg.search(f.cfg.pos(def_n), lambda e, t=c["id"]: e == t,
                                         avoid=lambda e: e in rebinds) is not None:
                        # only a dereferencing / passing use counts, not a null test
                        if par is not None and par["k"] == "un" and par["op"] == "!":
                            continue
                        bad = (nm, u)
            if bad:
                ctx.violation(f.name, "no use of an alias after free",
                              "`%s` was assigned from %s, which is freed here, and is used afterwards: it "
                              "points into freed memory" % (bad[0], ka), f.loc(bad[1]))
            elif aliases:
                ctx.ok(f.name, "free(%s): its local alias is not used afterwards" % ka[:30], loc=f.loc(c))
    if n_free < 10:
        raise AnalysisBroken("only %d free() calls" % n_free)
    ctx.ok("*", "%d free() calls examined for live aliases" % n_free)


def rule_X9(ctx):
    """A descriptor written from inside a poll() loop together with reads of the child's output
    is non-blocking: otherwise one write() of the whole input can block while the child blocks
    on its own output (a deadlock for inputs larger than the pipe)."""
    ctx.begin("X9", floor=1, what="pipe written inside a poll loop")
    prog = ctx.prog
    f = prog.func("cmd_pipe", file="cmd.c")
    n = 0
    for w in f.calls("write"):
        lp = enclosing(f, w["id"], ("while", "for", "do"))
        if lp is None or not any(is_call(x, "poll") for x in walk(lp)):
            continue
        if not any(is_call(x, "read") for x in walk(lp)):
            continue
        n += 1
        nb = None
        for c in f.calls("fcntl"):
            if len(c["args"]) >= 3 and any((cval(x) or 0) & 0o4000 and x["k"] != "sizeof"
                                             for x in walk(c["args"][2])) and f.cfg.dominates(c, lp["c"] if lp.get("c") else w):
                nb = c
        if nb is not None:
            ctx.ok("cmd_pipe", "the pipe to the child is set O_NONBLOCK before the poll loop", loc=f.loc(nb))
        else:
            ctx.violation("cmd_pipe", "pipe to the child is non-blocking",
                          "the loop polls for the child's output and writes its input, but no "
                          "fcntl(.., F_SETFL, .. | O_NONBLOCK) precedes it: a write larger than the pipe "
                          "blocks while the child blocks on its output", f.loc(w))
    if not n:
        raise AnalysisBroken("cmd_pipe: poll loop with write and read not found")


def rule_U6(ctx):
    """linecount() counts what the splice loop stores: a final line without a newline is a line."""
    ctx.begin("U6", floor=1, what="line count of a text")
    prog = ctx.prog
    f = prog.func("linecount", file="lbuf.c")
    bad = None
    n = 0
    for txt, want in ((b"", 0), (b"a", 1), (b"a\n", 1), (b"a\nb", 2), (b"a\nb\n", 2), (b"\n", 1), (b"\n\n", 2),
                      (b"ab\ncd\nef", 3)):
        try:
            v = Interp(prog).call(f, [Ptr(tuple(txt) + (0,))])
        except (Unsupported, OverRead) as e:
            raise AnalysisBroken("linecount not evaluable: %s" % e)
        n += 1
        if v != want and bad is None:
            bad = (txt, v, want)
    try:
        v0 = Interp(prog).call(f, [None])
    except (Unsupported, OverRead):
        v0 = 0
    if v0 != 0 and bad is None:
        bad = (b"(null)", v0, 0)
    if bad:
        ctx.violation("linecount", "a text's line count includes an unterminated last line",
                      "linecount(%r) is %r, expected %d: a file whose last line has no newline loses that "
                      "line when it is spliced in (and the edit log records the wrong count)" % (
                          bad[0].decode(), bad[1], bad[2]), f.loc(f.body))
    else:
        ctx.ok("linecount", "%d texts with and without a final newline counted as the splice loop stores them" % n)


def rule_T7(ctx):
    """vi_case changes bytes of the text in place: only under a test that the byte is ASCII."""
    ctx.begin("T7", floor=1, what="in-place case changes")
    prog = ctx.prog
    f = prog.func("vi_case", file="vi.c")
    n = 0
    for s_, lv, op, rhs in stores(f.body):
        if not (lv["k"] == "sub" or (lv["k"] == "un" and lv["op"] == "*")):
            continue
        if rhs is None or not any(is_call(x, ("toupper", "tolower")) or (x["k"] == "bin" and x["op"] == "^")
                                  for x in walk(rhs)):
            continue
        n += 1
        okg = False
        for c, t in _facts(f, s_):
            c0 = strip_casts(resolve_local(f, c)) if c["k"] == "ref" else c
            if c0["k"] == "bin" and c0["op"] in ("<=", "<") and t and cval(c0["r"]) is not None and \
                    cval(c0["r"]) + (1 if c0["op"] == "<=" else 0) <= 0x80:
                okg = True
            if c0["k"] == "bin" and c0["op"] in (">", ">=") and not t and cval(c0["r"]) is not None and \
                    cval(c0["r"]) + (0 if c0["op"] == ">=" else 1) <= 0x80:
                okg = True
            if is_call(c0, "isascii") and t:
                okg = True
        if okg:
            ctx.ok("vi_case", "byte rewritten only when it is ASCII", loc=f.loc(s_))
        else:
            ctx.violation("vi_case", "case change keeps the text valid UTF-8",
                          "`%s` rewrites a byte of the text without a dominating test that it is below 0x80: "
                          "the lead byte of a multi-byte character is changed" % key(s_)[:50], f.loc(s_))
    if not n:
        raise AnalysisBroken("vi_case: in-place case store not found")


def rule_T8(ctx):
    """led_readchar returns its static buffer only after terminating what it just stored."""
    ctx.begin("T8", floor=2, what="returns of the static input buffer")
    prog = ctx.prog
    f = prog.func("led_readchar", file="led.c")
    bufs = [v["name"] for v in f.walk() if v["k"] == "var" and v.get("arr_n") and "char" in v.get("ty", "")]
    if not bufs:
        raise AnalysisBroken("led_readchar: static buffer not found")
    buf = bufs[0]
    n = 0
    for r in f.cfg.return_nodes():
        e = strip_casts(r.get("e")) if r.get("e") is not None else None
        if e is None or e["k"] != "ref" or e["name"] != buf:
            continue
        bad = False
        for items in paths_to(f.cfg, f.cfg.entry, r["id"]):
            if not path_consistent(f, items):
                continue
            last = None
            for x in items:
                if x[0] != "ev":
                    continue
                nd = f.nodes.get(x[1])
                if nd is not None and nd["k"] == "bin" and nd["op"] == "=" and nd["l"]["k"] == "sub" and \
                        key(strip_casts(nd["l"]["base"])) == buf:
                    last = nd
            if last is None or cval(last["r"]) != 0:
                bad = True
        n += 1
        if bad:
            ctx.violation("led_readchar", "the returned buffer is terminated",
                          "a path returns %s with a non-NUL store as the last store into it: the tail of the "
                          "previous, longer character is still there" % buf, f.loc(r))
        else:
            ctx.ok("led_readchar", "every path to `return %s` ends its stores with the terminator" % buf, loc=f.loc(r))
    if n < 2:
        raise AnalysisBroken("led_readchar: only %d returns of the buffer" % n)


def rule_S6(ctx):
    """ex_arg, evaluated abstractly: an escaped delimiter does not end a part of the substitute
    argument, so `|` inside the replacement stays part of it."""
    ctx.begin("S6", floor=1, what="argument split of the substitute command")
    prog = ctx.prog
    f = prog.func("ex_arg", file="ex.c")
    cases = [
        (b"/a\\/b/X|Y/g\n", b"s", 12, "an escaped delimiter is not a delimiter"),
        (b"/a/X|Y/g\n", b"s", 9, "`|` inside the replacement belongs to it"),
        (b"/a/b/|p\n", b"s", 5, "after the third delimiter `|` ends the command"),
        (b"/a/b/g|p\n", b"s", 6, "flags end at `|`"),
    ]
    bad = None
    n = 0
    for src, cmd, want, why in cases:
        try:
            r = Interp(prog).call(f, [Ptr(tuple(src) + (0,)), {}, Ptr(tuple(cmd) + (0,))])
        except (Unsupported, OverRead) as e:
            raise AnalysisBroken("ex_arg not evaluable: %s" % e)
        n += 1
        got = r.off if isinstance(r, Ptr) else None
        # the scanner may also step over the `|` it stopped at
        if got not in (want, want + 1) and bad is None:
            bad = (src, got, want, why)
    if bad:
        ctx.violation("ex_arg", "escaped delimiters and `|` in a substitute argument",
                      "for `:s%s` the argument ends at offset %s instead of %d (%s)" % (
                          bad[0].decode().rstrip("\n"), bad[1], bad[2], bad[3]), f.loc(f.body))
    else:
        ctx.ok("ex_arg", "%d substitute arguments with escaped delimiters and `|` split as the reference says" % n)


RULES = {"M5": rule_M5, "L6": rule_L6, "P3": rule_P3, "X9": rule_X9, "U6": rule_U6, "T7": rule_T7,
         "T8": rule_T8, "S6": rule_S6}
