"""Small structural clauses added after the fourth round of independent breaking changes
(DESIGN.md section 7.2).  Same alarm policy as everywhere."""
from ..absint import Interp, Ptr, OverRead, Unsupported, OPAQUE
from ..cfg import paths_to
from ..facts import AnalysisBroken, walk, key, cval
from ..lin import Lin
from ..util import (stores, lv_field, is_call, calls_in, refs, strip_casts, negate_truth, flatten_and,
                    flatten_or, enclosing, resolve_local, path_consistent, nullness)
from .w import _facts


def rule_M5(ctx):
    """ex_kwdset records the direction on every path, also when no keyword is given: an empty
    `?` after `/pat` re-aims the remembered pattern."""
    ctx.begin("M5", floor=1, what="search direction stored by ex_kwdset")
    prog = ctx.prog
    f = prog.func("ex_kwdset", file="ex.c")
    dirp = f.params[1]["name"]
    sts = [n for n, lv, op, rhs in stores(f.body)
           if lv["k"] == "ref" and lv.get("cat") in ("global", "sglobal", "static") and op == "=" and
           rhs is not None and key(strip_casts(rhs)) == dirp]
    if not sts:
        raise AnalysisBroken("ex_kwdset: store of the direction not found")
    # every path to the exit passes one of them
    hit = f.cfg.search(f.cfg.entry, lambda e: e == ("exit",), avoid=lambda e: any(e == s_["id"] for s_ in sts),
                       start_block=True)
    if hit is not None:
        ctx.violation("ex_kwdset", "direction recorded on every path",
                      "a path through ex_kwdset returns without storing the direction (the caller passes a "
                      "NULL keyword for `/<Enter>` and `?<Enter>` to change the direction only)", f.loc(sts[0]))
    else:
        ctx.ok("ex_kwdset", "the direction is stored on every path, with or without a keyword", loc=f.loc(sts[0]))


def rule_L6(ctx):
    """rstr_find hands a pattern with operators to the set matcher before it looks at any of the
    literal classifier's fields (they are stale for such a pattern)."""
    ctx.begin("L6", floor=1, what="delegation precedes the literal-path tests in rstr_find")
    prog = ctx.prog
    f = prog.func("rstr_find", file="rstr.c")
    pn = f.params[0]["name"]
    n = 0
    for r in f.cfg.return_nodes():
        e = strip_casts(r.get("e")) if r.get("e") is not None else None
        if e is not None and is_call(e, "rset_find"):
            continue
        n += 1
        okr = False
        for c, t in _facts(f, r):
            nn = nullness(c, t)
            if nn is not None and nn[0]["k"] == "member" and nn[0]["field"] == "rs" and nn[1]:
                okr = True
        if okr:
            ctx.ok("rstr_find", "a literal-path return only when the pattern has no compiled set", loc=f.loc(r))
        else:
            ctx.violation("rstr_find", "patterns with operators go to the regex engine",
                          "`return %s` is reachable while %s->rs is set: the anchor flags left by the "
                          "classifier decide the answer for a pattern it gave up on (e.g. ^a|b with RE_NOTBOL)" % (
                              key(e) if e is not None else "", pn), f.loc(r))
    if not n:
        raise AnalysisBroken("rstr_find: no literal-path return")


def rule_P3(ctx):
    """No use of a local alias after the block it points to was freed (same function)."""
    ctx.begin("P3", floor=2, what="frees with a live local alias")
    prog = ctx.prog
    n_free = 0
    for f in prog.funcs.values():
        if f.file in ("stag.c",):
            continue
        for c in f.calls("free"):
            n_free += 1
            a = strip_casts(c["args"][0])
            ka = key(a)
            # locals assigned from the freed expression (also through `x ? x : ..`) before the free
            aliases = []
            for n, lv, op, rhs in stores(f.body):
                if op not in ("=", "init") or rhs is None or lv["k"] not in ("ref", "var"):
                    continue
                nm = lv["name"]
                if nm == ka or lv.get("cat") not in ("local", None) and lv["k"] != "var":
                    continue
                r = strip_casts(rhs)
                srcs = [r]
                if r["k"] == "cond":
                    srcs = [strip_casts(r["t"]), strip_casts(r["f"])]
                if not any(key(x) == ka for x in srcs) or a["k"] == "ref" and a.get("cat") == "local" and False:
                    continue
                if f.cfg.pos(n) is None or f.cfg.pos(c) is None:
                    continue
                if f.cfg.search(f.cfg.pos(n), lambda e, t=c["id"]: e == t) is None:
                    continue
                aliases.append((nm, n))
            bad = None
            for nm, def_n in aliases:
                rebinds = {x["id"] for x, lv, op, rhs in stores(f.body)
                           if lv["k"] in ("ref", "var") and lv.get("name") == nm and x["id"] != def_n["id"]}
                # the freed expression itself may be re-bound in between (free(p); p = dup(..)): the
                # alias still points to the old block
                for u in f.walk():
                    if u["k"] != "ref" or u["name"] != nm:
                        continue
                    if any(x["id"] == u["id"] for x in walk(c)):
                        continue
                    par = f.nodes.get(f.parent.get(u["id"]))
                    if par is not None and par["k"] == "bin" and par["op"] == "=" and par["l"]["id"] == u["id"]:
                        continue
                    pu = f.cfg.pos(u)
                    if pu is None:
                        continue
                    if f.cfg.search(f.cfg.pos(c), lambda e, t=u["id"]: e == t,
                                    avoid=lambda e: e in rebinds) is not None and \
                            f.cfg.search(f.cfg.pos(def_n), lambda e, t=c["id"]: e == t,
                                         avoid=lambda e: e in rebinds) is not None:
                        # only a dereferencing / passing use counts, not a null test
                        if par is not None and par["k"] == "un" and par["op"] == "!":
                            continue
                        bad = (nm, u)
            if bad:
                ctx.violation(f.name, "no use of an alias after free",
                              "`%s` was assigned from %s, which is freed here, and is used afterwards: it "
                              "points into freed memory" % (bad[0], ka), f.loc(bad[1]))
            elif aliases:
                ctx.ok(f.name, "free(%s): its local alias is not used afterwards" % ka[:30], loc=f.loc(c))
    if n_free < 10:
        raise AnalysisBroken("only %d free() calls" % n_free)
    ctx.ok("*", "%d free() calls examined for live aliases" % n_free)


def rule_X9(ctx):
    """A descriptor written from inside a poll() loop together with reads of the child's output
    is non-blocking: otherwise one write() of the whole input can block while the child blocks
    on its own output (a deadlock for inputs larger than the pipe)."""
    ctx.begin("X9", floor=1, what="pipe written inside a poll loop")
    prog = ctx.prog
    f = prog.func("cmd_pipe", file="cmd.c")
    n = 0
    for w in f.calls("write"):
        lp = enclosing(f, w["id"], ("while", "for", "do"))
        if lp is None or not any(is_call(x, "poll") for x in walk(lp)):
            continue
        if not any(is_call(x, "read") for x in walk(lp)):
            continue
        n += 1
        nb = None
        for c in f.calls("fcntl"):
            if len(c["args"]) >= 3 and any((cval(x) or 0) & 0o4000 and x["k"] != "sizeof"
                                             for x in walk(c["args"][2])) and f.cfg.dominates(c, lp["c"] if lp.get("c") else w):
                nb = c
        if nb is not None:
            ctx.ok("cmd_pipe", "the pipe to the child is set O_NONBLOCK before the poll loop", loc=f.loc(nb))
        else:
            ctx.violation("cmd_pipe", "pipe to the child is non-blocking",
                          "the loop polls for the child's output and writes its input, but no "
                          "fcntl(.., F_SETFL, .. | O_NONBLOCK) precedes it: a write larger than the pipe "
                          "blocks while the child blocks on its output", f.loc(w))
    if not n:
        raise AnalysisBroken("cmd_pipe: poll loop with write and read not found")


def rule_U6(ctx):
    """linecount() counts what the splice loop stores: a final line without a newline is a line."""
    ctx.begin("U6", floor=1, what="line count of a text")
    prog = ctx.prog
    f = prog.func("linecount", file="lbuf.c")
    bad = None
    n = 0
    for txt, want in ((b"", 0), (b"a", 1), (b"a\n", 1), (b"a\nb", 2), (b"a\nb\n", 2), (b"\n", 1), (b"\n\n", 2),
                      (b"ab\ncd\nef", 3)):
        try:
            v = Interp(prog).call(f, [Ptr(tuple(txt) + (0,))])
        except (Unsupported, OverRead) as e:
            raise AnalysisBroken("linecount not evaluable: %s" % e)
        n += 1
        if v != want and bad is None:
            bad = (txt, v, want)
    try:
        v0 = Interp(prog).call(f, [None])
    except (Unsupported, OverRead):
        v0 = 0
    if v0 != 0 and bad is None:
        bad = (b"(null)", v0, 0)
    if bad:
        ctx.violation("linecount", "a text's line count includes an unterminated last line",
                      "linecount(%r) is %r, expected %d: a file whose last line has no newline loses that "
                      "line when it is spliced in (and the edit log records the wrong count)" % (
                          bad[0].decode(), bad[1], bad[2]), f.loc(f.body))
    else:
        ctx.ok("linecount", "%d texts with and without a final newline counted as the splice loop stores them" % n)


def rule_T7(ctx):
    """vi_case changes bytes of the text in place: only under a test that the byte is ASCII."""
    ctx.begin("T7", floor=1, what="in-place case changes")
    prog = ctx.prog
    f = prog.func("vi_case", file="vi.c")
    n = 0
    for s_, lv, op, rhs in stores(f.body):
        if not (lv["k"] == "sub" or (lv["k"] == "un" and lv["op"] == "*")):
            continue
        if rhs is None or not any(is_call(x, ("toupper", "tolower")) or (x["k"] == "bin" and x["op"] == "^")
                                  for x in walk(rhs)):
            continue
        n += 1
        okg = False
        for c, t in _facts(f, s_):
            c0 = strip_casts(resolve_local(f, c)) if c["k"] == "ref" else c
            if c0["k"] == "bin" and c0["op"] in ("<=", "<") and t and cval(c0["r"]) is not None and \
                    cval(c0["r"]) + (1 if c0["op"] == "<=" else 0) <= 0x80:
                okg = True
            if c0["k"] == "bin" and c0["op"] in (">", ">=") and not t and cval(c0["r"]) is not None and \
                    cval(c0["r"]) + (0 if c0["op"] == ">=" else 1) <= 0x80:
                okg = True
            if is_call(c0, "isascii") and t:
                okg = True
        if okg:
            ctx.ok("vi_case", "byte rewritten only when it is ASCII", loc=f.loc(s_))
        else:
            ctx.violation("vi_case", "case change keeps the text valid UTF-8",
                          "`%s` rewrites a byte of the text without a dominating test that it is below 0x80: "
                          "the lead byte of a multi-byte character is changed" % key(s_)[:50], f.loc(s_))
    if not n:
        raise AnalysisBroken("vi_case: in-place case store not found")


def rule_T8(ctx):
    """led_readchar returns its static buffer only after terminating what it just stored."""
    ctx.begin("T8", floor=2, what="returns of the static input buffer")
    prog = ctx.prog
    f = prog.func("led_readchar", file="led.c")
    bufs = [v["name"] for v in f.walk() if v["k"] == "var" and v.get("arr_n") and "char" in v.get("ty", "")]
    if not bufs:
        raise AnalysisBroken("led_readchar: static buffer not found")
    buf = bufs[0]
    n = 0
    for r in f.cfg.return_nodes():
        e = strip_casts(r.get("e")) if r.get("e") is not None else None
        if e is None or e["k"] != "ref" or e["name"] != buf:
            continue
        bad = False
        for items in paths_to(f.cfg, f.cfg.entry, r["id"]):
            if not path_consistent(f, items):
                continue
            last = None
            for x in items:
                if x[0] != "ev":
                    continue
                nd = f.nodes.get(x[1])
                if nd is not None and nd["k"] == "bin" and nd["op"] == "=" and nd["l"]["k"] == "sub" and \
                        key(strip_casts(nd["l"]["base"])) == buf:
                    last = nd
            if last is None or cval(last["r"]) != 0:
                bad = True
        n += 1
        if bad:
            ctx.violation("led_readchar", "the returned buffer is terminated",
                          "a path returns %s with a non-NUL store as the last store into it: the tail of the "
                          "previous, longer character is still there" % buf, f.loc(r))
        else:
            ctx.ok("led_readchar", "every path to `return %s` ends its stores with the terminator" % buf, loc=f.loc(r))
    if n < 2:
        raise AnalysisBroken("led_readchar: only %d returns of the buffer" % n)


def rule_S6(ctx):
    """ex_arg, evaluated abstractly: an escaped delimiter does not end a part of the substitute
    argument, so `|` inside the replacement stays part of it."""
    ctx.begin("S6", floor=1, what="argument split of the substitute command")
    prog = ctx.prog
    f = prog.func("ex_arg", file="ex.c")
    cases = [
        (b"/a\\/b/X|Y/g\n", b"s", 12, "an escaped delimiter is not a delimiter"),
        (b"/a/X|Y/g\n", b"s", 9, "`|` inside the replacement belongs to it"),
        (b"/a/b/|p\n", b"s", 5, "after the third delimiter `|` ends the command"),
        (b"/a/b/g|p\n", b"s", 6, "flags end at `|`"),
    ]
    bad = None
    n = 0
    for src, cmd, want, why in cases:
        try:
            r = Interp(prog).call(f, [Ptr(tuple(src) + (0,)), {}, Ptr(tuple(cmd) + (0,))])
        except (Unsupported, OverRead) as e:
            raise AnalysisBroken("ex_arg not evaluable: %s" % e)
        n += 1
        got = r.off if isinstance(r, Ptr) else None
        # the scanner may also step over the `|` it stopped at
        if got not in (want, want + 1) and bad is None:
            bad = (src, got, want, why)
    if bad:
        ctx.violation("ex_arg", "escaped delimiters and `|` in a substitute argument",
                      "for `:s%s` the argument ends at offset %s instead of %d (%s)" % (
                          bad[0].decode().rstrip("\n"), bad[1], bad[2], bad[3]), f.loc(f.body))
    else:
        ctx.ok("ex_arg", "%d substitute arguments with escaped delimiters and `|` split as the reference says" % n)


def rule_S7(ctx):
    """Stored text (a register, a script) is executed through ex_command(); a register or file
    that runs itself would recurse without bound.  ex_command reaches ex_exec only under a test
    of a static nesting counter against a constant, with the counter raised before and lowered
    after the call on every path."""
    ctx.begin("S7", floor=1, what="nesting of stored command text")
    prog = ctx.prog
    f = prog.func("ex_command", file="ex.c")
    cfg = f.cfg
    calls = list(f.calls("ex_exec"))
    if not calls:
        raise AnalysisBroken("ex_command does not call ex_exec")
    # is there a cycle at all?  (a handler that calls ex_command back)
    back = [g.name for g in prog.funcs.values() if g.file == "ex.c" and g.name != "ex_command" and
            any(True for _ in g.calls("ex_command")) and prog.cg.reaches(prog.func("ex_exec"), [g.name], stop=set())]
    if not back:
        ctx.ok("ex_command", "no handler re-enters ex_command")
        return
    for c in calls:
        guard = None
        for cid, t in cfg.facts_at(c["id"]):
            cc = f.nodes.get(cid)
            if cc is None or cc["k"] != "bin" or cc["op"] not in ("<", "<=", ">", ">="):
                continue
            l, r = strip_casts(cc["l"]), strip_casts(cc["r"])
            var, K = None, None
            if l["k"] == "ref" and cval(r) is not None and l.get("cat") != "param":
                var, K, lt = l["name"], cval(r), cc["op"] in ("<", "<=")
            elif r["k"] == "ref" and cval(l) is not None and r.get("cat") != "param":
                var, K, lt = r["name"], cval(l), cc["op"] in (">", ">=")
            if var and lt == t:
                guard = (var, K)
        if guard is None:
            ctx.violation("ex_command", "nested command text is depth-limited",
                          "%s execute stored text through ex_command(), which calls ex_exec() without a test "
                          "of a nesting counter: a register or script that runs itself recurses until the "
                          "stack overflows" % ", ".join(sorted(back)), f.loc(c))
            continue
        var, K = guard
        incs = [n for n, lv, op, rhs in stores(f.body) if lv["k"] == "ref" and lv["name"] == var
                and op in ("post++", "pre++")]
        decs = [n for n, lv, op, rhs in stores(f.body) if lv["k"] == "ref" and lv["name"] == var
                and op in ("post--", "pre--")]
        if any(cfg.dominates(i_, c) for i_ in incs) and any(cfg.postdominates(d_, c) for d_ in decs):
            ctx.ok("ex_command", "ex_exec only while %s is below %d, raised before and lowered after the call "
                   "(%s re-enter)" % (var, K, ", ".join(sorted(back))), loc=f.loc(c))
        else:
            ctx.violation("ex_command", "nested command text is depth-limited",
                          "the nesting counter %s is tested but not raised before / lowered after ex_exec" % var,
                          f.loc(c))


def rule_B15(ctx):
    """reg_putln cuts the old history text in place so that hist lines remain.  Evaluated
    abstractly for hist = 1..4 over old texts of 0..4 lines (also an empty register): every
    store into the old text is inside its block, and what is kept is at most hist - 1 lines."""
    ctx.begin("B15", floor=1, what="in-place cut of the history register")
    prog = ctx.prog
    f = prog.func("reg_putln", file="vi.c")
    n = 0
    bad = None
    for hist in (1, 2, 3, 4):
        for nlines in range(0, 5):
            old = b"".join(b"l%d\n" % i for i in range(nlines))
            op_ = Ptr(tuple(old) + (0,))
            op_.writes = []

            def h_get(ip, fn, e, args, env, op_=op_):
                return op_
            ip = Interp(prog, hooks={"reg_get": h_get, "reg_put": lambda *a: None, "sbuf_make": lambda *a: {},
                                     "sbuf_str": lambda *a: None, "sbuf_chr": lambda *a: None,
                                     "sbuf_buf": lambda *a: Ptr((0,)), "sbuf_free": lambda *a: None},
                        globals_={"xhist": hist})
            try:
                ip.call(f, [ord("/"), Ptr((0x7a, 0))])
            except OverRead as e:
                if bad is None:
                    bad = ("with hist=%d and %s the cut writes outside the register's text (%s)" % (
                        hist, "an empty register" if not nlines else "%d old lines" % nlines, e))
                continue
            except Unsupported as e:
                raise AnalysisBroken("reg_putln not evaluable: %s" % e)
            n += 1
            cuts = [j for j, v in op_.writes if v == 0]
            keep = min(cuts) if cuts else len(old)
            kept_lines = old[:keep].count(b"\n") + (1 if keep and old[:keep][-1:] != b"\n" else 0)
            if kept_lines > max(hist - 1, 0) and bad is None:
                bad = ("with hist=%d and %d old lines, %d old line(s) (%r) are kept next to the new one" % (
                    hist, nlines, kept_lines, old[:keep].decode()))
    if bad:
        ctx.violation("reg_putln", "history cut stays inside the register text", bad, f.loc(f.body))
    else:
        ctx.ok("reg_putln", "cut inside the block and at most hist - 1 old lines kept on %d (hist, old text) cases" % n)


def rule_T9(ctx):
    """The editor's own decoders never step or read past the terminator, also on a string that
    ends inside a multi-byte sequence (the editor itself produces such strings when it cuts a
    message to its buffer): uc_len, uc_code, uc_next, uc_slen evaluated abstractly on every
    string of up to 4 bytes over a representative alphabet."""
    ctx.begin("T9", floor=2, what="terminator-safe decoders of uc.c")
    import itertools
    prog = ctx.prog
    alpha = [0x41, 0x80, 0xbf, 0xc3, 0xe2, 0xf0, 0xf8, 0xff]
    fns = [(nm, prog.func(nm, file="uc.c")) for nm in ("uc_len", "uc_code", "uc_slen") if prog.has_func(nm, file="uc.c")]
    if len(fns) < 2:
        raise AnalysisBroken("uc.c: decoders not found")
    n = 0
    bad = {}
    for L in range(0, 5):
        for combo in itertools.product(alpha, repeat=L):
            buf = tuple(combo) + (0,)
            n += 1
            for nm, fn in fns:
                try:
                    v = Interp(prog).call(fn, [Ptr(buf)])
                except OverRead as e:
                    bad.setdefault(nm, (buf, str(e)))
                    continue
                except Unsupported as e:
                    raise AnalysisBroken("%s not evaluable: %s" % (nm, e))
                if nm == "uc_len" and (not isinstance(v, int) or v > L or v < 0 or (L > 0 and v == 0)):
                    bad.setdefault(nm, (buf, "returns %s for a string of %d bytes" % (v, L)))
    show = lambda b_: "".join("\\x%02x" % x for x in b_[:-1])
    for nm, fn in fns:
        if nm in bad:
            ctx.violation(nm, "decoder stays inside the string",
                          "uc.c:%s(\"%s\"): %s -- a message cut inside a multi-byte character makes the "
                          "renderer read past its buffer" % (nm, show(bad[nm][0]), bad[nm][1]), fn.loc(fn.body))
        else:
            ctx.ok(nm, "no step or read past the terminator on %d strings (truncated sequences included)" % n)


def rule_R14(ctx):
    """Ignore-case in a bracket range: a character matches [X-Y] when it or its other case lies
    in the range as written.  brk_match is evaluated abstractly for every range over a set of
    letter / punctuation end points and every printable character, with and without the flag."""
    ctx.begin("R14", floor=1, what="bracket ranges under ignore-case")
    prog = ctx.prog
    bm = prog.func("brk_match", file="regex.c")
    am = prog.func("ratom_match", file="regex.c")
    icase = None
    for bit in (1, 2, 4, 8, 16, 32, 64, 128):
        line = (0x41, 0x0a, 0)
        sp = Ptr(line)
        st = {"s": Ptr(line, 0, sp.log), "o": sp, "flg": bit, "pc": 0, "dep": 0}
        try:
            if Interp(prog).call(am, [{"ra": 0, "s": Ptr((0x61, 0))}, st]) == 0:
                icase = bit
                break
        except (Unsupported, OverRead):
            continue
    if icase is None:
        raise AnalysisBroken("ignore-case flag not found")
    ends = [ord(c) for c in "AWZ_abz"]
    n = 0
    bad = None
    for x in ends:
        for y in ends:
            if y < x:
                continue
            brk = Ptr((x, 0x2d, y, 0x5d, 0))          # the text after `[`
            for c in range(0x20, 0x7f):
                for flg in (0, icase):
                    try:
                        v = Interp(prog).call(bm, [brk, c, flg])
                    except (Unsupported, OverRead) as e:
                        raise AnalysisBroken("brk_match not evaluable: %s" % e)
                    n += 1
                    alts = {c}
                    if flg and chr(c).isalpha():
                        alts.add(ord(chr(c).swapcase()))
                    want = any(x <= a <= y for a in alts)
                    if (v == 0) != want and bad is None:
                        bad = (x, y, c, flg, v == 0, want)
    if bad:
        x, y, c, flg, got, want = bad
        ctx.violation("brk_match", "bracket range under ignore-case",
                      "[%s-%s] %s %r %s ignore-case, but %s: the ends of the range are folded separately" % (
                          chr(x), chr(y), "matches" if got else "does not match", chr(c),
                          "with" if flg else "without", "it should" if want else "it should not"), bm.loc(bm.body))
    else:
        ctx.ok("brk_match", "a character matches [X-Y] exactly when it or (with ignore-case) its other case is in "
               "the range, on %d (range, character, flag) cases" % n)


RULES = {"M5": rule_M5, "L6": rule_L6, "P3": rule_P3, "X9": rule_X9, "U6": rule_U6, "T7": rule_T7,
         "T8": rule_T8, "S6": rule_S6, "S7": rule_S7, "B15": rule_B15, "T9": rule_T9, "R14": rule_R14}
