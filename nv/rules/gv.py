"""G — global marks; V — the vi loop (DESIGN.md 3.9)."""
from ..cfg import enum_paths, paths_to
from ..facts import AnalysisBroken, walk, key, cval
from ..lin import Lin, linearize, cmp_constraints, prove_le, PROVEN
from ..util import (stores, lv_field, lv_var, is_call, calls_in, refs, mentions,
                    strip_casts, negate_truth, flatten_and, flatten_or, path_consistent)
from .su import call_reaches


def _ptr_parts(e, base_fields):
    """pointer expression base + off (elements): returns (field, Lin off) or None"""
    e = strip_casts(e)
    l = linearize(e)
    if l is None:
        return None
    base = None
    off = Lin(k=l.k)
    for a, v in l.c.items():
        hit = [bf for bf in base_fields if a.endswith("->" + bf) or a == bf]
        if hit and v == 1 and base is None:
            base = hit[0]
        else:
            off = off + Lin({a: v})
    if base is None:
        return None
    return base, off


def rule_G1(ctx):
    ctx.begin("G1", floor=4, what="parallel moves / growth / clearing of ln and ln_glob")
    f0 = ctx.prog.func("lbuf_replace")
    # the growth may live in a private helper: take every function of lbuf.c that stores the ln
    # pointer itself (S1 restricts who may) and judge moves/growth over them together
    fs = [f0]
    for g in ctx.prog.funcs.values():
        if g.file == "lbuf.c" and g is not f0 and any(
                lv_field(lv) and lv_field(lv)[0] == "lbuf" and lv_field(lv)[1] == "ln" and not lv_field(lv)[2]
                and op == "=" for n, lv, op, rhs in stores(g.body)):
            fs.append(g)
    res = None
    for f in fs:
        res = _g1_one(ctx, f, f is f0, res)
    moves, grow_copy, allocs, fshift = res
    for kind, tab in (("shift", moves), ("growth copy", grow_copy)):
        a = sorted(x[0] for x in tab["ln"])
        b = sorted(x[0] for x in tab["ln_glob"])
        if a == b and (a or kind == "growth copy"):
            for sig, c, ff in tab["ln"]:
                ctx.ok(ff.name, "%s of ln mirrored on ln_glob %s" % (kind, sig[1:]), loc=ff.loc(c))
        elif a != b:
            ff = (tab["ln"] or tab["ln_glob"])[0][2]
            ctx.violation(ff.name, "%s mirrored on the mark array" % kind,
                          "line table is moved as %s but the global-mark array as %s: marks no "
                          "longer travel with their lines" % (a, b), ff.loc((tab["ln"] or tab["ln_glob"])[0][1]))
    if not moves["ln"]:
        ctx.inconclusive("lbuf_replace", "shift of the line table", "no block move on lb->ln recognised")
    if len(allocs) == 2:
        if repr(allocs["ln"][0]) == repr(allocs["ln_glob"][0]):
            ctx.ok(allocs["ln"][2].name, "growth allocates both arrays with %r elements" % allocs["ln"][0])
        else:
            ctx.violation(allocs["ln"][2].name, "growth element counts",
                          "ln gets %r elements, ln_glob %r" % (allocs["ln"][0], allocs["ln_glob"][0]),
                          allocs["ln"][2].loc(allocs["ln_glob"][1]))
    elif len(allocs) == 1:
        ctx.violation("lbuf_replace", "growth of both arrays",
                      "the growth path allocates only %s: the other array is not grown with it" % sorted(allocs))
    else:
        ctx.inconclusive("lbuf_replace", "growth of both arrays", "growth allocation not recognised")
    _g1_clear(ctx, f0)


def _g1_one(ctx, f, is_main, acc):
    moves, grow_copy, allocs_acc, _ = acc or ({"ln": [], "ln_glob": []}, {"ln": [], "ln_glob": []}, {}, None)
    rec = ctx.prog.record("lbuf")
    esz = {}
    for fld in rec["fields"]:
        if fld["name"] == "ln":
            esz["ln"] = 8
        if fld["name"] == "ln_glob":
            esz["ln_glob"] = 1
    # local aliases for the grown arrays: variables assigned to lb->ln / lb->ln_glob
    alias = {}
    for n, lv, op, rhs in stores(f.body):
        lf = lv_field(lv)
        if lf and lf[0] == "lbuf" and lf[1] in ("ln", "ln_glob") and not lf[2] and op == "=" \
                and rhs is not None and strip_casts(rhs)["k"] == "ref":
            alias[strip_casts(rhs)["name"]] = lf[1]
    bases = ["ln", "ln_glob"] + list(alias)
    for c in f.calls(("memcpy", "memmove")):
        d = _ptr_parts(c["args"][0], bases)
        s = _ptr_parts(c["args"][1], bases)
        if d is None:
            continue
        fld = alias.get(d[0], d[0])
        if fld not in esz:
            continue
        n = linearize(strip_casts(c["args"][2]))
        if n is None:
            ctx.inconclusive("lbuf_replace", "move length", key(c["args"][2]), f.loc(c))
            continue
        cnt = n.scale(1.0 / esz[fld]) if False else n.scale(__import__("fractions").Fraction(1, esz[fld]))
        sig = (c["fn"], repr(d[1]), repr(s[1]) if s else "?", repr(cnt))
        if d[0] in alias:
            grow_copy[fld].append((sig, c, f))
        else:
            moves[fld].append((sig, c, f))
    # growth allocations use one element count
    allocs = allocs_acc
    for n in f.walk():
        if n["k"] == "var" and n.get("init") is not None and n["name"] in alias:
            m = strip_casts(n["init"])
            if is_call(m, "malloc"):
                l = linearize(strip_casts(m["args"][0]))
                if l is not None:
                    allocs[alias[n["name"]]] = (l.scale(__import__("fractions").Fraction(1, esz[alias[n["name"]]])), n, f)
    # the same with the allocation assigned after the declaration
    for n, lv, op, rhs in stores(f.body):
        if op == "=" and lv["k"] == "ref" and lv["name"] in alias and rhs is not None and is_call(strip_casts(rhs), "malloc"):
            l = linearize(strip_casts(strip_casts(rhs)["args"][0]))
            if l is not None:
                allocs[alias[lv["name"]]] = (l.scale(__import__("fractions").Fraction(1, esz[alias[lv["name"]]])), n, f)
    return moves, grow_copy, allocs, None


def _g1_clear(ctx, f):
    # new lines start unmarked: ln_glob[pos + i] = 0 for i in [n_del, n_ins)
    pn = [p["name"] for p in f.params]
    pos, n_del = pn[2], pn[3]
    n_ins = None
    for n in f.walk():
        if n["k"] == "var" and n.get("init") is not None and is_call(strip_casts(n["init"]), "linecount"):
            n_ins = n["name"]
        if n["k"] == "bin" and n["op"] == "=" and n["l"]["k"] == "ref" and is_call(strip_casts(n["r"]), "linecount"):
            n_ins = n["l"]["name"]
    cleared = False
    for lp in f.walk():
        if lp["k"] != "for":
            continue
        for n, lv, op, rhs in stores(lp["body"]):
            lf = lv_field(lv)
            if lf and lf[1] == "ln_glob" and lf[2] and op == "=" and cval(rhs) == 0:
                init, c = lp.get("init"), lp.get("c")
                iv = key(init["l"]) if init is not None and init["k"] == "bin" else None
                idx = key(strip_casts(lv["idx"])) if lv["k"] == "sub" else ""
                if iv and key(init["r"]) == n_del and key(c) == "(%s<%s)" % (iv, n_ins) and \
                        idx in ("(%s+%s)" % (pos, iv), "(%s+%s)" % (iv, pos)):
                    cleared = True
                else:
                    ctx.violation("lbuf_replace", "inserted lines start unmarked",
                                  "clearing loop is for(%s; %s) ln_glob[%s] = 0, expected i in "
                                  "[%s, %s) at %s + i" % (key(init), key(c), idx, n_del, n_ins, pos),
                                  f.loc(lp))
                    cleared = None
    if cleared:
        ctx.ok("lbuf_replace", "ln_glob[pos+i] = 0 for i in [n_del, n_ins)")
    elif cleared is False:
        ctx.violation("lbuf_replace", "inserted lines start unmarked",
                      "no loop clears the global marks of the inserted lines")


def rule_G2(ctx):
    ctx.begin("G2", floor=4, what="global depth/marks balance")
    prog = ctx.prog
    f = prog.func("ec_glob")
    cfg = f.cfg
    inc = dec = None
    for n, lv, op, rhs in stores(f.body):
        v = lv_var(lv)
        if v and v[0] == "xgdep":
            if op in ("post++", "pre++"):
                inc = n
            elif op in ("post--", "pre--"):
                dec = n
            else:
                ctx.violation("ec_glob", "depth counter", "xgdep %s" % op, f.loc(n))
    if inc is None:
        raise AnalysisBroken("ec_glob: xgdep++ not found")
    is_dec = lambda e: dec is not None and e == dec["id"]
    hit = cfg.search(cfg.pos(inc), lambda e: e == ("exit",), avoid=is_dec)
    if hit is not None or dec is None:
        ctx.violation("ec_glob", "depth restored on every path",
                      "a return is reachable after xgdep++ without xgdep--", f.loc(inc))
    else:
        ctx.ok("ec_glob", "xgdep++ ... xgdep-- on every path", loc=f.loc(inc))
    # the loops may live in ec_glob or in a helper of the same file that it calls (the helper's
    # parameters are then read as the arguments of that call)
    import re as _re
    owners = [(f, {}, None)]
    for c_ in f.calls():
        h_ = prog.resolve(f, c_["fn"]) if c_.get("fn") else None
        if h_ is not None and h_.file == f.file and h_ is not f and any(
                True for _ in h_.calls(("lbuf_globset", "lbuf_globget"))):
            owners.append((h_, {q["name"]: key(strip_casts(a_)) for q, a_ in zip(h_.params, c_["args"])}, c_))

    def subst_key(k_, sub):
        for pn_, ak_ in sub.items():
            k_ = _re.sub(r"(?<![\w>.])%s(?![\w])" % _re.escape(pn_), ak_, k_)
        return k_

    def index_init(g, lp, iv):
        """constant / expression the loop index starts from: the for-init, or the last store or
        initialiser of the index that dominates the loop"""
        if lp["k"] == "for" and lp.get("init") is not None and lp["init"]["k"] == "bin":
            return lp["init"]["r"]
        if lp["k"] == "for" and lp.get("init") is not None and lp["init"]["k"] == "decl":
            return lp["init"]["vars"][0].get("init")
        inits = [(n_, r_) for n_, lv_, op_, r_ in stores(g.body)
                 if lv_["k"] in ("ref", "var") and lv_.get("name") == iv and op_ in ("=", "init") and r_ is not None and
                 g.cfg.pos(n_) is not None and g.cfg.dominates(n_, lp["c"]) and not any(x["id"] == n_["id"] for x in walk(lp))]
        return inits[-1][1] if inits else None
    # clearing loop over all lines
    clear = None
    for g, sub, site in owners:
        for lp in g.walk():
            if lp["k"] not in ("for", "while") or lp.get("c") is None:
                continue
            body_calls = [c for c in calls_in(lp["body"], "lbuf_globget")]
            if not body_calls or any(True for _ in calls_in(lp["body"], ("ex_exec", "ex_command"))):
                continue
            if any(True for _ in calls_in(lp["c"], "lbuf_globget")):
                continue
            iv = key(strip_casts(body_calls[0]["args"][1]))
            c0 = lp["c"]
            if c0["k"] != "bin" or c0["op"] not in ("<", ">") or "lbuf_len" not in key(c0):
                continue
            idx_side = c0["l"] if c0["op"] == "<" else c0["r"]
            if key(strip_casts(idx_side)) != iv:
                continue
            # the body must not leave the loop early
            if any(x["k"] in ("break", "return") for x in walk(lp["body"])):
                continue
            if cval(index_init(g, lp, iv)) == 0:
                clear = (g, lp, site)
    if clear is None:
        ctx.violation("ec_glob", "marks cleared afterwards",
                      "no loop `for (i = 0; i < lbuf_len(xb); i++) lbuf_globget(...)` clears the "
                      "leftover marks of this depth")
    else:
        g, lp, site = clear
        cid = lp["c"]["id"] if g is f else site["id"]
        hit = cfg.search(cfg.pos(inc), lambda e: e == ("exit",), avoid=lambda e: e == cid)
        if hit is not None:
            ctx.violation("ec_glob", "marks cleared afterwards",
                          "a return is reachable after xgdep++ that skips the clearing loop",
                          g.loc(lp))
        else:
            ctx.ok("ec_glob", "every exit after xgdep++ passes the clearing loop", loc=g.loc(lp))
    # same depth for set and get; marks set for (beg, end), visit starts at beg
    for g, sub, site in owners:
        for c in list(g.calls("lbuf_globset")) + list(g.calls("lbuf_globget")):
            if subst_key(key(strip_casts(c["args"][2])), sub) != "xgdep":
                ctx.violation("ec_glob", "mark depth", "%s uses depth %s" % (c["fn"], key(c["args"][2])),
                              g.loc(c))
            else:
                ctx.ok("ec_glob", "%s at depth xgdep" % c["fn"], loc=g.loc(c))
    rv = [strip_casts(a)["e"]["name"] for c in f.calls("ex_region") for a in c["args"][1:3]
          if strip_casts(a)["k"] == "un"]
    if len(rv) == 2:
        beg, end = rv
        okset = False
        for g, sub, site in owners:
            for lp in g.walk():
                if lp["k"] in ("for", "while") and lp.get("c") is not None and any(True for _ in calls_in(lp["body"], "lbuf_globset")):
                    gs = next(calls_in(lp["body"], "lbuf_globset"))
                    iv = key(strip_casts(gs["args"][1]))
                    ck = subst_key(key(lp["c"]), sub)
                    i0 = index_init(g, lp, iv)
                    ik = subst_key(key(strip_casts(i0)), sub) if i0 is not None else ""
                    steps = [n_ for n_, lv_, op_, r_ in stores(lp.get("inc") or lp["body"])
                             if lv_["k"] == "ref" and lv_["name"] == iv]
                    if lp["k"] == "while":
                        steps = [n_ for n_, lv_, op_, r_ in stores(lp["body"]) if lv_["k"] == "ref" and lv_["name"] == iv]
                    step_ok = len(steps) == 1 and (steps[0].get("op") in ("post++", "pre++") or (
                        steps[0].get("op") == "+=" and cval(steps[0]["r"]) == 1))
                    if ik in ("(%s+1)" % beg, "(1+%s)" % beg) and ck in ("(%s<%s)" % (iv, end), "(%s>%s)" % (end, iv)) and step_ok:
                        okset = True
                    elif ik and step_ok:
                        ctx.violation("ec_glob", "lines of the range are marked",
                                      "marking loop runs from `%s` while `%s`, expected the open range (beg, end)" % (ik, ck), g.loc(lp))
                        okset = None
        if okset:
            ctx.ok("ec_glob", "lines beg+1 .. end-1 are marked, the visit starts at beg")
        elif okset is False:
            ctx.inconclusive("ec_glob", "lines of the range are marked", "marking loop not recognised")
    # set / get use the same bit, get clears what it returns: both evaluated abstractly on one
    # mark cell for every level 1..7 and several cell contents (the spelling -- index or pointer
    # form, a helper for the bit, |= or written out -- is free)
    from ..absint import Interp, Unsupported, OverRead
    gs, gg = prog.func("lbuf_globset"), prog.func("lbuf_globget")
    bad = None
    n_eval = 0
    for dep in range(1, 8):
        for cell0 in (0, 1 << dep, 0x7e & ~(1 << dep), 0x7e, 2 if dep != 1 else 4):
            for pos in (0, 3):
                lbm = {"ln_glob": {0: 0x55 & 0x7f, 3: 0x55 & 0x7f, pos: cell0}}
                try:
                    Interp(prog).call(gs, [lbm, pos, dep])
                    after_set = lbm["ln_glob"].get(pos)
                    got = Interp(prog).call(gg, [lbm, pos, dep])
                    after_get = lbm["ln_glob"].get(pos)
                except (Unsupported, OverRead) as e_:
                    raise AnalysisBroken("lbuf_globset / lbuf_globget not evaluable: %s" % e_)
                n_eval += 1
                if not all(isinstance(x, int) for x in (after_set, after_get, got)):
                    raise AnalysisBroken("lbuf_globset / lbuf_globget: mark cell not evaluable")
                want_set = (cell0 | (1 << dep)) & 0xff
                want_get = cell0 & ~(1 << dep) & 0xff
                other = 3 - pos
                if (after_set & 0xff) != want_set:
                    bad = bad or ("lbuf_globset", "same mark bit", "level %d on a cell holding 0x%02x leaves 0x%02x, "
                                  "expected 0x%02x" % (dep, cell0, after_set & 0xff, want_set))
                elif got != 1 or (after_get & 0xff) != want_get:
                    bad = bad or ("lbuf_globget", "visit once", "after the mark of level %d was set on a cell holding "
                                  "0x%02x, reading it returns %s and leaves 0x%02x (expected 1 and 0x%02x): the mark is "
                                  "not cleared when it is read, or another level's mark is" % (
                                      dep, cell0, got, after_get & 0xff, want_get))
                elif lbm["ln_glob"].get(other) != (0x55 & 0x7f):
                    bad = bad or ("lbuf_globset", "same mark bit", "the cell of another line is changed")
                # a second read finds the mark gone
                try:
                    again = Interp(prog).call(gg, [lbm, pos, dep])
                except (Unsupported, OverRead) as e_:
                    raise AnalysisBroken("lbuf_globget not evaluable: %s" % e_)
                if again != 0 and not bad:
                    bad = ("lbuf_globget", "visit once", "a second read of level %d still returns %s" % (dep, again))
    if bad:
        ctx.violation(bad[0], bad[1], bad[2])
    else:
        ctx.ok("lbuf_globset/lbuf_globget", "set raises exactly the level's bit, get returns it and clears exactly it "
               "(%d evaluations)" % n_eval)
        ctx.ok("lbuf_globget", "returns and clears the mark")


# ----------------------------------------------------------------------------------------


def _main_loop(vi):
    cfg = vi.cfg
    loops = cfg.loops()
    main = None
    for h, body in loops.items():
        blk = cfg.blocks[h]
        if blk.term and blk.term.get("cond"):
            c = vi.nodes.get(blk.term["cond"])
            if c and mentions(c, "xquit"):
                if main is None or len(body) > len(loops[main]):
                    main = h
    if main is None:
        raise AnalysisBroken("vi(): main loop on xquit not found")
    return main, loops[main]


def rule_V1(ctx):
    ctx.begin("V1", floor=4, what="cursor re-clamp")
    prog = ctx.prog
    vi = prog.func("vi", file="vi.c")
    cfg = vi.cfg
    head, body = _main_loop(vi)
    tps = [c for c in vi.calls("term_pos") if cfg.pos(c) and cfg.pos(c)[0] in body]
    # the one that is followed by term_commit at the end of the iteration: post-dominated
    # by nothing but commit/lbuf_modified -> take those from which the header is reachable
    # without another term_pos
    final = []
    head_ev = cfg.blocks[head].ev[0]
    for t in tps:
        nxt = cfg.search(cfg.pos(t), lambda e: e == head_ev or
                         (e != ("exit",) and is_call(vi.nodes.get(e), "term_pos")))
        if nxt == head_ev:
            final.append(t)
    if not final:
        raise AnalysisBroken("vi(): final term_pos of an iteration not found")
    is_fix = lambda e: is_call(vi.nodes.get(e), "vi_wfix")
    br = cfg.branch(head)
    for t in final:
        hit = cfg.search(br[1], lambda e: e == t["id"], avoid=is_fix, start_block=True,
                         edge_ok=lambda b, k, s: s != head)
        if hit is not None:
            ctx.violation("vi", "re-clamp before placing the cursor",
                          "the final term_pos of an iteration is reachable without vi_wfix", vi.loc(t))
        else:
            ctx.ok("vi", "every iteration passes vi_wfix before the final term_pos", loc=vi.loc(t))
    # after a successful motion xoff comes from ren_noeol
    mvv = None
    for n, lv, op, rhs in stores(vi.body):
        if op == "=" and rhs is not None and is_call(strip_casts(rhs), "vi_motion") and lv["k"] == "ref":
            mvv = lv["name"]
    if mvv is None:
        raise AnalysisBroken("vi(): result of vi_motion not kept")
    n_x = 0
    for n, lv, op, rhs in stores(vi.body):
        v = lv_var(lv)
        if not (v and v[0] == "xoff" and v[1] == "global"):
            continue
        motion = False
        for cid, t in cfg.facts_at(n["id"]):
            c = vi.nodes.get(cid)
            if c and c["k"] == "bin" and c["op"] == ">" and key(c["l"]) == mvv and cval(c["r"]) == 0 and t:
                motion = True
        if not motion:
            continue
        n_x += 1
        if rhs is not None and is_call(strip_casts(rhs), "ren_noeol"):
            ctx.ok("vi", "after a motion xoff = ren_noeol(...)", loc=vi.loc(n))
        else:
            ctx.violation("vi", "cursor off the terminator after a motion",
                          "xoff is assigned %s, not a ren_noeol() value" % key(rhs), vi.loc(n))
    if not n_x:
        ctx.violation("vi", "cursor column after a motion", "no store to xoff in the motion branch")
    # vi_wfix: xrow in [0, max(0, len - 1)], xoff from ren_noeol last
    wf = prog.func("vi_wfix")
    LEN = "lbuf_len(ex_lbuf())"
    exits = [b for b in wf.cfg.blocks.values() if wf.cfg.exit in b.succ]
    n_p = 0
    bad = None
    for items, end in enum_paths(wf.cfg, wf.cfg.entry, set()):
        if end != wf.cfg.exit or not path_consistent(wf, items):
            continue
        n_p += 1
        subst, hyps, byid = {}, [Lin({LEN: 1})], {}
        for it in items:
            if it[0] == "blk":
                continue
            if it[0] == "br":
                c = wf.nodes[it[1]]
                byid[c["id"]] = it[2]
                hyps += cmp_constraints(c, it[2], subst)
            else:
                n = wf.nodes.get(it[1])
                if n and n["k"] == "bin" and n["op"] == "=" and n["l"]["k"] == "ref":
                    val = strip_casts(n["r"])
                    while val["k"] == "cond" and strip_casts(val["c"])["id"] in byid:
                        val = strip_casts(val["t"] if byid[strip_casts(val["c"])["id"]] else val["f"])
                    lv_ = linearize(val, subst) if val["k"] != "cond" else None
                    nm = n["l"]["name"]
                    hyps = [h for h in hyps if nm not in (h[1].c if isinstance(h, tuple) else h.c)]
                    subst[nm] = lv_ if lv_ is not None else Lin({"?%d" % n["id"]: 1})
        X = subst.get("xrow") or Lin({"xrow": 1})
        v1 = prove_le(Lin(k=0), X, hyps)
        # xrow <= len - 1 or (len == 0 and xrow == 0)
        v2 = prove_le(X + Lin(k=1), Lin({LEN: 1}), hyps)
        v3 = prove_le(X, Lin(k=0), hyps)
        if not (v1 == PROVEN and (v2 == PROVEN or v3 == PROVEN)):
            bad = (v1, v2, v3, items)
    if n_p == 0:
        raise AnalysisBroken("vi_wfix: no path")
    if bad:
        desc = ", ".join("%s=%s" % (key(wf.nodes[x[1]])[:30], x[2]) for x in bad[3] if x[0] == "br")
        ctx.violation("vi_wfix", "current line clamped into the buffer",
                      "a path leaves xrow outside [0, max(0, $)] (%s %s %s): %s" % (
                          bad[0], bad[1], bad[2], desc))
    else:
        ctx.ok("vi_wfix", "xrow in [0, max(0, len-1)] on %d paths" % n_p)
    xs = [n for n, lv, op, rhs in stores(wf.body)
          if lv_var(lv) and lv_var(lv)[0] == "xoff" and rhs is not None and
          is_call(strip_casts(rhs), "ren_noeol")]
    rowst = [n for n, lv, op, rhs in stores(wf.body) if lv_var(lv) and lv_var(lv)[0] == "xrow"]
    if xs and all(wf.cfg.dominates(r, xs[-1]) or not wf.cfg.search(wf.cfg.pos(xs[-1]), lambda e: e == r["id"])
                  for r in rowst) and not wf.cfg.search(
                      wf.cfg.pos(xs[-1]), lambda e: e != ("exit",) and e in [r["id"] for r in rowst]):
        a = strip_casts(xs[-1]["r"])["args"]
        if "xrow" in key(a[0]) and key(strip_casts(a[1])) == "xoff":
            ctx.ok("vi_wfix", "xoff = ren_noeol(current line, xoff) after the row clamp")
        else:
            ctx.violation("vi_wfix", "column clamp", "ren_noeol(%s, %s)" % (key(a[0]), key(a[1])))
    else:
        ctx.violation("vi_wfix", "column clamp", "xoff is not re-clamped by ren_noeol after the "
                      "row is fixed")


MUTATORS = ("lbuf_edit", "lbuf_undo", "lbuf_redo", "lbuf_rd", "ex_command", "lbuf_replace")


def rule_V2(ctx):
    ctx.begin("V2", floor=9, what="motion entry points")
    prog = ctx.prog
    entries = [prog.func("vi_motion"), prog.func("vi_motionln")]
    entries += [f for f in prog.funcs.values() if f.file == "mot.c"]
    for f in entries:
        r = prog.cg.reaches(f, MUTATORS, stop=set())
        if r:
            ctx.violation(f.name, "motions never change the text",
                          "reaches %s via %s" % (r[0], " -> ".join(r[1])), f.loc(f.body))
        else:
            ctx.ok(f.name, "reaches no buffer mutator")


def rule_V3(ctx):
    ctx.begin("V3", floor=15, what="change commands registered for '.'")
    prog = ctx.prog
    vi = prog.func("vi", file="vi.c")
    cfg = vi.cfg
    # the gate: memcpy(rep_cmd, ...) and the strchr() conditions before it
    cp = [c for c in vi.calls("memcpy") if key(strip_casts(c["args"][0])) == "rep_cmd"]
    if not cp:
        raise AnalysisBroken("vi(): copy into rep_cmd not found")
    cp = cp[0]
    gate1 = gate2 = None
    cvar = kvar = None
    gate_if = None
    for anc in vi.ancestors(cp["id"]):
        if anc["k"] != "if":
            continue
        # the membership tests of the condition, however it is bracketed: the set tested on the
        # command letter, and the one tested on the second key next to `letter == 'g'`
        sc = [x for x in walk(anc["c"]) if is_call(x, "strchr") and strip_casts(x["args"][0])["k"] == "str"]
        if not sc:
            continue
        for x in sc:
            mate = None
            for up in vi.ancestors(x["id"]):
                if up["id"] == anc["c"]["id"] or up["k"] != "bin" or up["op"] != "&&":
                    if up["k"] == "bin" and up["op"] == "&&":
                        pass
                    else:
                        break
                for cj in flatten_and(up):
                    if cj["k"] == "bin" and cj["op"] == "==" and cval(cj["r"]) is not None and cj is not x:
                        mate = cj
                if up["id"] == anc["c"]["id"]:
                    break
            if mate is not None and gate2 is None:
                gate2 = strip_casts(x["args"][0])["v"]
                kvar = key(strip_casts(x["args"][1]))
            elif gate1 is None or len(strip_casts(x["args"][0])["v"]) > len(gate1):
                gate1 = strip_casts(x["args"][0])["v"]
                cvar = key(strip_casts(x["args"][1]))
                gate_if = anc
        if gate1 is not None:
            break
    if gate1 is None:
        raise AnalysisBroken("vi(): repeat gate strchr(\"...\", c) not found")
    targets = ("lbuf_edit",)
    n_cases = 0
    seen = set()
    for c in vi.calls():
        if not c.get("fn"):
            continue
        p = cfg.pos(c)
        if p is None:
            continue
        path = call_reaches(prog, vi, c, targets, stop={"ex_command", "lbuf_undo", "lbuf_redo"})
        if not path:
            continue
        sw = [(cid, vals) for cid, vals in cfg.switch_facts_at(c["id"])
              if key(vi.nodes.get(cid)) == cvar]
        if not sw:
            continue
        for cid, vals in sw:
            for v in sorted(vals):
                ch = chr(v) if 0 < v < 256 else "?"
                if (ch, c["fn"]) in seen:
                    continue
                seen.add((ch, c["fn"]))
                n_cases += 1
                if ch == "g" and kvar:
                    # second key: the call is control-dependent on k == const
                    ks = set()
                    for fc, ft in cfg.facts_at(c["id"]):
                        pass
                    # all disjuncts of the guarding if
                    for anc in vi.ancestors(c["id"]):
                        if anc["k"] == "if":
                            for d in flatten_or(anc["c"]):
                                if d["k"] == "bin" and d["op"] == "==" and key(d["l"]) == kvar \
                                        and cval(d["r"]) is not None:
                                    ks.add(chr(cval(d["r"])))
                            break
                    missing = [x for x in sorted(ks) if x not in (gate2 or "")]
                    if not ks:
                        ctx.inconclusive("vi", "g-command repeat", "second key set not recognised", vi.loc(c))
                    elif missing:
                        ctx.violation("vi", "change command g%s registered for '.'" % "".join(missing),
                                      "g%s edits the buffer (via %s) but is not in the repeat "
                                      "list \"%s\"" % ("".join(missing), "->".join(path), gate2), vi.loc(c))
                    else:
                        ctx.ok("vi", "g{%s} in the repeat list" % "".join(sorted(ks)), loc=vi.loc(c))
                    continue
                if ch in gate1:
                    ctx.ok("vi", "case '%s' (%s) in the repeat list" % (ch, c["fn"]), loc=vi.loc(c))
                else:
                    ctx.violation("vi", "change command '%s' registered for '.'" % ch,
                                  "case '%s' edits the buffer (via %s) but is not in the repeat "
                                  "list \"%s\"" % (ch, "->".join(path), gate1), vi.loc(c))
    # the copy is bounded (B1 instance) and rep_len is the copied length
    st = [n for n, lv, op, rhs in stores(vi.body) if lv_var(lv) and lv_var(lv)[0] == "rep_len"]
    n_arg = key(strip_casts(cp["args"][2]))
    if st and all(key(strip_casts(n["r"])) == n_arg for n in st):
        ctx.ok("vi", "rep_len = copied length")
    else:
        ctx.violation("vi", "repeat length", "rep_len is not the copied length %s" % n_arg)


RULES = {"G1": rule_G1, "G2": rule_G2, "V1": rule_V1, "V2": rule_V2, "V3": rule_V3}
