"""B — bounded writes (DESIGN.md 3.4)."""
from ..bounds import (hyps_at, prove_index, nonneg_atoms, loop_exit_hyps, region_hyps,
                      loop_lower_hyps, LEN_ATOM)
from ..cfg import enum_paths, paths_to
from ..facts import AnalysisBroken, walk, key, cval
from ..lin import Lin, linearize, cmp_constraints, prove_le, PROVEN, REFUTED, CEX
from ..util import (stores, lv_field, lv_var, is_call, calls_in, refs, mentions,
                    strip_casts, negate_truth, flatten_and, flatten_or, enclosing, str_bytes)
from .w import _facts, result_test


def fixed_arrays(prog, f):
    """name -> (elements, element size) of every fixed array visible in f: locals, static
    locals, and file-scope arrays of f's unit."""
    out = {}
    for n in f.walk():
        if n["k"] == "var" and "arr_n" in n:
            out[n["name"]] = (n["arr_n"], n.get("arr_esz", 1))
    for name, gl in prog.globals.items():
        for g in gl:
            if "arr_n" in g and (g["unit"] == f.unit) and name not in out:
                if g["file"] == f.file or not g["static"]:
                    out[name] = (g["arr_n"], g.get("arr_esz", 1))
    return out


def local_array_by_did(f, ref):
    """(elements, element size) of the local array a reference resolves to (handles shadowed
    names), or None"""
    did = ref.get("did")
    if did is None:
        return None
    for n in f.walk():
        if n["k"] == "var" and n.get("did") == did and "arr_n" in n:
            return (n["arr_n"], n.get("arr_esz", 1))
    return None


def _array_of(e, arrays):
    """(array name, Lin offset in elements) when e is a pointer into / element of a fixed
    array: A[i], &A[i], A + i, A"""
    e = strip_casts(e)
    if e is None:
        return None
    if e["k"] == "ref" and e["name"] in arrays and e.get("cat") != "param":
        return e["name"], Lin()
    if e["k"] == "un" and e["op"] == "&" and e["e"]["k"] == "sub":
        b = _array_of(e["e"]["base"], arrays)
        i = linearize(e["e"]["idx"])
        if b and i is not None:
            return b[0], b[1] + i
    if e["k"] == "bin" and e["op"] in ("+", "-"):
        b = _array_of(e["l"], arrays)
        i = linearize(e["r"])
        if b and i is not None:
            return b[0], b[1] + (i if e["op"] == "+" else i.scale(-1))
    return None


def array_writes(prog, f):
    """Yield (node, array, index Lin (elements), length Lin (elements, 1 for a store),
    description) for writes into fixed arrays of f."""
    arrays = fixed_arrays(prog, f)
    if not arrays:
        return
    for n, lv, op, rhs in stores(f.body):
        if op == "init":
            continue
        if lv["k"] == "sub":
            b = strip_casts(lv["base"])
            if b["k"] == "ref" and b["name"] in arrays and b.get("cat") != "param":
                idx = strip_casts(lv["idx"])
                if cval(idx) is not None:
                    if cval(idx) >= arrays[b["name"]][0] or cval(idx) < 0:
                        yield n, b["name"], Lin(k=cval(idx)), Lin(k=1), "constant index"
                    continue
                # A[i++]: index used is the old value
                il = linearize(idx["e"] if idx["k"] == "un" and idx["op"] in ("post++", "post--") else idx)
                if idx["k"] == "un" and idx["op"] == "pre++":
                    il = linearize(idx["e"]) + Lin(k=1)
                if idx["k"] == "un" and idx["op"] == "pre--":
                    il = linearize(idx["e"]) - Lin(k=1)
                if il is None:
                    continue
                yield n, b["name"], il, Lin(k=1), "store %s[%s]" % (b["name"], key(idx))
    for c in f.calls(("memcpy", "memmove", "memset")):
        d = _array_of(c["args"][0], arrays)
        if not d:
            continue
        esz = arrays[d[0]][1]
        ln = linearize(strip_casts(c["args"][2]))
        if ln is None:
            continue
        from fractions import Fraction
        yield c, d[0], d[1], ln.scale(Fraction(1, esz)), "%s into %s" % (c["fn"], d[0])


# frozen instance table: sites whose bound is established by guards in the same function and
# must stay PROVEN.  (function, array) -> one line of reason
B1_INSTANCES = {
    ("term_read", "icmd"): "recording buffer: guard icmd_pos < sizeof(icmd)",
    ("term_push", "ibuf"): "push-back: n = MIN(n, sizeof(ibuf) - ibuf_cnt)",
    ("vi", "rep_cmd"): "repeat buffer: guard n + 1 < sizeof(rep_cmd)",
    ("vi_back", "vi_buf"): "vi push-back: guard vi_buflen < LEN(vi_buf)",
    ("ex_tagput", "tag_row"): "tag stack: guard tag_cnt < TAGCNT",
    ("ex_tagput", "tag_off"): "tag stack: guard tag_cnt < TAGCNT",
    ("led_line", "ai"): "auto-indent: caller passes ai_max = sizeof(ai) - 1",
    ("led_input", "ai"): "auto-indent: copy bounded by ai_max",
    ("re_recmatch", "mark"): "marks: loop bound LEN(mark)",
    ("ex_cmd", "cmd"): "command name: at most 16 letters + 1 into cmd[EXLEN]",
    ("syn_make", "pats"): "loop has its own bound LEN(pats)",
    ("syn_init", "pats"): "loop has its own bound LEN(pats)",
    ("vi_curword", "dst"): "current word copy",
    ("lbuf_make", "mark"): "mark table init: loop bound LEN(mark)",
}


# invariants between file-static scalars, proved inductively by I2 and assumed by B1 at sites that
# no store to one of the scalars precedes: file -> (read position, fill count, array)
QUEUE_INVS = {"term.c": ("ibuf_pos", "ibuf_cnt", "ibuf")}


def queue_invariant(prog, file):
    """[Lin >= 0 ...] for 0 <= pos <= cnt <= LEN(array), or None when the names are gone"""
    if file not in QUEUE_INVS:
        return None
    pos, cnt, arr = QUEUE_INVS[file]
    gl = {nm: [g for g in prog.globals.get(nm, []) if g["file"] == file] for nm in (pos, cnt, arr)}
    if not all(gl.values()) or "arr_n" not in gl[arr][0]:
        return None
    N = gl[arr][0]["arr_n"]
    P, C = Lin({pos: 1}), Lin({cnt: 1})
    return [P, C - P, Lin(k=N) - C]


def _queue_hyps_at(prog, f, n):
    """the invariant, when it still speaks about the values at node n (nothing stored before it)"""
    inv = queue_invariant(prog, f.file)
    if not inv:
        return []
    names = set(QUEUE_INVS[f.file][:2])
    st = [m["id"] for m, lv, op, rhs in stores(f.body) if lv["k"] == "ref" and lv["name"] in names]
    if st:
        # a store that can run before the node invalidates it
        for sid in st:
            pa, pb = f.cfg.pos(sid), f.cfg.pos(n)
            if pa is None or pb is None:
                return []
            if pa[0] == pb[0] and pa[1] < pb[1]:
                return []
            if pa[0] != pb[0] and f.cfg.search(pa, lambda e: e == n["id"]) is not None:
                return []
    return inv


def rule_I2(ctx):
    """The input queue keeps 0 <= read position <= fill count <= size: it holds for the zeroed
    statics and every function of the file that stores one of the two re-establishes it at each
    exit, assuming it on entry (over the function's paths, with substitution)."""
    ctx.begin("I2", floor=2, what="input queue invariant re-established at returns")
    from ..bounds import path_states
    prog = ctx.prog
    for file, (pos, cnt, arr) in sorted(QUEUE_INVS.items()):
        inv = queue_invariant(prog, file)
        if inv is None:
            raise AnalysisBroken("%s: %s / %s / %s not found" % (file, pos, cnt, arr))
        names = ("pos >= 0", "pos <= cnt", "cnt <= size")
        nw = 0
        for f in prog.funcs.values():
            if f.file != file:
                continue
            if not any(lv["k"] == "ref" and lv["name"] in (pos, cnt) for m, lv, op, rhs in stores(f.body)):
                continue
            nw += 1
            # read(2) returns at most the count it was asked for
            libc = []
            for c in f.calls("read"):
                k_ = linearize(c["args"][2])
                if k_ is not None:
                    libc.append(k_ - Lin({key(c): 1}))
            try:
                sts = path_states(f, "exit", init_hyps=list(inv) + libc)
            except OverflowError:
                ctx.inconclusive(f.name, "input queue invariant", "too many paths")
                continue
            bad = None
            for subst, hyps, items in sts:
                P = subst.get(pos, Lin({pos: 1}))
                C = subst.get(cnt, Lin({cnt: 1}))
                N = inv[2] + Lin({cnt: 1})
                goals = [(names[0], Lin(k=0), P), (names[1], P, C), (names[2], C, N)]
                for gn, a, b in goals:
                    if a is None or b is None or prove_le(a, b, hyps) != PROVEN:
                        bad = bad or (gn, items)
            if bad:
                ctx.violation(f.name, "input queue invariant",
                              "a path through %s does not re-establish `%s` of (%s, %s, %s[])" % (
                                  f.name, bad[0], pos, cnt, arr), f.loc(f.body))
            else:
                ctx.ok(f.name, "0 <= %s <= %s <= LEN(%s) at every exit (%d paths)" % (pos, cnt, arr, len(sts)))
        if nw == 0:
            raise AnalysisBroken("%s: nobody stores %s / %s" % (file, pos, cnt))


def rule_Q3(ctx):
    """Keys that are pushed back cannot keep the editor from ever reading real input again: the
    fill count of the fixed input queue is only raised by functions that do not read the
    terminal, so at most its size can be pushed between two real reads (a register that
    executes itself, `x@a` in a, runs out of room and the editor goes on to read the `:q`)."""
    ctx.begin("Q3", floor=1, what="pushed input is bounded between two reads of the terminal")
    from ..bounds import path_states
    prog = ctx.prog
    for file, (pos, cnt, arr) in sorted(QUEUE_INVS.items()):
        inv = queue_invariant(prog, file)
        if inv is None:
            raise AnalysisBroken("%s: %s / %s / %s not found" % (file, pos, cnt, arr))
        nw = 0
        for f in prog.funcs.values():
            if f.file != file or any(True for _ in f.calls("read")):
                continue
            if not any(lv["k"] == "ref" and lv["name"] == cnt for m, lv, op, rhs in stores(f.body)):
                continue
            nw += 1
            try:
                sts = path_states(f, "exit", init_hyps=list(inv))
            except OverflowError:
                ctx.inconclusive(f.name, "fill count only grows", "too many paths")
                continue
            bad = False
            for subst, hyps, items in sts:
                C = subst.get(cnt, Lin({cnt: 1}))
                if C is None or prove_le(Lin({cnt: 1}), C, hyps) != PROVEN:
                    bad = True
            if bad:
                ctx.violation(f.name, "fill count only grows",
                              "a path through %s lowers %s without reading the terminal: the room that bounds "
                              "pushed-back input is handed out again, so a register that executes itself is queued "
                              "for ever and the quit command is never read" % (f.name, cnt), f.loc(f.body))
            else:
                ctx.ok(f.name, "%s is not lowered on any of %d paths" % (cnt, len(sts)))
        if nw == 0:
            raise AnalysisBroken("%s: no function other than the reader stores %s" % (file, cnt))


def _b1_path_prove(prog, f, n, arr, N, esz):
    """index + length <= N over every path to the write, the file's queue invariant assumed at
    entry (so that stores to the queue indices before the write are followed): PROVEN or None"""
    from ..bounds import path_states, struct_invariants
    inv = (queue_invariant(prog, f.file) or []) + struct_invariants(f)
    try:
        sts = path_states(f, n["id"], init_hyps=list(inv), max_paths=2000)
    except OverflowError:
        return None
    if not sts:
        return None
    for subst, hyps, items in sts:
        lin_ = subst["__linfn__"]
        if n["k"] == "call":
            d = lin_(strip_casts(n["args"][0]))
            ln = lin_(strip_casts(n["args"][2]))
            if d is None or ln is None or d.c.get(arr) != 1:
                return None
            off = d - Lin({arr: 1})
            if prove_le(off.scale(esz) + ln, Lin(k=N * esz), hyps) != PROVEN:
                return None
        else:
            lv = n.get("l") if n["k"] == "bin" else None
            if lv is None or lv["k"] != "sub":
                return None
            idx = strip_casts(lv["idx"])
            if idx["k"] == "un" and idx["op"] in ("post++", "post--", "pre++", "pre--"):
                return None
            il = lin_(idx)
            if il is None or prove_le(il + Lin(k=1), Lin(k=N), hyps) != PROVEN:
                return None
    return PROVEN


def rule_B1(ctx):
    ctx.begin("B1", floor=8, what="guarded writes into fixed arrays")
    prog = ctx.prog
    found = set()
    others = 0
    for f in prog.funcs.values():
        arrays = fixed_arrays(prog, f)
        if not arrays:
            continue
        for n, arr, idx, ln, desc in array_writes(prog, f):
            N = arrays[arr][0]
            inst = (f.name, arr)
            v, hyps = prove_index(f, n, idx + ln, Lin(k=N), _queue_hyps_at(prog, f, n))
            if v != PROVEN and inst in B1_INSTANCES and f.file in QUEUE_INVS and \
                    _b1_path_prove(prog, f, n, arr, N, arrays[arr][1]) == PROVEN:
                v = PROVEN
            if inst in B1_INSTANCES:
                found.add(inst)
                if v == PROVEN:
                    ctx.ok(f.name, "%s: index + length <= %d (%s)" % (desc, N, B1_INSTANCES[inst]), loc=f.loc(n))
                else:
                    ctx.violation(f.name, "write into %s[%d] bounded by its guard" % (arr, N),
                                  "%s: the dominating guards do not imply index %r + %r <= %d "
                                  "elements (%s)%s" % (desc, idx, ln, N, v, _unit_hint(f, n, arr, prog)),
                                  f.loc(n))
            else:
                others += 1
                if v == REFUTED:
                    ctx.violation(f.name, "write into %s[%d]" % (arr, N),
                                  "%s is out of bounds for every value (%r + %r > %d)" % (desc, idx, ln, N),
                                  f.loc(n))
                elif v != PROVEN:
                    ctx.note("%s %s: not decided here (%s)" % (f.name, desc, v))
    missing = set(B1_INSTANCES) - found
    # instances may legitimately disappear (array removed); absent function is a broken anchor
    for fn, arr in sorted(missing):
        if not prog.has_func(fn):
            ctx.broken("anchor function %s not found" % fn)
        else:
            ctx.note("instance %s/%s no longer writes a fixed array by a variable index" % (fn, arr))


def _unit_hint(f, n, arr, prog):
    arrays = fixed_arrays(prog, f)
    N, esz = arrays[arr]
    for c, t in _facts(f, n):
        for x in walk(c):
            if cval(x) == N * esz and esz > 1:
                return "; the guard compares with %d, the byte size of %s, not its %d elements" % (N * esz, arr, N)
    return ""


# ----------------------------------------------------------------------------------------
# B4: sbuf capacity


def _lower_bounds_of_newsz(e):
    """Lins that the expression is >= to (ALIGN(MAX(a, b), k) >= a, >= b; constant)."""
    e = strip_casts(e)
    v = cval(e)
    if v is not None:
        return [Lin(k=v)], v
    # ALIGN(x, a): ((x) + a - 1) & ~(a - 1)
    if e["k"] == "bin" and e["op"] == "&":
        l = strip_casts(e["l"])
        if l["k"] == "bin" and l["op"] == "-" :
            l2 = strip_casts(l["l"])
            if l2["k"] == "bin" and l2["op"] == "+":
                x = strip_casts(l2["l"])
                a = cval(l2["r"])
                outs = []
                if x["k"] == "cond":
                    for arm in (x["t"], x["f"]):
                        la = linearize(arm)
                        if la is not None:
                            outs.append(la)
                else:
                    la = linearize(x)
                    if la is not None:
                        outs.append(la)
                return outs, a
    return [], None


def _last_events(f):
    """the final event of every path into the exit block"""
    lasts = []
    stack = [b_ for b_ in f.cfg.blocks.values() if f.cfg.exit in b_.succ]
    seen_b = set()
    while stack:
        b_ = stack.pop()
        if b_.id in seen_b:
            continue
        seen_b.add(b_.id)
        if b_.ev:
            lasts.append(b_.ev[-1])
        else:
            stack += [f.cfg.blocks[q] for q in b_.pred]
    return lasts


def _sbuf_append(ctx, prog, fname):
    """sbuf_chr / sbuf_mem: on every path the bytes go to s + s_n, s_n + written + 1 <= s_sz
    holds at the write (after a growth: <= the requested size), an unallocated buffer never
    reaches the write without growing, and s_n ends up advanced by the written length.
    Decided over the function's paths with substitution, so the spelling of the guard, of the
    index and of the advance is free."""
    from ..bounds import path_states
    from ..lin import feasible
    from ..util import resolve_local
    f = prog.func(fname, file="sbuf.c")
    pn = f.params[0]["name"]
    K_SN, K_SZ = "%s->s_n" % pn, "%s->s_sz" % pn
    sn0, sz0 = Lin({K_SN: 1}), Lin({K_SZ: 1})
    exts = list(f.calls("sbuf_extend"))
    if not exts:
        via = [c for c in f.calls() if c.get("fn") and prog.resolve(f, c["fn"]) is not None and
               prog.resolve(f, c["fn"]).file == f.file and
               prog.cg.reaches(prog.resolve(f, c["fn"]), ["sbuf_extend", "malloc"], stop=set())]
        if via:
            ctx.inconclusive(fname, "capacity check",
                             "the buffer is grown through %s(), whose new size is not summarised" % via[0]["fn"],
                             f.loc(via[0]))
        else:
            ctx.violation(fname, "capacity check", "no call of sbuf_extend")
        return
    if len(exts) > 1:
        ctx.inconclusive(fname, "capacity check", "more than one sbuf_extend call")
        return
    ext = exts[0]

    def is_s(e):
        e = strip_casts(e)
        return e is not None and e["k"] == "member" and e["field"] == "s" and key(e["base"]) == pn

    # the write: (event to stand at, index expression, written length expression or None = 1)
    writes = []
    if fname == "sbuf_chr":
        for n, lv, op, rhs in stores(f.body):
            if op != "=":
                continue
            idx = None
            if lv["k"] == "sub" and is_s(lv["base"]):
                idx = strip_casts(lv["idx"])
            elif lv["k"] == "un" and lv["op"] == "*":
                e_ = strip_casts(lv["e"])
                if e_["k"] == "bin" and e_["op"] == "+" and is_s(e_["l"]):
                    idx = strip_casts(e_["r"])
            if idx is None:
                continue
            if idx["k"] == "un" and idx["op"] == "post++":
                writes.append((idx["id"], idx["e"], None, n))
            elif not _impure_expr(idx):
                writes.append((n["id"], idx, None, n))
    else:
        for c in f.calls(("memcpy", "memmove")):
            d = strip_casts(resolve_local(f, c["args"][0]))
            idx = None
            if d["k"] == "bin" and d["op"] == "+" and is_s(d["l"]):
                idx = strip_casts(d["r"])
            elif d["k"] == "un" and d["op"] == "&" and strip_casts(d["e"])["k"] == "sub" \
                    and is_s(strip_casts(d["e"])["base"]):
                idx = strip_casts(strip_casts(d["e"])["idx"])
            if idx is not None and not _impure_expr(idx):
                writes.append((c["id"], idx, c["args"][2], c))
    if len(writes) != 1:
        ctx.inconclusive(fname, "write position", "the store of the text into s[...] was not recognised "
                         "(%d candidates)" % len(writes))
        return
    tgt, idx_e, len_e, wnode = writes[0]
    # what sbuf_extend is asked for, judged in the state at the call
    lows_e, align = _lower_bounds_exprs(ext["args"][1])
    if not lows_e:
        ctx.inconclusive(fname, "growth size", "unrecognised size expression %s" % key(ext["args"][1]), f.loc(ext))
        return
    at_ext = {}
    for subst, hyps, items in path_states(f, ext["id"]):
        lows = [linearize(l, subst) for l in lows_e]
        if any(l is None for l in lows):
            ctx.inconclusive(fname, "growth size", "size expression not linear", f.loc(ext))
            return
        at_ext[tuple(x for x in items if x[0] != "blk")] = lows
    n_paths = 0
    bad = []
    S = Lin({"?newsz": 1})
    for subst, hyps, items in path_states(f, tgt):
        if "__havoc__" in subst:
            ctx.inconclusive(fname, "capacity check", "loop on the way to the write")
            return
        n_paths += 1
        idx = linearize(idx_e, subst)
        W = Lin(k=1) if len_e is None else linearize(strip_casts(len_e), subst)
        sn = subst.get(K_SN) or sn0
        if idx is None or W is None:
            ctx.inconclusive(fname, "write position", "index or length not linear", f.loc(wnode))
            return
        grown = any(x[0] == "ev" and x[1] == ext["id"] for x in items)
        base = [W, sn0]                               # written length >= 0, s_n >= 0
        if prove_le(idx, sn, base + hyps) != PROVEN or prove_le(sn, idx, base + hyps) != PROVEN:
            bad.append(("write position", "the text is stored at s[%r], not at s[s_n]" % idx))
            continue
        for cname, hy in (("allocated", base + [sz0 - sn0 - Lin(k=1)]),
                          ("fresh", base + [sn0, sn0.scale(-1), sz0, sz0.scale(-1)])):
            if not feasible(hy + hyps):
                continue
            if not grown:
                if cname == "fresh":
                    bad.append(("unallocated buffer is extended first",
                                "with s == NULL (s_n = s_sz = 0) the write can be reached without "
                                "sbuf_extend: it goes through a null pointer"))
                elif prove_le(idx + W + Lin(k=1), sz0, hy + hyps) != PROVEN:
                    bad.append(("guard leaves room for text and terminator",
                                "when sbuf_extend is skipped, s_n + %r + 1 <= s_sz does not follow: "
                                "sbuf_buf() would write the terminator past the allocation" % W))
            else:
                # the state at the call is this path's prefix
                pre = []
                for x in items:
                    if x[0] == "blk":
                        continue
                    if x[0] == "ev" and x[1] == ext["id"]:
                        break
                    pre.append(x)
                lows = at_ext.get(tuple(pre))
                if lows is None:
                    ctx.inconclusive(fname, "growth size", "state at the sbuf_extend call not found")
                    return
                hy2 = hy + hyps + [S - l for l in lows]
                if align and any(prove_le(Lin(k=1), l, hy + hyps) == PROVEN for l in lows):
                    hy2.append(S - Lin(k=align))          # ALIGN(x, a) >= a for x >= 1
                if prove_le(idx + W + Lin(k=1), S, hy2) != PROVEN:
                    bad.append(("growth leaves room for text and terminator",
                                "(%s buffer) after extending to %s, s_n + %r + 1 <= new size does "
                                "not follow" % (cname, key(ext["args"][1])[:60], W)))
    if n_paths == 0:
        ctx.inconclusive(fname, "capacity check", "no path to the write")
        return
    seen = set()
    for c_, d_ in bad:
        if (c_, d_) not in seen:
            seen.add((c_, d_))
            ctx.violation(fname, c_, d_, f.loc(wnode))
    if not bad:
        ctx.ok(fname, "s_n + written + 1 <= s_sz at the write on all %d paths (allocated and fresh "
               "buffers, with and without growth), written at s + s_n" % n_paths, loc=f.loc(wnode))
    # s_n advanced by exactly the written length on every path to the exit
    n_e = 0
    worst = None
    for last in _last_events(f):
        for subst, hyps, items in path_states(f, last, inclusive=True):
            n_e += 1
            W = Lin(k=1) if len_e is None else Lin({f.params[2]["name"]: 1})
            end = subst.get(K_SN) or sn0
            if prove_le(end, sn0 + W, hyps) != PROVEN or prove_le(sn0 + W, end, hyps) != PROVEN:
                worst = end
    if n_e == 0:
        ctx.inconclusive(fname, "advance", "no path to the end")
    elif worst is not None:
        ctx.violation(fname, "advance of s_n", "s_n ends as %r, not s_n + written length" % worst)
    else:
        ctx.ok(fname, "s_n advanced by the written length on all %d paths" % n_e)


def _impure_expr(e):
    from ..lin import _impure
    return _impure(e)


def _lower_bounds_exprs(e):
    """expression nodes the size expression is >= to (ALIGN(MAX(a, b), k) >= a, >= b)."""
    e = strip_casts(e)
    if cval(e) is not None:
        return [e], cval(e)
    if e["k"] == "bin" and e["op"] == "&":
        l = strip_casts(e["l"])
        if l["k"] == "bin" and l["op"] == "-":
            l2 = strip_casts(l["l"])
            if l2["k"] == "bin" and l2["op"] == "+":
                x = strip_casts(l2["l"])
                a = cval(l2["r"])
                if x["k"] == "cond":
                    return [x["t"], x["f"]], a
                return [x], a
    return [], None



def rule_B4(ctx):
    ctx.begin("B4", floor=4, what="string-buffer mutators keep one spare byte")
    prog = ctx.prog
    rec = prog.record("sbuf")
    # who may write the three fields
    from .su import field_stores
    for f, n, field, elem, op, rhs in field_stores(prog, "sbuf"):
        if f.file != "sbuf.c":
            ctx.violation(f.name, "sbuf fields private to sbuf.c", "%s writes sbuf.%s" % (f.name, field), f.loc(n))
    for fname in ("sbuf_chr", "sbuf_mem"):
        _sbuf_append(ctx, prog, fname)
    # sbuf_buf: terminator only after allocation
    f = prog.func("sbuf_buf", file="sbuf.c")
    ext = list(f.calls("sbuf_extend"))
    term = [n for n, lv, op, rhs in stores(f.body) if lv["k"] == "sub" and "s_n" in key(lv["idx"]) and cval(rhs) == 0]
    if ext and term and cval(ext[0]["args"][1]) is not None and cval(ext[0]["args"][1]) >= 1:
        facts = _facts(f, ext[0])
        from ..util import nullness

        def s_null(c, t):
            nn = nullness(c, t)
            return nn is not None and nn[0]["k"] == "member" and nn[0]["field"] == "s" and nn[1]
        if any(s_null(c, t) for c, t in facts):
            ctx.ok("sbuf_buf", "unallocated buffer gets >= 1 byte before the terminator is stored")
        else:
            ctx.violation("sbuf_buf", "terminator store", "extension is not tied to s == NULL")
    else:
        ctx.violation("sbuf_buf", "terminator store", "sbuf_buf does not allocate before storing the terminator")
    f = prog.func("sbuf_cut", file="sbuf.c")
    from ..bounds import path_states
    pn = f.params[0]["name"]
    k_sn = "%s->s_n" % pn
    lasts = []
    stack = [b_ for b_ in f.cfg.blocks.values() if f.cfg.exit in b_.succ]
    seen_b = set()
    while stack:
        b_ = stack.pop()
        if b_.id in seen_b:
            continue
        seen_b.add(b_.id)
        if b_.ev:
            lasts.append(f.nodes.get(b_.ev[-1]))
        else:
            stack += [f.cfg.blocks[q] for q in b_.pred]
    bad = None
    n_p = 0
    for last in [x for x in lasts if x is not None]:
        for subst, hyps, items in path_states(f, last["id"]):
            n_p += 1
            post = dict(subst)
            # the last event may itself be the store
            if last["k"] == "bin" and last["op"] == "=" and key(last["l"]) == k_sn:
                from ..lin import _COND_RES
                byid = {f.nodes[x[1]]["id"]: x[2] for x in items if x[0] == "br"}
                _COND_RES[0] = byid
                try:
                    r_ = linearize(strip_casts(last["r"]), subst)
                finally:
                    _COND_RES[0] = None
                if r_ is not None:
                    post[k_sn] = r_
                else:
                    post[k_sn] = Lin({"?": 1})
            new_ = post.get(k_sn) or Lin({k_sn: 1})
            if prove_le(new_, Lin({k_sn: 1}), hyps) != PROVEN:
                bad = items
    if n_p == 0:
        ctx.inconclusive("sbuf_cut", "cut only shortens", "no path to the end of sbuf_cut")
    elif bad:
        ctx.violation("sbuf_cut", "cut only shortens", "s_n can be raised by sbuf_cut")
    else:
        ctx.ok("sbuf_cut", "s_n is only lowered (%d paths)" % n_p)
    # sbuf_extend: allocates exactly the recorded size and copies s_n bytes
    f = prog.func("sbuf_extend", file="sbuf.c")
    mal = list(f.calls("malloc"))
    newsz = f.params[1]["name"]
    sz_stores = [key(strip_casts(rhs)) for n, lv, op, rhs in stores(f.body)
                 if lv_field(lv) and lv_field(lv)[1] == "s_sz" and rhs is not None]
    if mal and sz_stores:
        ak = key(strip_casts(mal[0]["args"][0]))
        if all(k_ == newsz for k_ in sz_stores) and (ak == newsz or ak.endswith("->s_sz")):
            ctx.ok("sbuf_extend", "allocation size = recorded size = requested size")
        else:
            ctx.violation("sbuf_extend", "recorded size",
                          "s_sz is set to %s but malloc gets %s" % (sz_stores, ak), f.loc(mal[0]))
    else:
        ctx.inconclusive("sbuf_extend", "recorded size", "allocation / size store not recognised")


def linearize_ren(l, ren):
    return _ren(l, ren)


def _ren(l, ren):
    if isinstance(l, tuple):
        return (l[0], _ren(l[1], ren))
    out = Lin(k=l.k)
    for a, v in l.c.items():
        b = a
        for old, new in ren.items():
            if b == old or b.startswith(old + "->"):
                b = new + b[len(old):]
        out.c[b] = out.c.get(b, 0) + v
    return out


# ----------------------------------------------------------------------------------------
# B5: ex parse gate


def _position_tested(g, d, idxvars):
    """some comparison in the function mentions the output pointer or its index"""
    for n in g.walk():
        if n["k"] == "bin" and n["op"] in ("<", "<=", ">", ">=", "!=", "=="):
            for side in (n["l"], n["r"]):
                ss = strip_casts(side)
                if ss["k"] == "ref" and (ss["name"] == d or ss["name"] in idxvars):
                    return True
                if ss["k"] == "bin" and ss["op"] in ("-", "+") and any(
                        r_["name"] == d or r_["name"] in idxvars for r_ in refs(ss)):
                    return True
    return False


def copier_balance(g, dpos, spos):
    """Longest-path balance (advances of the output position minus advances of the source
    pointer) at every store through parameter dpos.  -> ("ok", n_stores) | ("bad", text, node)
    | ("unknown", text, node) | ("none",)"""
    d, s = g.params[dpos]["name"], g.params[spos]["name"]
    cfg = g.cfg
    # index variables of d[...] stores
    idxvars = set()
    store_pos = {}           # store node id -> 1 when its own lvalue holds the advance
    unknown = None
    for n, lv, op, rhs in stores(g.body):
        if op == "init":
            continue
        base = None
        own = 0
        if lv["k"] == "un" and lv["op"] == "*":
            t = strip_casts(lv["e"])
            if t["k"] == "ref":
                base = t["name"]
            elif t["k"] == "un" and t["op"] == "post++" and t["e"]["k"] == "ref":
                base, own = t["e"]["name"], 1
            elif any(r_["name"] == d for r_ in refs(t)):
                unknown = unknown or ("store `%s` through the destination not understood" % key(n)[:50], n)
                continue
        elif lv["k"] == "sub" and strip_casts(lv["base"])["k"] == "ref":
            base = strip_casts(lv["base"])["name"]
            if base == d:
                i = strip_casts(lv["idx"])
                if i["k"] == "ref" and i.get("cat") == "local":
                    idxvars.add(i["name"])
                elif i["k"] == "un" and i["op"] == "post++" and i["e"]["k"] == "ref":
                    idxvars.add(i["e"]["name"])
                    own = 1
                elif cval(i) == 0:
                    pass
                else:
                    unknown = unknown or ("store `%s` at a computed index" % key(n)[:50], n)
                    continue
        if base == d:
            store_pos[n["id"]] = own
    if not store_pos and not unknown:
        return ("none",)
    # the destination handed to another function, or aliased
    for c in g.calls():
        if any(r_["name"] == d for a in c["args"] for r_ in refs(a)):
            unknown = unknown or ("destination passed to %s" % (c.get("fn") or "a callee"), c)
    for n, lv, op, rhs in stores(g.body):
        if rhs is not None and lv["k"] in ("ref", "var") and lv.get("name") != d:
            r = strip_casts(rhs)
            if r["k"] == "ref" and r["name"] in (d,) and any(
                    lv2["k"] == "ref" and lv2["name"] == lv["name"] and op2 != "init" and n2["id"] != n["id"]
                    for n2, lv2, op2, r2 in stores(g.body)):
                unknown = unknown or ("%s is a moving alias of the destination" % lv["name"], n)
    weight = {}
    for n, lv, op, rhs in stores(g.body):
        if lv["k"] != "ref":
            continue
        nm = lv["name"]
        if nm not in idxvars and nm not in (d, s):
            continue
        sign = 1 if nm != s else -1
        if op in ("post++", "pre++"):
            weight[n["id"]] = sign
        elif op in ("post--", "pre--"):
            weight[n["id"]] = -sign
        elif op in ("+=", "-=") and cval(rhs) is not None:
            weight[n["id"]] = sign * cval(rhs) * (1 if op == "+=" else -1)
        elif op == "=" and nm in idxvars and cval(rhs) == 0 and cfg.pos(n) and \
                all(cfg.dominates(n, g.nodes[sid]) for sid in store_pos):
            weight[n["id"]] = 0
        else:
            unknown = unknown or ("`%s` moves a position in a way that is not a step" % key(n)[:50], n)
    for v_ in g.walk():
        if v_["k"] == "var" and v_["name"] in idxvars and "init" in v_ and cval(v_["init"]) != 0:
            unknown = unknown or ("index %s does not start at 0" % v_["name"], v_)
    NEG = -10 ** 9
    blocks = cfg.blocks
    bw = {b: sum(weight.get(e, 0) for e in blocks[b].ev) for b in blocks}
    din = {b: NEG for b in blocks}
    din[cfg.entry] = 0
    changed = True
    rounds = 0
    while changed and rounds <= len(blocks) + 2:
        changed = False
        rounds += 1
        for b in blocks:
            if din[b] == NEG:
                continue
            out_ = din[b] + bw[b]
            for q in blocks[b].succ:
                if q is not None and q in din and out_ > din[q]:
                    din[q] = out_
                    changed = True
    if changed:
        # a loop with a positive net
        for h, body in cfg.loops().items():
            for b in body:
                for e in blocks[b].ev:
                    if e in store_pos:
                        if unknown:
                            return ("unknown", unknown[0], unknown[1])
                        if _position_tested(g, d, idxvars):
                            return ("unknown", "a loop writes more than it reads, but the output position "
                                    "is also compared with a limit: not decided", g.nodes[e])
                        return ("bad", "a loop advances the output position more often than it consumes "
                                "source bytes: the output is not bounded by the input length", g.nodes[e])
        return ("unknown", "a loop with a positive net position change", None)
    worst = None
    for b in blocks:
        if din[b] == NEG:
            continue
        bal = din[b]
        for e in blocks[b].ev:
            bal += weight.get(e, 0)
            if e in store_pos and bal - store_pos[e] > 0:
                worst = (bal - store_pos[e], g.nodes[e])
    if unknown:
        return ("unknown", unknown[0], unknown[1])
    if worst and _position_tested(g, d, idxvars):
        return ("unknown", "the output can run ahead of the input, but the output position is also "
                "compared with a limit: not decided", worst[1])
    if worst:
        return ("bad", "on some path the store `%s` is %d byte(s) ahead of the source bytes consumed: "
                "the output can be longer than the input" % (key(worst[1])[:40], worst[0]), worst[1])
    return ("ok", len(store_pos))



def rule_B5(ctx):
    ctx.begin("B5", floor=5, what="ex command-line gate and its copiers")
    prog = ctx.prog
    f = prog.func("ex_exec", file="ex.c")
    cfg = f.cfg
    # the gate: a branch on strlen(<the command>) against a constant; K = the smallest length
    # that takes the rejecting edge (the condition is evaluated, so its spelling is free)
    gate = None
    lnp = f.params[0]["name"]

    def cev(e, L):
        e = strip_casts(e)
        if is_call(e, "strlen"):
            return L
        if cval(e) is not None:
            return cval(e)
        if e["k"] == "paren":
            return cev(e["e"], L)
        if e["k"] == "un" and e["op"] == "!":
            v = cev(e["e"], L)
            return None if v is None else int(not v)
        if e["k"] == "bin" and e["op"] in ("<", "<=", ">", ">=", "==", "!=", "+", "-"):
            x, y = cev(e["l"], L), cev(e["r"], L)
            if x is None or y is None:
                return None
            return {"<": int(x < y), "<=": int(x <= y), ">": int(x > y), ">=": int(x >= y), "==": int(x == y),
                    "!=": int(x != y), "+": x + y, "-": x - y}[e["op"]]
        return None
    for b in cfg.blocks.values():
        br = cfg.branch(b.id)
        if not br:
            continue
        c = f.nodes.get(br[0])
        if c is None:
            continue
        sl = [x for x in calls_in(c, "strlen") if key(strip_casts(x["args"][0])) == lnp]
        if not sl or cev(c, 0) is None or cev(c, 1 << 20) is None or bool(cev(c, 0)) == bool(cev(c, 1 << 20)):
            continue
        big = bool(cev(c, 1 << 20))
        K = next((L for L in range(0, 70000) if bool(cev(c, L)) == big), None)
        if K is not None:
            gate = (b, c, K, 0 if big else 1)          # index of the rejecting successor
    if gate is None:
        ctx.violation("ex_exec", "command length gate", "no test strlen(ln) >= K before the parts are split")
        return
    b, c, K, rej = gate
    arrays = fixed_arrays(prog, f)
    copiers = ("ex_loc", "ex_cmd", "ex_arg")
    # copier calls in ex_exec itself, or in a helper it calls with its own part buffers
    sites = []
    for call in f.calls():
        fn = call.get("fn")
        if fn in copiers:
            sites.append((call, fn, strip_casts(call["args"][1]), arrays))
            continue
        h = prog.resolve(f, fn) if fn else None
        if h is None or h.file != f.file or h is f:
            continue
        hp = [q["name"] for q in h.params]
        for hc in h.calls(copiers):
            d_ = strip_casts(hc["args"][1])
            if d_["k"] == "ref" and d_["name"] in hp and hp.index(d_["name"]) < len(call["args"]):
                sites.append((call, hc["fn"], strip_casts(call["args"][hp.index(d_["name"])]), arrays))
            else:
                sites.append((call, hc["fn"], d_, fixed_arrays(prog, h)))      # the helper's own buffers
    if len(sites) < 3:
        raise AnalysisBroken("ex_exec: the calls that split the command were not found")
    for call, cn, dst, arrays in sites:
        if dst["k"] != "ref" or dst["name"] not in arrays:
            ctx.inconclusive("ex_exec", "part buffer", "destination %s" % key(dst), f.loc(call))
            continue
        N = arrays[dst["name"]][0]
        dom = cfg.edge_dominates(b.id, 1 - rej, cfg.pos(call)[0])
        if dom and K <= N:
            ctx.ok("ex_exec", "%s into %s[%d] behind strlen(ln) < %d" % (cn, dst["name"], N, K), loc=f.loc(call))
        elif not dom:
            ctx.violation("ex_exec", "length gate dominates the split",
                          "%s is reachable without the strlen test" % cn, f.loc(call))
        else:
            ctx.violation("ex_exec", "length gate fits the part buffers",
                          "commands of up to %d bytes are admitted but %s has %d" % (K - 1, dst["name"], N),
                          f.loc(call))
    # the gate's rejecting edge returns
    seen = cfg.reachable_blocks(b.succ[rej])
    if any(cfg.pos(cl)[0] in seen for cl, _cn, _d, _a in sites):
        ctx.violation("ex_exec", "length gate rejects", "the split is reachable after the gate fired", f.loc(c))
    # copiers write one byte per source byte consumed (plus the terminator): at every store
    # through the destination, (destination advances) - (source advances) <= 0 on the
    # longest path, and no loop has a positive net
    for cn, dpos in (("ex_loc", 1), ("ex_cmd", 1), ("ex_arg", 1), ("ex_plus", 1), ("cutword", 1)):
        g = prog.func(cn, file="ex.c")
        res = copier_balance(g, dpos, 0)
        if res[0] == "ok":
            ctx.ok(cn, "at each of its %d stores through %s the output position <= source bytes consumed "
                   "(longest path over the CFG, no loop with a positive net)" % (res[1], g.params[dpos]["name"]))
        elif res[0] == "bad":
            ctx.violation(cn, "copier writes one byte per byte read", res[1], g.loc(res[2]) if res[2] else "")
        elif res[0] == "none":
            ctx.broken("%s: no stores through the destination" % cn)
        else:
            ctx.inconclusive(cn, "copier writes one byte per byte read", res[1], g.loc(res[2]) if res[2] else "")
    # other destinations of the copiers are at least as large as their bounded source
    for cn in ("ex_plus", "cutword"):
        for h in prog.funcs.values():
            for call in h.calls(cn):
                dst = strip_casts(call["args"][1])
                arr = fixed_arrays(prog, h)
                if dst["k"] == "ref" and dst["name"] in arr and arr[dst["name"]][0] >= K:
                    ctx.ok(h.name, "%s destination %s[%d] >= %d" % (cn, dst["name"], arr[dst["name"]][0], K), loc=h.loc(call))
                else:
                    ctx.violation(h.name, "%s destination size" % cn,
                                  "destination %s is smaller than the %d-byte command limit" % (key(dst), K), h.loc(call))


# ----------------------------------------------------------------------------------------
# B6: matcher out-arrays


def rule_B6(ctx):
    ctx.begin("B6", floor=7, what="matcher out-array sizes")
    prog = ctx.prog
    for f in prog.funcs.values():
        arrays = fixed_arrays(prog, f)
        for c in f.calls(("rstr_find", "rset_find")):
            n, g = strip_casts(c["args"][2]), strip_casts(c["args"][3])
            nv = cval(n)
            if nv is None and n["k"] == "ref" and n.get("cat") == "local":
                # a local that holds the count (int nsubs = LEN(subs) / 2), never stored again
                from ..util import resolve_local
                d_ = resolve_local(f, n)
                if d_ is not None and cval(strip_casts(d_)) is not None and \
                        sum(1 for _n, lv_, _o, _r in stores(f.body) if lv_["k"] in ("ref", "var") and lv_.get("name") == n["name"]) == 1:
                    nv = cval(strip_casts(d_))
            from ..callgraph import is_null
            if is_null(g):
                if nv == 0:
                    ctx.ok(f.name, "%s(n = 0, grps = NULL)" % c["fn"], loc=f.loc(c))
                else:
                    ctx.violation(f.name, "matcher out-array", "NULL array with n = %s" % key(n), f.loc(c))
                continue
            if g["k"] == "ref" and g["cat"] == "param" and n["k"] == "ref" and n["cat"] == "param":
                ctx.ok(f.name, "%s passes its own (n, grps) through" % c["fn"], loc=f.loc(c))
                continue
            if g["k"] == "ref" and g["name"] in arrays and nv is not None:
                N = arrays[g["name"]][0]
                if 2 * nv <= N:
                    ctx.ok(f.name, "%s(n = %d) into %s[%d]" % (c["fn"], nv, g["name"], N), loc=f.loc(c))
                else:
                    ctx.violation(f.name, "matcher out-array",
                                  "%s is asked for %d groups (%d ints) but %s has %d" % (c["fn"], nv, 2 * nv, g["name"], N),
                                  f.loc(c))
                continue
            ctx.inconclusive(f.name, "matcher out-array", "n = %s grps = %s" % (key(n), key(g)), f.loc(c))
    # replace(): group index read from the replacement text stays inside the caller's array
    owners_ = []         # (function, array name as seen there, elements)
    if prog.has_func("replace", file="ex.c"):
        rp = prog.func("replace", file="ex.c")
        offs_n = None
        for f in prog.funcs.values():
            for c in f.calls("replace"):
                a = strip_casts(c["args"][3])
                arr = fixed_arrays(prog, f)
                if a["k"] == "ref" and a["name"] in arr:
                    offs_n = arr[a["name"]][0] if offs_n is None else min(offs_n, arr[a["name"]][0])
        if offs_n is None:
            raise AnalysisBroken("replace(): caller array not found")
        owners_.append((rp, rp.params[3]["name"], offs_n))
    else:
        # written out in the caller: the function that hands its array to the matcher and also
        # indexes it with a value read from the replacement text
        sub_ = prog.func("ec_substitute", file="ex.c")
        arr = fixed_arrays(prog, sub_)
        for c in sub_.calls(("rstr_find", "rset_find")):
            a = strip_casts(c["args"][3])
            if a["k"] == "ref" and a["name"] in arr:
                owners_.append((sub_, a["name"], arr[a["name"]][0]))
        if not owners_:
            raise AnalysisBroken("group references: neither replace() nor the matcher array of ec_substitute found")
    n_var = 0
    for rp, on, offs_n in owners_:
        for x in rp.walk():
            if x["k"] == "sub" and key(x["base"]) == on and cval(x["idx"]) is None:
                n_var += 1
                idx = linearize(x["idx"])
                v, hy = prove_index(rp, x, idx + Lin(k=1), Lin(k=offs_n))
                if v == PROVEN:
                    ctx.ok(rp.name, "offs[%s] < %d" % (key(x["idx"]), offs_n), loc=rp.loc(x))
                else:
                    ctx.violation(rp.name, "group reference index",
                                  "offs[%s] is not bounded by the digit test (%s)" % (key(x["idx"]), v), rp.loc(x))
    if not n_var:
        raise AnalysisBroken("group references: no subscript by a value from the replacement text found")
    # regexec receives as many slots as it is told
    rf = prog.func("rset_find", file="rset.c")
    for c in rf.calls("regexec"):
        nsub, arr = key(strip_casts(c["args"][2])), strip_casts(c["args"][3])
        okm = False
        for n, lv, op, rhs in stores(rf.body):
            if lv.get("name") == arr.get("name") and rhs is not None and is_call(strip_casts(rhs), "malloc"):
                l = linearize(strip_casts(rhs)["args"][0])
                rec = prog.records.get("regmatch_t") or {}
                if l is not None and nsub in l.c and l.c[nsub] >= 8:
                    okm = True
        if okm:
            ctx.ok("rset_find", "regexec(nsub = %s) into malloc(%s * sizeof)" % (nsub, nsub), loc=rf.loc(c))
        else:
            ctx.violation("rset_find", "regexec out-array", "subs is not allocated with %s elements" % nsub, rf.loc(c))


# ----------------------------------------------------------------------------------------
# B10 / P1: register text


DEREF_LIBC = {"strlen": [0], "strcpy": [0, 1], "strcat": [0, 1], "strcmp": [0, 1], "strchr": [0],
              "strrchr": [0], "strstr": [0, 1], "memcpy": [0, 1], "memmove": [0, 1], "strncmp": [0, 1],
              "atoi": [0], "puts": [0]}
# write(fd, NULL, n) is refused by the kernel (EFAULT): not a memory error of the process


def param_tolerates_null(prog, f, idx, depth=0):
    """True when every dereference of parameter idx of f is guarded by a null test."""
    k_ = (f.qname, idx)
    _tol_cache = prog.__dict__.setdefault("_tol_cache", {})     # per program: scratch copies differ
    if k_ in _tol_cache:
        return _tol_cache[k_]
    _tol_cache[k_] = True     # recursion guard
    p = f.params[idx]["name"]
    res = True
    for use in _deref_uses(prog, f, p, depth):
        if not _null_guarded(f, use, p):
            res = False
            break
    _tol_cache[k_] = res
    return res


def _deref_uses(prog, f, p, depth):
    """AST nodes where variable p is dereferenced or handed to something that does."""
    out = []
    # reassigned from a non-null default?  `if (p == NULL) p = "";` handled by guard analysis
    for n in f.walk():
        if n["k"] == "un" and n["op"] == "*" and key(strip_casts(n["e"])) == p:
            out.append(n)
        elif n["k"] == "un" and n["op"] == "*" and strip_casts(n["e"])["k"] == "un" and \
                key(strip_casts(n["e"])["e"]) == p:
            out.append(n)
        elif n["k"] == "sub" and key(strip_casts(n["base"])) == p:
            out.append(n)
        elif n["k"] == "bin" and n["op"] in ("+", "-") and key(strip_casts(n["l"])) == p and n.get("ptr"):
            par = f.nodes.get(f.parent.get(n["id"]))
            if par is not None and ((par["k"] == "un" and par["op"] == "*") or par["k"] == "sub"):
                out.append(n)
        elif n["k"] == "call":
            for i, a in enumerate(n["args"]):
                if key(strip_casts(a)) != p:
                    continue
                fn = n.get("fn")
                if fn in DEREF_LIBC:
                    if i in DEREF_LIBC[fn]:
                        out.append(n)
                    continue
                g = prog.resolve(f, fn) if fn else None
                if g is None:
                    continue        # free(), snprintf("%s") etc. -- not decided
                if i < len(g.params) and depth < 3 and not param_tolerates_null(prog, g, i, depth + 1):
                    out.append(n)
    return out


def _null_flags(f, p):
    """locals assigned once from a null test of p: name -> the truth value of the flag that
    means `p is not NULL` (int has = p != NULL;)"""
    from ..util import nullness
    cnt, pol = {}, {}
    for n, lv, op, rhs in stores(f.body):
        if lv["k"] in ("ref", "var") and lv.get("cat", "local") in ("local", None) or lv["k"] == "var":
            nm = lv.get("name")
            cnt[nm] = cnt.get(nm, 0) + 1
            if rhs is None:
                continue
            for tv in (True, False):
                nn = nullness(strip_casts(rhs), tv)
                if nn and key(strip_casts(nn[0])) == p and nn[1] is False and strip_casts(rhs)["k"] in ("bin", "un"):
                    pol[nm] = tv
    if any(lv["k"] == "ref" and lv["name"] == p for n, lv, op, rhs in stores(f.body)):
        return {}
    return {nm: tv for nm, tv in pol.items() if cnt.get(nm) == 1}


def _null_guarded(f, use, p):
    # dominating fact `p` true / `!p` false / p != NULL
    flags = _null_flags(f, p)
    for c, t in _facts(f, use):
        if key(c) == p and t:
            return True
        if c["k"] == "ref" and c["name"] in flags and bool(t) == flags[c["name"]]:
            return True
        if c["k"] == "bin" and c["op"] == "=" and key(c["l"]) == p and t:
            return True
        if c["k"] == "bin" and c["op"] in ("!=", "==") and key(strip_casts(c["l"])) == p:
            from ..callgraph import is_null
            if is_null(c["r"]) and (t == (c["op"] == "!=")):
                return True
    # inside `p ? ... : ...` / `p && ...` / `!p || ...`
    cur = use
    anc = f.nodes.get(f.parent.get(use["id"]))
    while anc is not None:
        if anc["k"] == "cond" and any(x["id"] == cur["id"] for x in walk(anc["t"])):
            cc, tt = negate_truth(anc["c"], True)
            if key(cc) == p and tt:
                return True
            for cj in flatten_and(anc["c"]):
                if key(cj) == p:
                    return True
        if anc["k"] == "cond" and any(x["id"] == cur["id"] for x in walk(anc["f"])):
            cc, tt = negate_truth(anc["c"], True)
            if key(cc) == p and not tt:
                return True
        if anc["k"] == "bin" and anc["op"] == "&&" and any(x["id"] == cur["id"] for x in walk(anc["r"])):
            for cj in flatten_and(anc["l"]):
                if key(cj) == p:
                    return True
        if anc["k"] == "bin" and anc["op"] == "||" and any(x["id"] == cur["id"] for x in walk(anc["r"])):
            for cj in flatten_or(anc["l"]):
                cc, tt = negate_truth(cj, True)
                if key(cc) == p and not tt:
                    return True
        # a default was substituted earlier: p = p ? p : "" / if (!p) p = ""
        cur = anc
        anc = f.nodes.get(f.parent.get(anc["id"]))
    # reassignment to a non-null default that dominates the use
    for n, lv, op, rhs in stores(f.body):
        if op == "=" and lv["k"] == "ref" and lv["name"] == p and rhs is not None and f.cfg.dominates(n, use):
            r = strip_casts(rhs)
            if r["k"] == "cond" and strip_casts(r["f"])["k"] == "str":
                return True
    # `if (p == NULL) p = "";` : a store of a literal on the null edge
    for n, lv, op, rhs in stores(f.body):
        if op == "=" and lv["k"] == "ref" and lv["name"] == p and rhs is not None and \
                strip_casts(rhs)["k"] == "str":
            for c, t in _facts(f, n):
                from ..callgraph import is_null
                if (key(c) == p and not t) or (c["k"] == "bin" and c["op"] == "==" and
                                               key(strip_casts(c["l"])) == p and is_null(c["r"]) and t):
                    if f.cfg.dominates(c, use):
                        return True
    return False


def _reaches_unguarded(f, c, var, use):
    """Does the value `var` got from call c reach the dereference `use` on some path without a
    null test of var on the way (and without var being assigned again)?"""
    from ..cfg import paths_to
    from ..util import nullness
    cfg = f.cfg
    pc = cfg.pos(c)
    if pc is None or cfg.pos(use) is None:
        return True
    try:
        paths = paths_to(cfg, pc[0], use["id"], max_paths=3000)
    except OverflowError:
        return True
    sts = {}
    for n, lv, op, rhs in stores(f.body):
        if lv["k"] in ("ref", "var") and lv.get("name") == var:
            sts[n["id"]] = rhs
    mine = None          # the store that keeps c's result
    for nid, rhs in sts.items():
        if rhs is not None and any(x["id"] == c["id"] for x in walk(rhs)):
            mine = nid
    for items in paths:
        started = False
        alive, guarded = True, False
        for it in items:
            if it[0] == "ev" and it[1] == c["id"]:
                started = True
                continue
            if not started:
                continue
            if it[0] == "ev" and it[1] in sts and it[1] != mine:
                alive = False
                break
            if it[0] == "ev" and it[1] == mine and guarded:
                guarded = False
            if it[0] == "br":
                cond = f.nodes[it[1]]
                parts = flatten_and(cond) if it[2] else flatten_or(cond)
                for part in parts:
                    nn = nullness(part, it[2])
                    if nn and key(strip_casts(nn[0])) == var and nn[1] is False:
                        guarded = True
        if started and alive and not guarded:
            return True
    return False


def _same_call_tested(f, c):
    """c repeats a call whose earlier, identical result was kept in a variable that is known to
    be non-NULL here (`v = get(x); if (v != NULL) v = get(x);`)"""
    from ..util import nullness
    k_ = key(c)
    for cond, t in _facts(f, c):
        for part in (flatten_and(cond) if t else flatten_or(cond)):
            nn = nullness(part, t)
            if not nn or nn[1] is not False:
                continue
            v = strip_casts(nn[0])
            if v["k"] != "ref":
                continue
            defs = [rhs for n, lv, op, rhs in stores(f.body)
                    if lv["k"] in ("ref", "var") and lv.get("name") == v["name"] and rhs is not None and
                    f.cfg.dominates(n, cond) and not any(x["id"] == c["id"] for x in walk(rhs))]
            if defs and all(key(strip_casts(d)) == k_ for d in defs):
                return True
    return False


def _nullable_sites(prog, producer, rule_ctx, what, named_exceptions=(), in_range=None):
    """Check every use of the result of `producer` (which may return NULL)."""
    n_sites = 0
    named_exceptions = dict(named_exceptions) if named_exceptions else {}
    for f in prog.funcs.values():
        for c in f.calls(producer):
            n_sites += 1
            if in_range is not None and in_range(prog, f, c, c["args"][1]):
                rule_ctx.ok(f.name, "%s(%s): index proved inside the buffer" % (producer, key(c["args"][1])),
                            loc=f.loc(c))
                continue
            par = f.nodes.get(f.parent.get(c["id"]))
            cur_ = c
            # through casts and the arms of `x ? producer(..) : other`
            self_guarded = False
            while par is not None and (par["k"] == "cast" or (
                    par["k"] == "cond" and not any(y["id"] == cur_["id"] for y in walk(par["c"])))):
                if par["k"] == "cond":
                    cc_, tt_ = negate_truth(par["c"], True)
                    in_t = any(y["id"] == cur_["id"] for y in walk(par["t"]))
                    if key(strip_casts(cc_)) == key(c) and (in_t == tt_):
                        self_guarded = True       # x ? x : default
                cur_ = par
                par = f.nodes.get(f.parent.get(par["id"]))
            if self_guarded:
                rule_ctx.ok(f.name, "%s result used only when it is not NULL (`x ? x : ..`)" % producer, loc=f.loc(c))
                continue
            var = None
            if par is not None and par["k"] == "var":
                var = par["name"]
            elif par is not None and par["k"] == "bin" and par["op"] == "=" and par["l"]["k"] == "ref":
                var = par["l"]["name"]
            if var is not None:
                bad = None
                for use in _deref_uses(prog, f, var, 0):
                    # only uses after this assignment
                    if not f.cfg.dominates(c, use) and f.cfg.search(f.cfg.pos(c), lambda e: e == use["id"]) is None:
                        continue
                    if not _null_guarded(f, use, var) and _reaches_unguarded(f, c, var, use) and \
                            not _same_call_tested(f, c):
                        bad = use
                        break
                if bad is None:
                    rule_ctx.ok(f.name, "%s result `%s`: every dereference is null-guarded" % (producer, var), loc=f.loc(c))
                elif (f.name, var) in named_exceptions:
                    rule_ctx.ok(f.name, "%s result `%s`: named exception (%s)" % (
                        producer, var, named_exceptions[(f.name, var)]), loc=f.loc(c))
                else:
                    rule_ctx.violation(f.name, what,
                                       "`%s` (from %s, may be NULL) is dereferenced by `%s` without a null test" % (
                                           var, producer, key(bad)[:60]), f.loc(bad))
                continue
            # used directly
            if par is not None and par["k"] == "call":
                i = [j for j, a in enumerate(par["args"]) if any(x["id"] == c["id"] for x in walk(a))]
                fn = par.get("fn")
                g = prog.resolve(f, fn) if fn else None
                if fn in DEREF_LIBC and i and i[0] in DEREF_LIBC[fn]:
                    tol = False
                elif g is not None and i:
                    tol = param_tolerates_null(prog, g, i[0])
                else:
                    tol = True
                if tol or _null_guarded_expr(f, par, c):
                    rule_ctx.ok(f.name, "%s result passed to %s, which tolerates NULL or is guarded" % (producer, fn), loc=f.loc(c))
                else:
                    rule_ctx.violation(f.name, what,
                                       "the result of %s (NULL for an unset value) is passed to %s, which "
                                       "dereferences it unconditionally" % (key(c)[:40], fn), f.loc(c))
                continue
            # tested only / returned / in ?: etc.
            rule_ctx.ok(f.name, "%s result tested or forwarded" % producer, loc=f.loc(c))
    return n_sites


def _null_guarded_expr(f, user, call):
    """`if (reg_get(x)) use(reg_get(x))`: the same pure call tested by a dominating fact"""
    k_ = key(call)
    for c, t in _facts(f, user):
        if key(c) == k_ and t:
            return True
        for cj in flatten_and(c) if t else []:
            if key(cj) == k_:
                return True
    return False


def rule_B10(ctx):
    ctx.begin("B10", floor=10, what="uses of reg_get results")
    n = _nullable_sites(ctx.prog, "reg_get", ctx, "unset register is not dereferenced")
    if n < 10:
        ctx.broken("only %d reg_get call sites" % n)


def rule_B14(ctx):
    ctx.begin("B14", floor=5, what="uses of ex_pathexpand results")
    n = _nullable_sites(ctx.prog, "ex_pathexpand", ctx, "unexpandable path is not dereferenced")
    if n < 5:
        ctx.broken("only %d ex_pathexpand call sites" % n)


def _index_in_buffer(prog, f, call, idx_expr):
    """0 <= idx < lbuf_len(<same buffer>) from guards, a validated ex region or loop bounds"""
    il = linearize(strip_casts(idx_expr))
    if il is None:
        return False
    lb = key(strip_casts(call["args"][0]))
    L = Lin({"lbuf_len(%s)" % lb: 1})
    from ..bounds import caller_region_hyps
    extra = region_hyps(f, call) + loop_lower_hyps(f, call) + caller_region_hyps(prog, f)
    from ..bounds import nonneg_var
    for a in il.c:
        if a.isidentifier() and nonneg_var(f, a, lambda ff, nn: region_hyps(ff, nn)):
            extra.append(Lin({a: 1}))
    v1, _ = prove_index(f, call, Lin(k=0), il, extra)
    v2, _ = prove_index(f, call, il + Lin(k=1), L, extra)
    return v1 == PROVEN and v2 == PROVEN


B9_EXCEPTIONS = {
    ("vi_nextcol", "ln"): "o = ln ? ren_next(..) : -1 and `o < 0` returns before ln is used",
    ("vc_definition", "ln"): "row was just returned by a successful lbuf_search",
    ("vc_join", "ln"): "rows beg..end-1 lie between two rows tested non-NULL before the loop",
}


def rule_B9(ctx):
    ctx.begin("B9", floor=30, what="uses of lbuf_get results")
    n = _nullable_sites(ctx.prog, "lbuf_get", ctx, "line outside the buffer is not dereferenced",
                        named_exceptions=B9_EXCEPTIONS, in_range=_index_in_buffer)
    if n < 30:
        ctx.broken("only %d lbuf_get call sites" % n)


def rule_B11(ctx):
    ctx.begin("B11", floor=3, what="unchecked per-line accessors")
    prog = ctx.prog
    n = 0
    for f in prog.funcs.values():
        for c in f.calls(("lbuf_globset", "lbuf_globget")):
            n += 1
            if _index_in_buffer(prog, f, c, c["args"][1]):
                ctx.ok(f.name, "%s(%s): 0 <= index < lbuf_len" % (c["fn"], key(c["args"][1])), loc=f.loc(c))
            else:
                ctx.violation(f.name, "%s index inside the line table" % c["fn"],
                              "%s(%s) indexes the mark array directly and the guards do not imply "
                              "0 <= %s < lbuf_len" % (c["fn"], key(c["args"][1]), key(c["args"][1])), f.loc(c))
    if n < 3:
        ctx.broken("only %d accessor calls" % n)


def rule_I1(ctx):
    ctx.begin("I1", floor=6, what="struct invariants re-established at returns and loop ends")
    from ..bounds import path_states, nonneg_atoms
    prog = ctx.prog
    FIELDS = ("ln_n", "ln_sz", "hist_n", "hist_u", "hist_sz")

    def inv(p, get):
        f = lambda x: get("%s->%s" % (p, x))
        return [("ln_n >= 0", Lin(k=0), f("ln_n")),
                ("ln_n <= ln_sz", f("ln_n"), f("ln_sz")),
                ("hist_u >= 0", Lin(k=0), f("hist_u")),
                ("hist_u <= hist_n", f("hist_u"), f("hist_n")),
                ("hist_n <= hist_sz", f("hist_n"), f("hist_sz"))]

    # the writers: every function that stores one of the fields through a struct lbuf pointer
    writers = {}
    for f_ in prog.funcs.values():
        ws = [n for n, lv, op, rhs in stores(f_.body)
              if lv_field(lv) and lv_field(lv)[0] == "lbuf" and lv_field(lv)[1] in FIELDS
              and not lv_field(lv)[2] and lv["k"] == "member"]
        if not ws:
            continue
        bases = {key(lv["base"]) for n, lv, op, rhs in stores(f_.body)
                 if lv["k"] == "member" and lv_field(lv) and lv_field(lv)[0] == "lbuf" and lv_field(lv)[1] in FIELDS}
        pp = [q["name"] for q in f_.params if q["name"] in bases]
        if len(bases) != 1 or len(pp) != 1:
            ctx.inconclusive(f_.name, "history/line-table invariant",
                             "fields stored through %s: not a single pointer parameter" % sorted(bases))
            continue
        writers[f_.qname] = (f_, pp[0], ws)
    if len(writers) < 3:
        ctx.broken("only %d functions store the line-table / history fields" % len(writers))

    def init_for(g, gp):
        init_ = [b - a for gn, a, b in inv(gp, lambda k_: Lin({k_: 1}))]
        if g.name == "lbuf_replace" and len(g.params) >= 4:
            # contract of the splice primitive: n_del lines exist (pos + n_del <= ln_n, pos >= 0);
            # established by the clamps in lbuf_edit (checked below) and by log replay in
            # undo/redo (history argument, not decided)
            pos_, ndel_ = g.params[2]["name"], g.params[3]["name"]
            init_ += [Lin({"%s->ln_n" % gp: 1}) - Lin({pos_: 1}) - Lin({ndel_: 1}), Lin({pos_: 1}), Lin({ndel_: 1})]
        return init_

    def hh_for(gp):
        return lambda subst: [b - a for gn, a, b in inv(gp, lambda k_: subst.get(k_) or Lin({k_: 1}))]

    _kw = {}

    def stored_fields(g, seen=None):
        """fields a writer (or the writers it calls) stores"""
        seen = seen or set()
        if g.qname in seen:
            return set()
        seen.add(g.qname)
        out_ = set()
        if g.qname in writers:
            for n_ in writers[g.qname][2]:
                par_ = n_["l"] if n_["k"] == "bin" else n_["e"]
                out_.add(par_["field"])
        for c_ in g.calls():
            h_ = prog.resolve(g, c_["fn"]) if c_.get("fn") else None
            if h_ is not None and h_.file == g.file:
                out_ |= stored_fields(h_, seen)
        return out_

    def kw_for(f, nc=frozenset()):
        if (f.qname, nc) in _kw:
            return _kw[(f.qname, nc)]
        p = writers[f.qname][1]
        header_hyps = hh_for(p)

        def inline(call, f=f, p=p):
            g = prog.resolve(f, call["fn"]) if call.get("fn") else None
            if g is None or g.qname not in writers or g is f:
                return None
            return (g, kw_for(g, nc))

        def call_writes(call, f=f, p=p):
            fn = call.get("fn")
            g = prog.resolve(f, fn) if fn else None
            if g is None or g.file != f.file or g is f:
                return []
            if not any(key(strip_casts(a)) == p for a in call["args"]):
                return []
            return sorted("%s->%s" % (p, fl) for fl in stored_fields(g))

        def after_call(call, subst, header_hyps=header_hyps, f=f):
            # every writer re-establishes the invariant (its own obligation here) -- except a
            # private helper that is judged only inside its callers
            g = prog.resolve(f, call["fn"]) if call.get("fn") else None
            if g is not None and g.qname in nc:
                subst["__havoc__"] = Lin(k=1)
                return []
            return header_hyps(subst)
        _kw[(f.qname, nc)] = dict(init_hyps=init_for(f, p), header_hyps=header_hyps, assume_fields=FIELDS,
                            call_writes=call_writes, inline=inline, after_call=after_call)
        return _kw[(f.qname, nc)]

    def verify(qn, nc=frozenset()):
        """[(status, where, text, node)] for one writer"""
        res = []
        f, p, writes = writers[qn]
        fname = f.name
        cfg = f.cfg
        init = init_for(f, p)
        header_hyps = hh_for(p)

        # obligation points: every return, and the end of every loop body that contains a write
        targets = [(r, "return") for r in cfg.return_nodes()]
        if not targets or cfg.exit in [s_ for b in cfg.blocks.values() for s_ in b.succ if not b.ev or
                                       f.nodes.get(b.ev[-1], {}).get("k") != "return"]:
            # falls off the end: use the last event of each predecessor of the exit
            for b in cfg.blocks.values():
                if cfg.exit in b.succ and b.ev and f.nodes.get(b.ev[-1], {}).get("k") != "return":
                    n_ = f.nodes.get(b.ev[-1])
                    if n_ is not None:
                        targets.append((n_, "end of function"))
        for h, body in cfg.loops().items():
            if not any(cfg.pos(w) and cfg.pos(w)[0] in body for w in writes):
                continue
            if cfg.blocks[h].ev:
                n_ = f.nodes.get(cfg.blocks[h].ev[0])
                if n_ is not None:
                    targets.append((n_, "loop entry"))
            latches = [b for b in body if h in cfg.blocks[b].succ]
            seen_l = set()
            while latches:
                b = latches.pop()
                if b in seen_l:
                    continue
                seen_l.add(b)
                if cfg.blocks[b].ev:
                    n_ = f.nodes.get(cfg.blocks[b].ev[-1])
                    if n_ is not None:
                        targets.append((n_, "end of loop body"))
                else:
                    latches += [q for q in cfg.blocks[b].pred if q in body and q != h]
        # the invariant is what the other writers assume on entry: it holds at each call of one
        for c_ in f.calls():
            g_ = prog.resolve(f, c_["fn"]) if c_.get("fn") else None
            if g_ is not None and g_ is not f and (g_.qname in writers or (
                    g_.file == f.file and stored_fields(g_))):
                if any(key(strip_casts(a_)) == p for a_ in c_["args"]):
                    targets.append((c_, "call of %s" % g_.name))

        kw = kw_for(f, nc)
        for tgt, where in targets:
            try:
                sts = path_states(f, tgt["id"], base_case=(where == "loop entry"), **kw)
            except OverflowError:
                res.append(("inconclusive", where, "too many paths", tgt))
                continue
            bad = None
            undecided = None
            for subst, hyps, items in sts:
                # the target event itself may be a store (end of loop body): apply it
                post = dict(subst)
                if tgt["k"] == "un" and tgt["op"] in ("post++", "pre++", "post--", "pre--"):
                    nm = key(tgt["e"]) if tgt["e"]["k"] != "ref" else tgt["e"]["name"]
                    post[nm] = (post.get(nm) or Lin({nm: 1})) + Lin(k=1 if "++" in tgt["op"] else -1)
                elif tgt["k"] == "bin" and tgt["op"] in ("=", "+=", "-="):
                    nm = key(tgt["l"]) if tgt["l"]["k"] != "ref" else tgt["l"]["name"]
                    r = linearize(strip_casts(tgt["r"]), subst)
                    if r is not None:
                        old = post.get(nm) or Lin({nm: 1})
                        post[nm] = r if tgt["op"] == "=" else (old + r if tgt["op"] == "+=" else old - r)
                for gname, a, b in inv(p, lambda k_: post.get(k_) or Lin({k_: 1})):
                    flat = [h_ for h_ in hyps if not isinstance(h_, tuple)]
                    v = prove_le(a, b, hyps + nonneg_atoms(flat + [a, b]))
                    if v != PROVEN:
                        gl = b - a
                        if "__havoc__" in subst or ("__callhavoc__" in subst and any(
                                "@c" in at_ for at_ in gl.c)):
                            undecided = (gname, v, items)
                        else:
                            bad = (gname, v, items)
                        break
                if bad:
                    break
            if undecided and not bad:
                res.append(("inconclusive", where, "%s depends on what a helper called on the way does to the fields "
                            "(no summary of it): not decided" % undecided[0], tgt))
                continue
            if bad:
                desc = ", ".join("%s=%s" % (key(f.nodes[x[1]])[:28], x[2]) for x in bad[2] if x[0] == "br")
                res.append(("violation", where, "%s is not re-established (%s) on the path: %s" % (bad[0], bad[1], desc), tgt))
            elif sts:
                res.append(("ok", where, "0 <= ln_n <= ln_sz and 0 <= hist_u <= hist_n <= hist_sz at the %s "
                            "(%d paths, loop heads havoced)" % (where, len(sts)), tgt))
        return res

    def emit(qn, res, note=""):
        f = writers[qn][0]
        for st, where, text, tgt in res:
            text = text + note if st != "ok" else text
            if st == "ok":
                ctx.ok(f.name, text, loc=f.loc(tgt))
            elif st == "violation":
                ctx.violation(f.name, "history/line-table invariant at the %s" % where, text, f.loc(tgt))
            else:
                ctx.inconclusive(f.name, "history/line-table invariant at the %s" % where, text, f.loc(tgt))

    first = {qn: verify(qn) for qn in sorted(writers)}
    # a private helper (static, called only by other writers of the file) that does not keep the
    # invariant on its own -- it takes a position as a parameter, or leaves a field for its
    # caller to set -- is no contract boundary: its callers are verified again with its effect
    # substituted and nothing assumed after it
    def callers_of(g):
        return [h for h in prog.funcs.values() if h is not g and any(
            prog.resolve(h, c_["fn"]) is g for c_ in h.calls() if c_.get("fn"))]
    helpers = set()
    for qn, res in first.items():
        g = writers[qn][0]
        if not any(r[0] == "violation" for r in res) or not g.static:
            continue
        cs = callers_of(g)
        if not cs or not all(h.file == g.file for h in cs):
            continue
        # a caller that stores no field itself becomes a writer through the helper
        okc = True
        for h in cs:
            if h.qname in writers:
                continue
            pn_ = [q["name"] for q in h.params]
            via = {key(strip_casts(c_["args"][0])) for c_ in h.calls(g.name) if c_["args"]}
            if len(via) == 1 and list(via)[0] in pn_:
                writers[h.qname] = (h, list(via)[0], [])
            else:
                okc = False
        if okc:
            helpers.add(qn)
    nc = frozenset(helpers)
    for qn in sorted(writers):
        if qn not in first:
            first[qn] = None
    for qn in sorted(writers):
        if qn in helpers:
            continue
        g = writers[qn][0]
        calls_helper = any(prog.resolve(g, c_["fn"]) is not None and prog.resolve(g, c_["fn"]).qname in helpers
                           for c_ in g.calls() if c_.get("fn"))
        hn = sorted(prog.resolve(g, c_["fn"]).name for c_ in g.calls() if c_.get("fn") and
                    prog.resolve(g, c_["fn"]) is not None and prog.resolve(g, c_["fn"]).qname in helpers)
        emit(qn, verify(qn, nc) if (calls_helper or first[qn] is None) else first[qn],
             " (with the effect of its private helper %s substituted)" % ", ".join(sorted(set(hn))) if hn else "")
    for qn in sorted(helpers):
        g = writers[qn][0]
        ctx.ok(g.name, "private helper without a contract of its own (%s): judged inside %s" % (
            "; ".join(sorted({r[2].split(" is not")[0] for r in first[qn] if r[0] == "violation"})),
            ", ".join(sorted(h.name for h in callers_of(g)))))
    # lbuf_edit establishes the upper half of the contract by its clamps
    ed = prog.func("lbuf_edit", file="lbuf.c")
    pe = ed.params[0]["name"]
    for c in ed.calls("lbuf_replace"):
        a_pos, a_n = linearize(strip_casts(c["args"][2])), linearize(strip_casts(c["args"][3]))
        v, hy = prove_index(ed, c, a_pos + a_n, Lin({"%s->ln_n" % pe: 1}))
        if v == PROVEN:
            ctx.ok("lbuf_edit", "pos + n_del <= ln_n at the splice (both clamps precede it)", loc=ed.loc(c))
        else:
            ctx.violation("lbuf_edit", "splice range clamped to the buffer",
                          "pos + n_del <= ln_n does not follow from the clamps before lbuf_replace (%s)" % v,
                          ed.loc(c))
    # lbuf_replace: strictly one spare slot after the splice (the contract B3 relies on)
    f = prog.func("lbuf_replace", file="lbuf.c")
    if f.qname not in writers:
        ctx.broken("lbuf_replace no longer stores ln_n")
        return
    p = writers[f.qname][1]
    n_st = 0
    for n, lv, op, rhs in stores(f.body):
        if not (lv_field(lv) and lv_field(lv)[1] == "ln_n" and lv["k"] == "member"):
            continue
        n_st += 1
        try:
            sts = path_states(f, n["id"], inclusive=True, **kw_for(f))
        except OverflowError:
            ctx.inconclusive("lbuf_replace", "line table keeps a spare slot", "too many paths", f.loc(n))
            continue
        bad = und = None
        for subst, hyps, items in sts:
            new_n = subst.get("%s->ln_n" % p) or Lin({"%s->ln_n" % p: 1})
            sz = subst.get("%s->ln_sz" % p) or Lin({"%s->ln_sz" % p: 1})
            v = prove_le(new_n + Lin(k=1), sz, hyps)
            if v != PROVEN:
                if "__havoc__" in subst or "__callhavoc__" in subst:
                    und = v
                else:
                    bad = v
        if bad:
            ctx.violation("lbuf_replace", "line table keeps a spare slot",
                          "after the store `%s`, ln_n < ln_sz does not follow from the growth before it "
                          "(%s): the slot after the last line is outside ln[]" % (key(n), bad), f.loc(n))
        elif und:
            ctx.inconclusive("lbuf_replace", "line table keeps a spare slot",
                             "depends on a helper that is not summarised", f.loc(n))
        elif sts:
            ctx.ok("lbuf_replace", "after the splice ln_n < ln_sz on all %d paths (growth exit condition)" % len(sts),
                   loc=f.loc(n))
    if not n_st:
        ctx.broken("lbuf_replace: store to ln_n not found")


def rule_P1(ctx):
    ctx.begin("P1", floor=4, what="register text used across calls that may free it")
    prog = ctx.prog
    cg = prog.cg
    COPIES_FIRST = {"reg_put", "reg_putraw", "lbuf_edit", "term_push", "sbuf_str", "sbuf_mem", "uc_dup",
                    "snprintf", "ex_print", "ex_show", "strlen", "free", "vi_prompt", "led_prompt"}
    frees = {}

    def may_free(f, call):
        fn = call.get("fn")
        if not fn or fn in COPIES_FIRST:
            return None
        g = prog.resolve(f, fn)
        if g is None:
            return None
        if g.qname not in frees:
            frees[g.qname] = cg.reaches(g, ["reg_putraw"], stop=set())
        return frees[g.qname]
    n_sites = 0
    for f in prog.funcs.values():
        if f.file == "reg.c":
            continue
        for c in f.calls("reg_get"):
            par = f.nodes.get(f.parent.get(c["id"]))
            var = None
            if par is not None and par["k"] == "var":
                var = par["name"]
            elif par is not None and par["k"] == "bin" and par["op"] == "=" and par["l"]["k"] == "ref":
                var = par["l"]["name"]
            if var is None:
                # direct argument
                if par is not None and par["k"] == "call":
                    r = may_free(f, par)
                    n_sites += 1
                    if r:
                        ctx.violation(f.name, "register text outlives the call",
                                      "the register's own block is passed to %s, which can reach %s and "
                                      "free it while it is in use" % (par.get("fn"), " -> ".join(r[1])), f.loc(c))
                    else:
                        ctx.ok(f.name, "register text passed to %s (cannot free it)" % par.get("fn"), loc=f.loc(c))
                continue
            n_sites += 1
            bad = None
            rebinds = {n["id"] for n, lv, op, rhs in stores(f.body)
                       if lv["k"] == "ref" and lv["name"] == var and op == "=" and
                       not any(x["id"] == c["id"] for x in walk(n))}
            for call in f.calls():
                # reachable from the fetch while `var` still aliases the register
                if call["id"] == c["id"] or f.cfg.search(
                        f.cfg.pos(c), lambda e: e == call["id"], avoid=lambda e: e in rebinds) is None:
                    continue
                r = may_free(f, call)
                if not r:
                    continue
                # passed to the freeing call, or used after it
                passed = any(key(strip_casts(a)) == var for a in call["args"])
                later = None
                if not passed:
                    uses = [x for x in f.walk() if x["k"] == "ref" and x["name"] == var]
                    for u in uses:
                        if f.cfg.search(f.cfg.pos(call), lambda e: e == u["id"],
                                        avoid=lambda e: e == c["id"] or e in rebinds) is not None:
                            # re-fetched in between?
                            later = u
                            break
                if passed or later is not None:
                    bad = (call, r, passed)
                    break
            if bad:
                call, r, passed = bad
                ctx.violation(f.name, "register text outlives the call",
                              "`%s` aliases the register's heap block and is %s %s, which can reach %s "
                              "and free that block" % (var, "passed to" if passed else "used after",
                                                        call.get("fn"), " -> ".join(r[1])), f.loc(call))
            else:
                ctx.ok(f.name, "register text `%s` not used across a freeing call" % var, loc=f.loc(c))
    if n_sites < 4:
        ctx.broken("only %d reg_get sites" % n_sites)


# ----------------------------------------------------------------------------------------
# B2: bounded copies into fixed arrays


def _table_col_max(prog, table, field):
    g = prog.global_def(table)
    rec = g.get("arr_elem", "").replace("struct ", "")
    r = prog.records.get(rec)
    if not r:
        return None
    idx = [i for i, f in enumerate(r["fields"]) if f["name"] == field]
    if not idx:
        return None
    m = 0
    for row in g["init"]["elems"]:
        if row["k"] != "init" or idx[0] >= len(row["elems"]):
            continue
        e = strip_casts(row["elems"][idx[0]])
        if e["k"] == "str":
            m = max(m, len(e["v"]))
        elif e["k"] == "zero" or cval(e) == 0:
            continue
        else:
            return None
    return m


def _global_strings_max(prog, name, seen=None):
    """longest string literal reachable from a global's initialiser (following references to
    other globals)"""
    seen = seen or set()
    if name in seen:
        return 0
    seen.add(name)
    try:
        g = prog.global_def(name)
    except AnalysisBroken:
        return None
    if "init" not in g:
        return None
    m = 0
    for n in walk(g["init"]):
        if n["k"] == "str":
            m = max(m, len(n["v"]))
        elif n["k"] == "ref" and n["cat"] == "global":
            r = _global_strings_max(prog, n["name"], seen)
            if r is None:
                return None
            m = max(m, r)
    return m


def _table_strings(prog, f, e, depth):
    """strlen bound for an element of a (possibly nested) table of string pointers"""
    b = strip_casts(e)
    while b["k"] in ("sub",):
        b = strip_casts(b["base"])
    if b["k"] == "ref" and b["cat"] == "global":
        gl = [g for g in prog.globals.get(b["name"], []) if "init" in g]
        if gl and "char" in gl[0].get("ty", "") and "*" in gl[0].get("ty", ""):
            return _global_strings_max(prog, b["name"])
        return None
    if b["k"] == "ref" and b["cat"] in ("local",) and depth < 8:
        srcs = [rhs for n, lv, op, rhs in stores(f.body)
                if op in ("=", "init") and lv.get("name") == b["name"] and rhs is not None]
        out = 0
        for r in srcs:
            r = strip_casts(r)
            if is_call(r) and r.get("fn"):
                g = prog.resolve(f, r["fn"])
                if g is None:
                    return None
                for ret in g.cfg.return_nodes():
                    re_ = strip_casts(ret.get("e"))
                    t = _table_strings(prog, g, {"k": "sub", "base": re_, "idx": None}, depth + 1) \
                        if re_ is not None and re_["k"] == "sub" else None
                    if t is None:
                        return None
                    out = max(out, t)
            else:
                return None
        return out if srcs else None
    return None


def slen_bound(prog, f, e, depth=0, exlen=None):
    """Upper bound on strlen of a char* expression, or None."""
    e = strip_casts(e)
    if e is None or depth > 9:
        return None
    k = e["k"]
    if k == "str":
        return len(e["v"])
    if k == "cond":
        a, b = slen_bound(prog, f, e["t"], depth, exlen), slen_bound(prog, f, e["f"], depth, exlen)
        return None if a is None or b is None else max(a, b)
    if k == "bin" and e["op"] == "+" and (e["l"].get("ptr") or "[" in e["l"].get("ty", "")
                                           or strip_casts(e["l"]).get("ptr")):
        return slen_bound(prog, f, e["l"], depth, exlen)      # a suffix is not longer
    if k == "ref":
        arrays = fixed_arrays(prog, f)
        if e["name"] in arrays and e["cat"] != "param":
            return arrays[e["name"]][0] - 1     # holds a terminated string (writers are obligations)
        if e["cat"] == "param":
            if f.name.startswith("ec_") and f.file == "ex.c" and e["name"] in [p["name"] for p in f.params[:3]]:
                return exlen - 1 if exlen else None
            # maximum over call sites
            pi = [i for i, p in enumerate(f.params) if p["name"] == e["name"]]
            if not pi:
                return None
            best = 0
            n = 0
            for g in prog.funcs.values():
                for c in g.calls(f.name):
                    if prog.resolve(g, f.name) is not f:
                        continue
                    n += 1
                    b = slen_bound(prog, g, c["args"][pi[0]], depth + 1, exlen)
                    if b is None:
                        return None
                    best = max(best, b)
            return best if n else None
        # local pointer assigned once
        srcs = [rhs for n, lv, op, rhs in stores(f.body)
                if op in ("=", "init") and lv.get("name") == e["name"] and lv["k"] in ("ref", "var") and rhs is not None]
        if srcs:
            bs = [slen_bound(prog, f, r, depth + 1, exlen) for r in srcs]
            if all(b is not None for b in bs):
                # pointer increments only shorten
                return max(bs)
        return None
    if k == "member":
        rec = prog.records.get(e.get("rec") or "")
        if rec:
            for fld in rec["fields"]:
                if fld["name"] == e["field"] and "arr_n" in fld:
                    return fld["arr_n"] - 1
        # table column reached through a table element
        base = e["base"]
        while base["k"] in ("sub", "un", "member", "cast"):
            base = base.get("base") or base.get("e")
        if base["k"] == "ref" and base["cat"] == "global":
            try:
                return _table_col_max(prog, base["name"], e["field"])
            except AnalysisBroken:
                return None
        return None
    if k == "sub":
        t = _table_strings(prog, f, e, depth)
        if t is not None:
            return t
        # element of a 2-D char array / string table
        b = strip_casts(e["base"])
        if b["k"] == "ref":
            arrays = fixed_arrays(prog, f)
            gl = prog.globals.get(b["name"], [])
            for g in gl:
                if g.get("arr_elem", "").startswith("char[") and g["unit"] == f.unit:
                    return g["arr_esz"] - 1
        return None
    if k == "call" and e.get("fn"):
        g = prog.resolve(f, e["fn"])
        if g is None:
            return None
        best = 0
        rets = g.cfg.return_nodes()
        if not rets:
            return None
        for r in rets:
            re_ = strip_casts(r.get("e")) if r.get("e") else None
            if re_ is None:
                return None
            from ..callgraph import is_null
            if is_null(re_):
                continue
            if re_["k"] == "ref" and re_["cat"] in ("local", "param"):
                # out-parameter filled from a table: conf_*(idx, &ft, ...)
                b = None
                for c in g.calls():
                    fn = c.get("fn") or ""
                    for i, a in enumerate(c["args"]):
                        a = strip_casts(a)
                        if a["k"] == "un" and a["op"] == "&" and key(a["e"]) == re_["name"] and fn.startswith("conf_"):
                            h = prog.resolve(g, fn)
                            if h is not None:
                                pn = h.params[i]["name"]
                                for n, lv, op, rhs in stores(h.body):
                                    if lv["k"] == "un" and key(lv["e"]) == pn:
                                        b = slen_bound(prog, h, rhs, depth + 1, exlen)
                if b is None:
                    b = slen_bound(prog, g, re_, depth + 1, exlen)
            else:
                b = slen_bound(prog, g, re_, depth + 1, exlen)
            if b is None:
                return None
            best = max(best, b)
        return best
    return None


def _fmt_bound(prog, f, call, fmt_idx, exlen):
    fmt = strip_casts(call["args"][fmt_idx])
    if fmt["k"] != "str":
        return None
    s = fmt["v"]
    total = 0
    ai = fmt_idx + 1
    i = 0
    while i < len(s):
        if s[i] != "%":
            total += 1
            i += 1
            continue
        i += 1
        if i < len(s) and s[i] == "%":
            total += 1
            i += 1
            continue
        while i < len(s) and s[i] in "0123456789-+ #.l":
            i += 1
        conv = s[i] if i < len(s) else ""
        i += 1
        if conv in "di":
            total += 11
        elif conv in "ux":
            total += 10
        elif conv == "c":
            total += 1
        elif conv == "s":
            if ai >= len(call["args"]):
                return None
            b = slen_bound(prog, f, call["args"][ai], 0, exlen)
            if b is None:
                return None
            total += b
        else:
            return None
        ai += 1
    return total


# numeric-only formats into small terminal buffers: width depends on terminal geometry
B2_EXCEPTIONS = {
    "term_window": "row numbers come from the window size (unsigned short)",
    "term_room": "scroll count is bounded by the window rows",
    "term_pos": "row/column are clamped to the window",
    "term_seqattr": "colour numbers are masked with 0xff; pieces are appended sequentially",
    "term_init": "window geometry", "term_done": "window geometry",
}


def rule_B2(ctx):
    ctx.begin("B2", floor=8, what="unbounded copies into fixed arrays")
    prog = ctx.prog
    ee = prog.func("ex_exec", file="ex.c")
    exlen = min((a[0] for n_, a in fixed_arrays(prog, ee).items() if n_ in ("loc", "cmd", "arg")), default=None)
    n = 0
    for f in prog.funcs.values():
        if f.file == "stag.c":
            continue
        arrays = fixed_arrays(prog, f)
        for c in f.calls(("strcpy", "strcat", "sprintf")):
            dst = strip_casts(c["args"][0])
            cap = None
            dname = key(dst)
            if dst["k"] == "ref" and dst["name"] in arrays and dst["cat"] != "param":
                la = local_array_by_did(f, dst) or arrays[dst["name"]]
                cap = la[0] * la[1]
            elif dst["k"] == "member":
                rec = prog.records.get(dst.get("rec") or "")
                for fld in (rec or {}).get("fields", []):
                    if fld["name"] == dst["field"] and "arr_n" in fld:
                        cap = fld["arr_n"]
            elif dst["k"] == "ref" and dst["cat"] == "param" and f.name.startswith("ec_") and \
                    dst["name"] in [p["name"] for p in f.params[:3]]:
                cap = exlen
            if cap is None:
                continue        # heap destinations are B3's
            if f.name in B2_EXCEPTIONS:
                ctx.note("%s: %s into %s not decided (%s)" % (f.name, c["fn"], dname, B2_EXCEPTIONS[f.name]))
                continue
            n += 1
            if c["fn"] == "sprintf":
                b = _fmt_bound(prog, f, c, 1, exlen)
            elif c["fn"] == "strcat":
                b1, b2 = slen_bound(prog, f, dst, 0, exlen), slen_bound(prog, f, c["args"][1], 0, exlen)
                b = None if b1 is None or b2 is None else b1 + b2
            else:
                b = slen_bound(prog, f, c["args"][1], 0, exlen)
            if b is not None and b + 1 <= cap:
                ctx.ok(f.name, "%s into %s[%d]: source at most %d bytes + terminator" % (c["fn"], dname, cap, b),
                       loc=f.loc(c))
            else:
                ctx.violation(f.name, "%s into %s bounded" % (c["fn"], dname.split("[")[0]),
                              "%s copies %s bytes (+ terminator) into %s[%d]" % (
                                  c["fn"], "an unbounded number of" if b is None else "up to %d" % b, dname, cap),
                              f.loc(c))
    if n < 8:
        ctx.broken("only %d copy sites" % n)
    # snprintf/vsnprintf into a fixed array: the size argument is at most the array
    for f in prog.funcs.values():
        arrays = fixed_arrays(prog, f)
        for c in f.calls(("snprintf", "vsnprintf")):
            dst = strip_casts(c["args"][0])
            cap = None
            if dst["k"] == "ref" and dst["name"] in arrays and dst["cat"] != "param":
                la = local_array_by_did(f, dst) or arrays[dst["name"]]
                cap = la[0] * la[1]
            elif dst["k"] == "member":
                rec = prog.records.get(dst.get("rec") or "")
                for fld in (rec or {}).get("fields", []):
                    if fld["name"] == dst["field"] and "arr_n" in fld:
                        cap = fld["arr_n"]
            elif dst["k"] == "sub" and strip_casts(dst["base"])["k"] == "ref":
                gl = [g for g in prog.globals.get(strip_casts(dst["base"])["name"], []) if g["unit"] == f.unit]
                if gl and gl[0].get("arr_elem", "").startswith("char["):
                    cap = gl[0]["arr_esz"]
            if cap is None:
                continue
            sz = cval(c["args"][1])
            if sz is not None and sz <= cap:
                ctx.ok(f.name, "%s(%s, %d) into %d bytes" % (c["fn"], key(dst), sz, cap), loc=f.loc(c))
            elif sz is not None:
                ctx.violation(f.name, "%s size fits the array" % c["fn"],
                              "%s is told it may write %d bytes into %s[%d]" % (c["fn"], sz, key(dst), cap), f.loc(c))


# ----------------------------------------------------------------------------------------
# B3: heap allocation extents


def _pointee_size(prog, ty):
    ty = ty.strip()
    if not ty.endswith("*"):
        return None
    base = ty[:-1].strip()
    if base.endswith("*"):
        return 8
    base = base.replace("const ", "").replace("unsigned ", "").replace("signed ", "").strip()
    if base in ("char", ""):
        return 1
    if base in ("short",):
        return 2
    if base in ("int", "float"):
        return 4
    if base in ("long", "double", "long long"):
        return 8
    if base.startswith("struct "):
        r = prog.records.get(base[7:].strip())
        return r["size"] if r else None
    if base == "regmatch_t":
        return 8
    return None


def _path_prove_store(prog, f, st, alloc, esz, mem=None):
    """0 <= index < allocated elements for the store `a[idx] = ..`, over every path to it with
    the values of small same-file helpers (led_pos ..) substituted per exit: PROVEN, "REFUTED"
    (a path without unknowns violates it) or None."""
    from ..bounds import path_states
    from .. import lin as _lin
    r = strip_casts(alloc.get("r") or alloc.get("init"))
    size_e = strip_casts(r["args"][0])

    def inline(call):
        g = prog.resolve(f, call["fn"]) if call.get("fn") else None
        if g is None or g.file != f.file or len(list(g.walk())) > 60:
            return None
        if any(x["k"] in ("while", "for", "do") for x in g.walk()) or list(stores(g.body)):
            return None
        return g
    from ..bounds import struct_invariants
    inv0 = struct_invariants(f)
    try:
        sts = path_states(f, st["id"], inline=inline, max_paths=3000, init_hyps=inv0,
                          header_hyps=(lambda subst: struct_invariants(f, subst)) if inv0 else None)
    except OverflowError:
        return None
    if not sts:
        return None
    verdict = PROVEN
    for subst, hyps, items in sts:
        lin_ = subst["__linfn__"]
        E = lin_(size_e)
        if mem is not None:
            off = lin_(mem[0]) if mem[0] is not None else Lin()
            ln_ = lin_(mem[1])
            if off is None or ln_ is None or E is None:
                return None
            a = prove_le(Lin(k=0), off, hyps + nonneg_atoms([h_ for h_ in hyps if not isinstance(h_, tuple)] + [off]))
            b = prove_le(off.scale(esz) + ln_, E, hyps)
            if a != PROVEN or b != PROVEN:
                if "__havoc__" in subst or "__callhavoc__" in subst:
                    verdict = None
                elif verdict == PROVEN:
                    verdict = "REFUTED"
            continue
        idx = lin_(strip_casts(st["l"]["idx"]))
        if idx is None or E is None:
            return None
        flat = [h_ for h_ in hyps if not isinstance(h_, tuple)]
        a = prove_le(Lin(k=0), idx, hyps)
        b = prove_le(idx.scale(esz) + Lin(k=esz), E, hyps)
        if a != PROVEN or b != PROVEN:
            if "__havoc__" in subst or "__callhavoc__" in subst:
                verdict = None
            elif verdict == PROVEN:
                verdict = "REFUTED"
    return verdict



# (function, allocated lvalue) -> writes that are not decided here, with the reason
B3_EXCEPTIONS = {
    ("syn_highlight", "att"): "att[j] ranges over matcher offsets converted by uc_off (R8: offsets <= length)",
    ("ren_position_reorder", "pos"): "pos[off[i]] / indices are values of a permutation (O1)",
    ("ren_position_reorder", "off"): "off[pos[i]]: index is a permutation value (O1)",
    ("regcomp", "re->p"): "program size: decided by R1",
    ("rset_find", "subs"): "filled by regexec with nsub = allocated count (B6)",
    ("lbuf_savemark", "lo->mark"): "index m comes from the caller's loop over NMARKS_BASE < NMARKS",
    ("lbuf_savemark", "lo->mark_off"): "index m comes from the caller's loop over NMARKS_BASE < NMARKS",
    ("sbuf_extend", "*"): "the requested size covers s_n + 1: obligation of every caller (B4)",
}


def rule_B3(ctx):
    ctx.begin("B3", floor=14, what="writes through freshly allocated blocks")
    prog = ctx.prog
    n_ok = 0
    for f in prog.funcs.values():
        if f.file == "stag.c":
            continue
        allocs = []
        for n, lv, op, rhs in stores(f.body):
            if op not in ("=", "init") or rhs is None:
                continue
            r = strip_casts(rhs)
            if not is_call(r, "malloc"):
                continue
            E = linearize(strip_casts(r["args"][0]))
            if E is None:
                continue
            name = lv["name"] if lv["k"] in ("ref", "var") else key(lv)
            ty = lv.get("ty", "")
            esz = _pointee_size(prog, ty)
            if esz is None:
                continue
            allocs.append((n, name, E, esz))
        for an, name, E, esz in allocs:
            exc = B3_EXCEPTIONS.get((f.name, name)) or B3_EXCEPTIONS.get((f.name, "*"))
            writes = []
            mem_nodes = {}
            for n, lv, op, rhs in stores(f.body):
                if op == "init" or not f.cfg.dominates(an, n):
                    continue
                if lv["k"] == "sub" and key(strip_casts(lv["base"])) == name:
                    idx = strip_casts(lv["idx"])
                    il = linearize(idx["e"] if idx["k"] == "un" and idx["op"].startswith("post") else idx)
                    if il is not None:
                        writes.append((n, il.scale(esz) + Lin(k=esz), "%s[%s]" % (name, key(idx))))
                    else:
                        writes.append((n, None, "%s[%s]" % (name, key(idx))))
            for c in f.calls(("memcpy", "memmove", "memset", "strcpy", "strcat")):
                if not f.cfg.dominates(an, c):
                    continue
                d = strip_casts(c["args"][0])
                off = None
                if key(d) == name:
                    off = Lin()
                elif d["k"] == "bin" and d["op"] == "+" and key(strip_casts(d["l"])) == name:
                    o = linearize(d["r"])
                    off = o.scale(esz) if o is not None else None
                else:
                    continue
                if c["fn"] in ("strcpy", "strcat"):
                    src = strip_casts(c["args"][1])
                    ln = Lin({"strlen(%s)" % key(src): 1}) + Lin(k=1)
                    if c["fn"] == "strcat":
                        # after strcpy(name, p): current length strlen(p)
                        prev = [x for x in f.calls("strcpy") if key(strip_casts(x["args"][0])) == name
                                and f.cfg.dominates(x, c)]
                        if prev:
                            ln = ln + Lin({"strlen(%s)" % key(strip_casts(prev[-1]["args"][1])): 1})
                        else:
                            ln = None
                else:
                    ln = linearize(strip_casts(c["args"][2]))
                if off is None or ln is None:
                    writes.append((c, None, "%s into %s" % (c["fn"], name)))
                else:
                    writes.append((c, off + ln, "%s into %s" % (c["fn"], name)))
                if c["fn"] in ("memcpy", "memmove", "memset"):
                    d_ = strip_casts(c["args"][0])
                    mem_nodes[c["id"]] = (strip_casts(d_["r"]) if d_["k"] == "bin" else None, strip_casts(c["args"][2]))
            if not writes:
                continue
            for n, ext, desc in writes:
                if ext is None:
                    v = None
                else:
                    v, hy = prove_index(f, n, ext, E)
                if v != PROVEN and n["k"] == "bin" and n["l"]["k"] == "sub":
                    # second engine: all paths to the store, small helpers of the file summarised
                    pv = _path_prove_store(prog, f, n, an, esz)
                    if pv == PROVEN:
                        v = PROVEN
                if v != PROVEN and n["id"] in mem_nodes:
                    pv = _path_prove_store(prog, f, n, an, esz, mem=mem_nodes[n["id"]])
                    if pv == PROVEN:
                        v = PROVEN
                if v == PROVEN:
                    n_ok += 1
                    ctx.ok(f.name, "%s within malloc(%s)" % (desc, key(strip_casts(an.get("r") or an.get("init"))["args"][0])[:40]),
                           loc=f.loc(n))
                elif exc:
                    ctx.note("%s %s: not decided here (%s)" % (f.name, desc, exc))
                else:
                    ctx.violation(f.name, "write within the allocation of %s" % name,
                                  "%s: extent %s is not shown to stay within malloc(%s) (%s)" % (
                                      desc, ext, E, v), f.loc(n))
    if n_ok < 14:
        ctx.broken("only %d allocation writes proven" % n_ok)


RULES = {"I1": rule_I1, "I2": rule_I2, "Q3": rule_Q3, "B9": rule_B9, "B11": rule_B11, "B1": rule_B1, "B2": rule_B2, "B3": rule_B3, "B4": rule_B4, "B5": rule_B5, "B6": rule_B6, "B10": rule_B10, "P1": rule_P1, "B14": rule_B14}
