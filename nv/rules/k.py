"""K — constant tables; O1 — reordering writes; B7 — table-bounded loops (DESIGN.md 3.9)."""
import unicodedata

from ..absint import Interp, Ptr, OverRead, Unsupported, OPAQUE
from ..facts import AnalysisBroken, walk, key, cval
from ..util import (stores, lv_field, lv_var, is_call, calls_in, refs, mentions,
                    strip_casts, negate_truth, flatten_and, flatten_or, enclosing)


def _rows(g):
    """rows of a global table initialiser as lists of python values"""
    out = []
    for row in g["init"]["elems"]:
        if row["k"] != "init":
            continue
        vals = []
        for e in row["elems"]:
            e = strip_casts(e)
            if e["k"] == "str":
                vals.append(e["v"])
            elif e["k"] == "zero":
                vals.append(0)
            elif e["k"] == "ref":
                vals.append(("ref", e["name"]))
            else:
                v = cval(e)
                vals.append(v if v is not None else (e["v"] if e["k"] == "int" else None))
        out.append(vals)
    return out


def rule_K1(ctx):
    ctx.begin("K1", floor=5, what="range tables and their shortcuts")
    prog = ctx.prog
    tabs = {}
    for name in ("dwchars", "zwchars", "bchars"):
        g = prog.global_def(name, file="uc.c")
        rows = _rows(g)
        if len(rows) < 5:
            raise AnalysisBroken("table %s has %d rows" % (name, len(rows)))
        tabs[name] = rows
        bad = None
        for i, (lo, hi) in enumerate(rows):
            if lo > hi:
                bad = "row %d {0x%x, 0x%x} has lo > hi" % (i, lo, hi)
            if i and rows[i - 1][1] >= lo:
                bad = "rows %d and %d are not strictly increasing and disjoint: {0x%x,0x%x} {0x%x,0x%x}" % (
                    i - 1, i, rows[i - 1][0], rows[i - 1][1], lo, hi)
        if bad:
            ctx.violation(name, "table sorted and disjoint (bisection precondition)", bad)
        else:
            ctx.ok(name, "%d rows sorted, disjoint, lo <= hi" % len(rows))
    # shortcut thresholds
    for fn, tab in (("uc_isdw", "dwchars"), ("uc_iszw", "zwchars")):
        f = prog.func(fn, file="uc.c")
        thr = None
        for n in f.walk():
            if n["k"] == "bin" and n["op"] in (">=", ">") and n["l"]["k"] == "ref" and cval(n["r"]) is not None:
                thr = cval(n["r"]) + (1 if n["op"] == ">" else 0)
        uses = any(mentions(c, tab) for c in f.calls("find"))
        if thr is None:
            ctx.ok(fn, "no shortcut threshold")
        elif thr <= tabs[tab][0][0] and uses:
            ctx.ok(fn, "shortcut 0x%x <= first table entry 0x%x" % (thr, tabs[tab][0][0]))
        else:
            ctx.violation(fn, "shortcut threshold", "characters below 0x%x are excluded but %s "
                          "starts at 0x%x" % (thr, tab, tabs[tab][0][0]))
    # the bisection finds exactly the listed ranges: evaluate find() at every boundary
    fd = prog.func("find", file="uc.c")
    for name, rows in tabs.items():
        tab = {i: {0: lo, 1: hi} for i, (lo, hi) in enumerate(rows)}
        member = set()
        pts = set()
        for lo, hi in rows:
            pts.update((lo - 1, lo, hi, hi + 1, (lo + hi) // 2))
        bad = None
        for c in sorted(p for p in pts if p >= 0):
            want = any(lo <= c <= hi for lo, hi in rows)
            try:
                got = Interp(prog).call(fd, [c, tab, len(rows)])
            except (Unsupported, OverRead) as e:
                raise AnalysisBroken("find() not evaluable: %s" % e)
            if bool(got) != want and bad is None:
                bad = (c, got, want)
        if bad:
            ctx.violation("find", "bisection over " + name,
                          "find(0x%x) = %s but the table %s it" % (
                              bad[0], bad[1], "lists" if bad[2] else "does not list"))
        else:
            ctx.ok("find", "bisection agrees with %s at %d boundary points" % (name, len(pts)))
    # uc_wid: zero-width first, then double width
    uw = prog.func("uc_wid", file="uc.c")
    rets = [(cval(r.get("e")), r) for r in uw.cfg.return_nodes()]
    k_ = " ".join(key(r.get("e")) for v, r in rets)
    if "uc_iszw" in key(uw.body["body"][1]) if len(uw.body["body"]) > 1 else False:
        pass
    vals = set()
    for v, r in rets:
        if v is not None:
            vals.add(v)
        else:
            e = strip_casts(r["e"])
            if e["k"] == "cond":
                vals.update((cval(e["t"]), cval(e["f"])))
    if vals == {0, 1, 2}:
        ctx.ok("uc_wid", "widths are 0, 1 or 2")
    else:
        ctx.violation("uc_wid", "width classes", "uc_wid returns %s" % sorted(x for x in vals if x is not None))


def _unicode_forms():
    forms = {}
    for cp in list(range(0xfb50, 0xfe00)) + list(range(0xfe70, 0xff00)):
        d = unicodedata.decomposition(chr(cp))
        if not d.startswith("<"):
            continue
        tag, rest = d.split("> ")
        tag = tag[1:]
        parts = rest.split()
        if len(parts) != 1 or tag not in ("isolated", "initial", "medial", "final"):
            continue
        forms.setdefault(int(parts[0], 16), {})[tag] = cp
    return forms


def rule_K2(ctx):
    ctx.begin("K2", floor=40, what="Arabic shaping table rows")
    prog = ctx.prog
    g = prog.global_def("achars", file="uc.c")
    rows = _rows(g)
    if len(rows) < 40:
        raise AnalysisBroken("achars has %d rows" % len(rows))
    forms = _unicode_forms()
    prev = -1
    tags = ["isolated", "initial", "medial", "final"]
    SELF = (0x0640, 0x200d, 0x200c)
    for r in rows:
        r = (r + [0] * 5)[:5]
        c, s_, i_, m_, f_ = r
        bad = None
        if c <= prev:
            bad = "0x%04x follows 0x%04x: not strictly increasing (bisection in find_achar)" % (c, prev)
        prev = c
        for tag, v in zip(tags, (s_, i_, m_, f_)):
            if not v:
                continue
            if c in SELF:
                if v != c:
                    bad = "0x%04x (joiner) maps its %s form to 0x%04x, not to itself" % (c, tag, v)
                continue
            want = forms.get(c, {}).get(tag)
            if want != v:
                bad = "%s form of U+%04X is listed as U+%04X; Unicode gives %s" % (
                    tag, c, v, ("U+%04X" % want) if want else "none")
        # a letter with an initial form must have a medial one and vice versa (dual joining)
        if c not in SELF and bool(i_) != bool(m_):
            bad = "U+%04X has only one of the initial/medial forms" % c
        if bad:
            ctx.violation("achars", "row U+%04X" % c, bad)
        else:
            ctx.ok("achars", "row U+%04X: forms are presentation forms of the same letter" % c)
    # selection of the form by joining context: abstract evaluation of uc_cshape on the table
    f = prog.func("uc_cshape", file="uc.c")
    tab = {}
    for idx, r in enumerate(rows):
        r = (r + [0] * 5)[:5]
        tab[idx] = dict(zip("csimf", r))
    tabmap = {r["c"]: r for r in tab.values()}

    def canjoin(a, b):
        ra, rb = tabmap.get(a), tabmap.get(b)
        return bool(ra and rb and (ra["i"] or ra["m"]) and (rb["f"] or rb["m"]))
    DUAL, NONE = 0x0628, 0x41
    bad = None
    n_eval = 0
    for r in tab.values():
        c = r["c"]
        for prv in (DUAL, NONE, 0, 0x0621, 0x0627, 0x0640, 0x200d, 0x200c):
            for nxt in (DUAL, NONE, 0, 0x0621, 0x0627, 0x0640, 0x200d, 0x200c):
                jp, jn = canjoin(prv, c), canjoin(c, nxt)
                want = r["m"] if jp and jn else r["f"] if jp else r["i"] if jn else r["c"]
                want = want or c
                try:
                    got = Interp(prog, globals_={"achars": tab}).call(f, [c, prv, nxt])
                except (Unsupported, OverRead) as e:
                    raise AnalysisBroken("uc_cshape not evaluable: %s" % e)
                n_eval += 1
                if got != want and bad is None:
                    bad = (c, prv, nxt, got, want)
    # a non-Arabic character is never altered
    for c in (0x41, 0x20, 0x5d0, 0x3042):
        got = Interp(prog, globals_={"achars": tab}).call(f, [c, DUAL, DUAL])
        n_eval += 1
        if got != c and bad is None:
            bad = (c, DUAL, DUAL, got, c)
    if bad:
        ctx.violation("uc_cshape", "form selected by the joining context",
                      "uc_cshape(U+%04X, prev U+%04X, next U+%04X) = U+%04X, expected U+%04X" % bad)
    else:
        ctx.ok("uc_cshape", "medial/final/initial/base chosen by (join_prev, join_next) in %d cases" % n_eval)


def _groupcount(s):
    """the repository's re_groupcount rule over the table bytes"""
    b = [ord(c) for c in s] + [0, 0, 0]
    n = brk = brk2 = 0
    i = 0
    while b[i]:
        if not brk:
            if b[i] == ord("("):
                n += 1
            if b[i] == ord("\\") and b[i + 1]:
                i += 1
            elif b[i] == ord("[") and b[i + 1] and b[i + 2]:
                i += 2 if b[i + 1] == ord("^") else 1
                brk = 1
        else:
            if not brk2:
                if b[i] == ord("]"):
                    brk = 0
                if b[i] == ord("[") and b[i + 1] in (ord(":"), ord("*"), ord("=")):
                    brk2 = b[i + 1]
                    i += 1
            elif b[i] == brk2 and b[i + 1] == ord("]"):
                brk2 = 0
                i += 1
        i += 1
    return n


def _struct_rows(prog, name, file="conf.c"):
    g = prog.global_def(name)
    rec = g.get("arr_elem", "").replace("struct ", "")
    fields = [f["name"] for f in prog.record(rec)["fields"]]
    out = []
    for r in _rows(g):
        out.append(dict(zip(fields, r + [0] * (len(fields) - len(r)))))
    return out


def rule_K3(ctx):
    ctx.begin("K3", floor=4, what="direction-mark rows")
    prog = ctx.prog
    rows = _struct_rows(prog, "dirmarks")
    dm = prog.func("dir_match", file="dir.c")
    subs = None
    for n in dm.walk():
        if n["k"] == "var" and n["name"] == "subs":
            subs = n["arr_n"]
    if subs is None:
        raise AnalysisBroken("dir_match: subs[] not found")
    for i, r in enumerate(rows):
        bad = None
        ng = _groupcount(r["pat"])
        if r["grp"] < 0 or r["grp"] > ng:
            bad = "grp %d but the pattern has %d groups" % (r["grp"], ng)
        elif 2 * r["grp"] + 1 >= subs:
            bad = "grp %d does not fit subs[%d]" % (r["grp"], subs)
        elif r["dir"] not in (-1, 1):
            bad = "dir %s" % r["dir"]
        elif r["ctx"] not in (-1, 0, 1):
            bad = "ctx %s" % r["ctx"]
        if bad:
            ctx.violation("dirmarks", "row %d" % i, bad)
        else:
            ctx.ok("dirmarks", "row %d: grp %d of %d, dir %+d, ctx %+d" % (i, r["grp"], ng, r["dir"], r["ctx"]))
    for i, r in enumerate(_struct_rows(prog, "dircontexts")):
        if r["dir"] in (-1, 1):
            ctx.ok("dircontexts", "row %d: dir %+d" % (i, r["dir"]))
        else:
            ctx.violation("dircontexts", "row %d" % i, "dir %s" % r["dir"])


def _mark_limit(prog):
    """the constant below which the matcher (re_rec or a helper of it) records a mark"""
    for f in prog.funcs.values():
        if f.file != "regex.c":
            continue
        for s, lv, op, rhs in stores(f.body):
            lf = lv_field(lv)
            if lf and lf[0] == "rstate" and lf[1] == "mark" and lf[2] and not (cval(rhs) is not None and cval(rhs) < 0):
                for cid, t in f.cfg.facts_at(s["id"]):
                    c = f.nodes.get(cid)
                    if c is not None and c["k"] == "bin" and c["op"] == "<" and t and cval(c["r"]) is not None:
                        return cval(c["r"])
                    if c is not None and c["k"] == "bin" and c["op"] == ">" and t and cval(c["l"]) is not None:
                        return cval(c["l"])
                    if c is not None and c["k"] == "bin" and c["op"] == ">=" and not t and cval(c["r"]) is not None:
                        return cval(c["r"])
    raise AnalysisBroken("regex.c: mark guard constant not found")


def rule_K4(ctx):
    ctx.begin("K4", floor=8, what="built-in pattern sets vs the mark limit")
    prog = ctx.prog
    K = _mark_limit(prog)
    limit = K // 2      # marks 2g and 2g+1 must both be below K
    rs = prog.func("rset_make", file="rset.c")
    base = None
    for s, lv, op, rhs in stores(rs.body):
        if lv["k"] == "member" and lv["field"] == "grpcnt" and op == "=" and cval(rhs) is not None:
            base = cval(rhs)
    if base is None:
        raise AnalysisBroken("rset_make: initial group count not found")
    sets = {}
    for r in _struct_rows(prog, "highlights"):
        sets.setdefault("highlights[%s]" % r["ft"], []).append(r["pat"])
    sets["filetypes"] = [r["pat"] for r in _struct_rows(prog, "filetypes")]
    dmr = _struct_rows(prog, "dirmarks")
    sets["dirmarks (left-to-right context)"] = [r["pat"] for r in dmr if r["ctx"] >= 0]
    sets["dirmarks (right-to-left context)"] = [r["pat"] for r in dmr if r["ctx"] <= 0]
    sets["dircontexts"] = [r["pat"] for r in _struct_rows(prog, "dircontexts")]
    for name, pats in sorted(sets.items()):
        total = base + sum(1 + _groupcount(p) for p in pats if isinstance(p, str))
        if total <= limit:
            ctx.ok(name, "%d patterns need %d groups <= %d" % (len(pats), total, limit))
        else:
            ctx.violation(name, "pattern set fits the mark array",
                          "%d patterns need %d groups but marks are kept only for %d: the marks of "
                          "the last alternatives are dropped and rset_find reports the wrong index" % (
                              len(pats), total, limit))
    # the group index consulted by syn_highlight fits its subs[]
    sh = prog.func("syn_highlight", file="syn.c")
    nsub = None
    for n in sh.walk():
        if n["k"] == "var" and n["name"] == "subs":
            nsub = n["arr_n"] // 2
    if nsub:
        bad = [r for r in _struct_rows(prog, "highlights")
               if isinstance(r.get("end"), int) and not (0 <= r["end"] < nsub)]
        too_many = [r for r in _struct_rows(prog, "highlights") if _groupcount(r["pat"]) + 1 > nsub]
        if bad or too_many:
            ctx.violation("highlights", "group indexes fit subs[]",
                          "%d rows with `end` outside [0,%d), %d rows with more groups than reported" % (
                              len(bad), nsub, len(too_many)))
        else:
            ctx.ok("highlights", "every row's groups and `end` index fit subs[%d]" % (2 * nsub))


def rule_O1(ctx):
    ctx.begin("O1", floor=3, what="writers of the order array")
    prog = ctx.prog
    n = 0
    for f in prog.funcs.values():
        if f.file != "dir.c":
            continue
        pnames = {p["name"] for p in f.params if p["ty"] == "int *"}
        for s, lv, op, rhs in stores(f.body):
            if lv["k"] != "sub" or lv["base"]["k"] != "ref" or lv["base"]["name"] not in pnames:
                continue
            arr = lv["base"]["name"]
            if arr not in ("ord",):
                continue
            n += 1
            if f.name == "dir_reverse":
                continue      # judged as a whole below
            if f.name == "dir_reorder":
                # fixed point ord[n-1] = n-1
                if key(strip_casts(lv["idx"])) == key(strip_casts(rhs)):
                    ctx.ok(f.name, "ord[k] = k (terminator stays last)", loc=f.loc(s))
                    # it is the last element and guarded by the terminator test
                    facts = [key(c) for c, t in _f(f, s) if t]
                    if not any("10" in k_ for k_ in facts):
                        ctx.violation(f.name, "terminator last", "ord[n-1] = n-1 is not guarded by "
                                      "the test that the last character is the terminator", f.loc(s))
                    continue
            ctx.violation(f.name, "order array only permuted",
                          "`%s` writes the order array outside the swap in dir_reverse" % key(s), f.loc(s))
    rv = prog.func("dir_reverse", file="dir.c")
    sts = [(s, lv, rhs) for s, lv, op, rhs in stores(rv.body)
           if lv["k"] == "sub" and lv["base"]["k"] == "ref" and lv["base"]["name"] == "ord"]
    tmp = [(s, rhs) for s, lv, op, rhs in stores(rv.body)
           if lv["k"] in ("var", "ref") and rhs is not None and strip_casts(rhs)["k"] == "sub"
           and key(strip_casts(rhs)["base"]) == "ord"]
    good = False
    if len(sts) == 2 and len(tmp) == 1:
        a, b = sts
        ia, ib = key(strip_casts(a[1]["idx"])), key(strip_casts(b[1]["idx"]))
        t_idx = key(strip_casts(tmp[0][1])["idx"])
        tname = tmp[0][0].get("name") or tmp[0][0]["l"]["name"]
        # ord[x] = ord[y]; ord[y] = tmp  with tmp = ord[x]
        if key(strip_casts(a[2])) == "ord[%s]" % ib and key(strip_casts(b[2])) == tname and t_idx == ia and ia != ib:
            good = True
    if good:
        ctx.ok("dir_reverse", "element swap: two stores exchanging two loads")
    else:
        ctx.violation("dir_reverse", "order array only permuted",
                      "the stores into ord[] are not an exchange of two elements: %s" % [key(s[0]) for s in sts])
    # indices move towards each other and stop when they meet
    lp = [x for x in rv.walk() if x["k"] in ("while", "for")]
    okb = False
    if lp and lp[0].get("c") is not None and len(sts) == 2:
        c0 = strip_casts(lp[0]["c"])
        ia, ib = key(strip_casts(sts[0][1]["idx"])), key(strip_casts(sts[1][1]["idx"]))
        if c0["k"] == "bin" and c0["op"] in ("<", ">"):
            lo_, hi_ = (c0["l"], c0["r"]) if c0["op"] == "<" else (c0["r"], c0["l"])
            lo_, hi_ = key(strip_casts(lo_)), key(strip_casts(hi_))
            ups = {lv["name"] for n_, lv, op_, r_ in stores(lp[0]) if lv["k"] == "ref" and op_ in ("post++", "pre++")}
            downs = {lv["name"] for n_, lv, op_, r_ in stores(lp[0]) if lv["k"] == "ref" and op_ in ("post--", "pre--")}
            # the two swapped indices, the lower one rising and the upper one falling
            if {lo_, hi_} == {ia, ib} and lo_ in ups and hi_ in downs and lo_ not in downs and hi_ not in ups:
                okb = True
    if okb:
        ctx.ok("dir_reverse", "swap loop runs while the rising index is below the falling one")
    else:
        ctx.violation("dir_reverse", "swap loop bound", "loop condition %s" % (key(lp[0]["c"]) if lp else None))
    # identity initialisation before reordering in ren_position_reorder
    rp = prog.func("ren_position_reorder", file="ren.c")
    dr = list(rp.calls("dir_reorder"))
    ident = [s for s, lv, op, rhs in stores(rp.body)
             if lv["k"] == "sub" and key(lv["base"]) == "pos" and rhs is not None
             and key(strip_casts(lv["idx"])) == key(strip_casts(rhs))]
    def precedes(a, d):
        return rp.cfg.search(rp.cfg.pos(a), lambda e: e == d["id"]) is not None
    if dr and ident and all(precedes(ident[0], d) for d in dr):
        other = [s for s, lv, op, rhs in stores(rp.body)
                 if lv["k"] == "sub" and key(lv["base"]) == "pos" and s["id"] != ident[0]["id"]
                 and any(precedes(s, d) for d in dr)]
        # the identity loop covers [0, n)
        lp = enclosing(rp, ident[0]["id"], ("for",))
        full = lp is not None and lp.get("init") is not None and cval(lp["init"].get("r")) == 0 \
            and key(lp["c"]).endswith("<n)")
        if not other and full:
            ctx.ok("ren_position_reorder", "identity order over [0, n) before dir_reorder")
        else:
            ctx.violation("ren_position_reorder", "identity order before reordering",
                          "`%s`" % (key(other[0]) if other else "identity loop does not cover [0, n)"),
                          rp.loc(other[0]) if other else "")
    else:
        ctx.violation("ren_position_reorder", "identity order before reordering",
                      "pos[i] = i does not precede dir_reorder")
    # inversion: off[pos[i]] = i over all i
    inv = [s for s, lv, op, rhs in stores(rp.body)
           if lv["k"] == "sub" and key(lv["base"]) == "off" and "pos[" in key(lv["idx"])]
    if inv and key(strip_casts(inv[0]["l"]["idx"])) == "pos[%s]" % key(strip_casts(inv[0]["r"])):
        ctx.ok("ren_position_reorder", "inverse permutation off[pos[i]] = i")
    else:
        ctx.violation("ren_position_reorder", "inverse permutation", "off[] is not filled as off[pos[i]] = i")


def _f(f, n):
    from .w import _facts
    return _facts(f, n)


def rule_B7(ctx):
    ctx.begin("B7", floor=3, what="loops bounded only by a configuration table")
    prog = ctx.prog
    n = 0
    for f in prog.funcs.values():
        for lp in f.walk():
            if lp["k"] != "for" or lp.get("c") is None:
                continue
            conj = flatten_and(lp["c"])
            confs = []
            for cj in conj:
                c0, t0 = negate_truth(cj, True)
                if is_call(c0) and (c0.get("fn") or "").startswith("conf_") and not t0:
                    confs.append(c0)
            if not confs:
                continue
            iv = key(strip_casts(confs[0]["args"][0]))
            own = None
            for cj in conj:
                if cj["k"] == "bin" and cj["op"] == "<" and key(cj["l"]) == iv and cval(cj["r"]) is not None:
                    own = cval(cj["r"])
            # table length that the conf function checks idx against
            g = prog.resolve(f, confs[0]["fn"])
            T = None
            for x in g.walk():
                if x["k"] == "bin" and x["op"] == ">=" and x["l"]["k"] == "ref" and \
                        x["l"]["name"] == g.params[0]["name"] and cval(x["r"]) is not None:
                    T = cval(x["r"])
            arrays = {}
            for s, lv, op, rhs in stores(lp["body"]):
                if lv["k"] == "sub" and lv["base"]["k"] == "ref" and key(strip_casts(lv["idx"])) == iv:
                    for v in f.walk():
                        if v["k"] == "var" and v["name"] == lv["base"]["name"] and "arr_n" in v:
                            arrays[v["name"]] = v["arr_n"]
            for a, N in sorted(arrays.items()):
                n += 1
                bound = min(x for x in (own, T) if x is not None) if (own is not None or T is not None) else None
                if bound is None:
                    ctx.violation(f.name, "loop over %s bounded" % a,
                                  "the loop stores %s[%s] and is bounded neither by the array nor by "
                                  "a table length" % (a, iv), f.loc(lp))
                elif bound <= N:
                    ctx.ok(f.name, "%s[%s]: at most %d iterations <= %d elements" % (a, iv, bound, N),
                           loc=f.loc(lp))
                else:
                    ctx.violation(f.name, "loop over %s bounded" % a,
                                  "%s() admits %d entries but %s has %d elements" % (
                                      confs[0]["fn"], bound, a, N), f.loc(lp))
    if n < 3:
        ctx.broken("only %d table-bounded loops" % n)


RULES = {"K1": rule_K1, "K2": rule_K2, "K3": rule_K3, "K4": rule_K4, "O1": rule_O1, "B7": rule_B7}
