"""S — saved-state bookkeeping; U — the edit log (DESIGN.md 3.2, 3.3)."""
from ..facts import AnalysisBroken, walk, key, cval
from ..util import (resolve_local, stores, lv_field, is_call, calls_in, refs, fact_list,
                    flatten_and, negate_truth, strip_casts)

# field -> (functions allowed to store the field itself, functions allowed to store
# elements reached through it)
LBUF_WRITERS = {
    # lbuf_unsaved (added by the D5 repair) may only make the buffer dirty: it stores a
    # negative constant, which no sequence number ever equals
    "useq_zero": ({"lbuf_saved", "lbuf_unsaved"}, set()),
    "useq_last": ({"lbuf_saved"}, set()),
    "useq": ({"lbuf_make", "lbuf_modified"}, set()),
    "hist_u": ({"lbuf_opt", "lbuf_undo", "lbuf_redo", "lbuf_saved"}, set()),
    "hist_n": ({"lbuf_opt", "lbuf_saved"}, set()),
    "ln": ({"lbuf_replace"}, {"lbuf_replace"}),
    "ln_glob": ({"lbuf_replace"}, {"lbuf_replace", "lbuf_globset", "lbuf_globget"}),
    "ln_n": ({"lbuf_replace"}, set()),
    "ln_sz": ({"lbuf_replace"}, set()),
}


def only_called_from(prog, fname, allowed, depth=4):
    """True when every (transitive) caller chain of fname ends in `allowed` without
    passing any other externally visible entry: i.e. fname is a private helper of
    the allowed functions."""
    seen = set()
    work = [fname]
    while work and depth >= 0:
        nxt = []
        for w in work:
            if w in seen:
                continue
            seen.add(w)
            callers = set()
            for f in prog.funcs.values():
                for c in f.calls(w):
                    callers.add(f.name)
                # address taken?
                for n in f.walk():
                    if n["k"] == "ref" and n["cat"] == "func" and n["name"] == w:
                        par = f.nodes.get(f.parent.get(n["id"]))
                        if not (par and par["k"] == "call" and par.get("fn") == w):
                            return False
            if not callers:
                return False
            for c in callers:
                if c not in allowed:
                    nxt.append(c)
        work = nxt
        depth -= 1
    return not work


def field_stores(prog, rec):
    """[(func, store node, field, is_element, op, rhs)] for every store (or address-of)
    of a field of struct `rec` anywhere in the program."""
    out = []
    for f in prog.funcs.values():
        for n, lv, op, rhs in stores(f.body):
            if op == "init":
                continue
            lf = lv_field(lv)
            if lf and lf[0] == rec:
                out.append((f, n, lf[1], lf[2], op, rhs))
        for n in f.walk():
            if n["k"] == "un" and n["op"] == "&" and n["e"]["k"] == "member" \
                    and n["e"].get("rec") == rec:
                out.append((f, n, n["e"]["field"], False, "&", None))
    return out


def rule_S1(ctx):
    ctx.begin("S1", floor=9, what="guarded fields of struct lbuf with a writer")
    prog = ctx.prog
    prog.record("lbuf")
    fs = field_stores(prog, "lbuf")
    seen_fields = set()
    for f, n, field, elem, op, rhs in fs:
        if field not in LBUF_WRITERS:
            continue
        allowed = LBUF_WRITERS[field][1 if elem else 0] | LBUF_WRITERS[field][0] \
            if elem else LBUF_WRITERS[field][0]
        seen_fields.add(field)
        what = "%s%s %s" % (field, "[]" if elem else "", op)
        if f.name in allowed or only_called_from(prog, f.name, allowed):
            # value constraints
            if field == "useq" and f.name == "lbuf_modified":
                good = op in ("pre++", "post++") or (
                    op == "+=" and (cval(rhs) or 0) > 0)
                if not good:
                    ctx.violation(f.name, "store useq", "the command counter must only "
                                  "be incremented in lbuf_modified (found %s)" % op, f.loc(n))
                    continue
            if field == "useq_zero" and f.name != "lbuf_saved":
                if not (op == "=" and cval(rhs) is not None and cval(rhs) < 0):
                    ctx.violation(f.name, "store useq_zero", "outside lbuf_saved the saved mark "
                                  "may only be set to a negative constant (always dirty); "
                                  "found %s %s" % (op, key(rhs)), f.loc(n))
                    continue
            if field == "useq" and f.name == "lbuf_make":
                if op != "=" or cval(rhs) is None:
                    ctx.violation(f.name, "store useq", "initial command counter is not a constant",
                                  f.loc(n))
                    continue
            ctx.ok(f.name, "store " + what, loc=f.loc(n))
        else:
            ctx.violation(f.name, "store " + field + ("[]" if elem else ""),
                          "field %s of struct lbuf is written outside %s" % (
                              field, sorted(allowed)), f.loc(n))
    missing = set(LBUF_WRITERS) - seen_fields
    if missing:
        ctx.broken("no store found for guarded fields %s" % sorted(missing))
    # lopt.seq <- lbuf_opt, value = load of useq
    n_seq = 0
    for f, n, field, elem, op, rhs in field_stores(prog, "lopt"):
        if field != "seq":
            continue
        n_seq += 1
        if f.name != "lbuf_opt" and not only_called_from(prog, f.name, {"lbuf_opt"}):
            ctx.violation(f.name, "store lopt.seq", "log sequence number written outside lbuf_opt",
                          f.loc(n))
        elif not (rhs is not None and rhs["k"] == "member" and rhs["field"] == "useq"):
            ctx.violation(f.name, "store lopt.seq", "log entry's sequence number is not the "
                          "buffer's current command counter (rhs %s)" % key(rhs), f.loc(n))
        else:
            ctx.ok(f.name, "store lopt.seq = useq", loc=f.loc(n))
    if not n_seq:
        ctx.broken("no store to lopt.seq found")
    # lbuf_saved: bump post-dominates the useq_zero store
    sv = prog.func("lbuf_saved")
    zs = [n for n, lv, op, rhs in stores(sv.body)
          if op != "init" and lv_field(lv) and lv_field(lv)[1] == "useq_zero"]
    # sequence numbers are never negative: the counter starts positive and only grows,
    # useq_last is a copy of it (so lbuf_unsaved's negative constant matches nothing)
    for f2, n2, field2, elem2, op2, rhs2 in fs:
        if field2 == "useq_last" and not (rhs2 is not None and rhs2["k"] == "member"
                                          and rhs2["field"] == "useq"):
            ctx.violation(f2.name, "store useq_last", "useq_last is not a copy of the command "
                          "counter (%s)" % key(rhs2), f2.loc(n2))
    if not zs:
        raise AnalysisBroken("lbuf_saved does not store useq_zero")
    bumps = [c for c in sv.calls("lbuf_modified")]
    for z in zs:
        if any(sv.cfg.postdominates(b, z) for b in bumps):
            ctx.ok("lbuf_saved", "bump after saved mark", loc=sv.loc(z))
        else:
            ctx.violation("lbuf_saved", "bump after saved mark",
                          "a path from the store of useq_zero to the return passes no "
                          "lbuf_modified: edits of the same command would share the saved number",
                          sv.loc(z))
    # The number recorded at a save and the number the dirty test compares with it are both "the
    # sequence number of the undo position": the log entry below the cursor when there is one,
    # else the number recorded when the log was cleared.  Judged per path with substitution, a
    # helper (lbuf_seq) inlined by its exit summaries, so ?:, if/else, locals and helpers are all
    # the same.
    from ..bounds import path_states
    from ..lin import Lin, prove_le, PROVEN

    def seq_helper(g0):
        def inl(call):
            h = prog.resolve(g0, call["fn"]) if call.get("fn") else None
            if h is None or h.file != g0.file or h is g0 or list(stores(h.body)) or len(list(h.walk())) > 80:
                return None
            return h
        return inl

    def seq_cases(g, target, expr, what):
        """[(verdict, text)] for the value of expr at target over all paths"""
        P = g.params[0]["name"]
        HU, UL = "%s->hist_u" % P, "%s->useq_last" % P
        out = []
        try:
            sts = path_states(g, target["id"], inline=seq_helper(g), init_hyps=[Lin({HU: 1})])
        except OverflowError:
            return [("und", "too many paths")]
        for subst, hyps, items in sts:
            lin_ = subst["__linfn__"]
            v = lin_(strip_casts(expr))
            hu = subst.get(HU, Lin({HU: 1}))
            ul = subst.get(UL, Lin({UL: 1}))
            if v is None or hu is None:
                out.append(("und", "value of %s not linear" % key(expr)))
                continue
            from ..lin import feasible
            for has in (True, False):
                h2 = hyps + ([hu - Lin(k=1)] if has else [hu.scale(-1)])
                if not feasible(h2):
                    continue
                if has:
                    atoms = [a_ for a_ in v.c if ".seq" in a_ and "hist[" in a_ and "hist_u" in a_ and "-1" in a_.replace(" ", "")]
                    if len(v.c) == 1 and len(atoms) == 1 and v.c[atoms[0]] == 1 and v.k == 0:
                        out.append(("ok", "entry below the cursor"))
                    else:
                        out.append(("bad", "with an entry below the undo cursor %s is %s, not hist[hist_u - 1].seq" % (what, v)))
                else:
                    if ul is not None and prove_le(v, ul, h2) == PROVEN and prove_le(ul, v, h2) == PROVEN:
                        out.append(("ok", "number recorded when the log was cleared"))
                    else:
                        out.append(("bad", "with no entry below the undo cursor %s is %s, not useq_last" % (what, v)))
        return out

    def judge(fname, g, node, cases, okmsg):
        if not cases:
            ctx.broken("%s: no path to the %s" % (fname, okmsg))
        elif any(c_[0] == "bad" for c_ in cases):
            ctx.violation(fname, "dirty test" if fname == "lbuf_modified" else "seq of undo position",
                          next(c_[1] for c_ in cases if c_[0] == "bad"), g.loc(node))
        elif any(c_[0] == "und" for c_ in cases):
            ctx.inconclusive(fname, "seq of undo position", next(c_[1] for c_ in cases if c_[0] == "und"), g.loc(node))
        else:
            ctx.ok(fname, "%s = seq of the undo position on %d paths" % (okmsg, len(cases)), loc=g.loc(node))

    for n, lv, op, rhs in stores(sv.body):
        if op == "=" and lv_field(lv) and lv_field(lv)[1] == "useq_zero":
            judge("lbuf_saved", sv, n, seq_cases(sv, n, rhs, "the number recorded at the save"), "recorded number")
    md = prog.func("lbuf_modified")
    nret = 0
    for r in md.cfg.return_nodes():
        e = strip_casts(resolve_local(md, r.get("e"))) if r.get("e") is not None else None
        if e is None or e["k"] != "bin" or e["op"] not in ("!=", "=="):
            ctx.violation("lbuf_modified", "dirty test", "the return value %s is not a comparison with the saved "
                          "number" % (key(e) if e is not None else "(none)"), md.loc(r))
            continue
        sides = [strip_casts(e["l"]), strip_casts(e["r"])]
        zs_ = [x for x in sides if x["k"] == "member" and x["field"] == "useq_zero"]
        other = [x for x in sides if not (x["k"] == "member" and x["field"] == "useq_zero")]
        if len(zs_) != 1 or len(other) != 1 or e["op"] != "!=":
            ctx.violation("lbuf_modified", "dirty test", "the return value %s is not `<seq of the undo position> != "
                          "useq_zero`" % key(e), md.loc(r))
            continue
        nret += 1
        judge("lbuf_modified", md, r, seq_cases(md, r, other[0], "the number compared with the saved one"), "compared number")
    if not nret:
        ctx.broken("lbuf_modified: no return compares with useq_zero")


def effect_callees(prog, targets, stop=("ex_command",), edge_ok=None):
    """names of functions from which any of `targets` is reachable without crossing
    `stop` functions."""
    out = {}
    for f in prog.funcs.values():
        if f.name in stop:
            continue
        r = prog.cg.reaches(f, targets, stop=set(stop) - set(targets), edge_ok=edge_ok)
        if f.name in targets:
            out[f.name] = [f.name]
        elif r:
            out[f.name] = r[1]
    return out


def call_reaches(prog, caller, call, targets, stop):
    """Does this call site (with its function-pointer bindings) reach a target?"""
    cg = prog.cg
    node = cg.node(caller)
    for cn, c in cg.edges(node):
        if c["id"] != call["id"]:
            continue
        if cn[0] == "?":
            raise AnalysisBroken("unresolved indirect call in %s" % caller.qname)
        cf = prog.funcs[cn[0]]
        if cf.name in targets:
            return [caller.name, cf.name]
        if cf.name in stop:
            continue
        r = cg.closure([cn], stop=stop)
        for t in targets:
            if t in r:
                return [caller.name] + cg.path(r, t)
    return None


def rule_S2(ctx):
    ctx.begin("S2", floor=2, what="ex_command and the vi() main loop")
    prog = ctx.prog
    ec = prog.func("ex_command")
    execs = list(ec.calls("ex_exec"))
    if not execs:
        # through a helper of the file (the nesting limit moved out): the call of the helper
        # stands for the execution
        for c_ in ec.calls():
            h_ = prog.resolve(ec, c_["fn"]) if c_.get("fn") else None
            if h_ is not None and h_.file == ec.file and h_ is not ec and any(True for _ in h_.calls("ex_exec")) and \
                    not any(True for _ in h_.calls("lbuf_modified")):
                execs.append(c_)
    if not execs:
        raise AnalysisBroken("ex_command no longer calls ex_exec")
    is_bump = lambda e: e != ("exit",) and is_call(ec.nodes.get(e), "lbuf_modified")
    # the bump may be skipped only while a global command is running (its depth counter is
    # non-zero): the global's own top-level command bumps when it is done
    depvar = None
    if prog.has_func("ec_glob"):
        for n_, lv_, op_, rhs_ in stores(prog.func("ec_glob").body):
            if lv_["k"] == "ref" and lv_.get("cat") in ("global", "sglobal", "static") and op_ in ("post++", "pre++"):
                depvar = lv_["name"]
    skip_edges = set()
    if depvar:
        from ..util import nullness
        for b_ in ec.cfg.blocks.values():
            br = ec.cfg.branch(b_.id)
            if not br:
                continue
            c_ = ec.nodes.get(br[0])
            if c_ is None:
                continue
            for truth, k_ in ((True, 0), (False, 1)):
                nn = nullness(c_, truth)
                if nn is not None and key(nn[0]) == depvar and not nn[1]:
                    skip_edges.add((b_.id, k_))          # edge on which the depth is non-zero
    for x in execs:
        after = ec.cfg.search(ec.cfg.pos(x), lambda e: e == ("exit",), avoid=is_bump,
                              edge_ok=lambda b, k, s_: (b, k) not in skip_edges)
        before_ok = any(ec.cfg.dominates(b, x) for b in ec.calls("lbuf_modified"))
        if after and not before_ok:
            ctx.violation("ex_command", "bump per top-level command",
                          "a path from ex_exec to the return passes no lbuf_modified", ec.loc(x))
        else:
            ctx.ok("ex_command", "bump per top-level command", loc=ec.loc(x))
    # vi() main loop
    vi = prog.func("vi", file="vi.c")
    cfg = vi.cfg
    loops = cfg.loops()
    main = None
    for h, body in loops.items():
        br = cfg.branch(h)
        # header condition mentions xquit
        blk = cfg.blocks[h]
        if blk.term and blk.term.get("cond"):
            c = vi.nodes.get(blk.term["cond"])
            if c and any(True for _ in refs(c, "xquit")):
                if main is None or len(body) > len(loops[main]):
                    main = h
    if main is None:
        raise AnalysisBroken("vi(): main loop on xquit not found")
    body = loops[main]
    head_ev = cfg.blocks[main].ev[0] if cfg.blocks[main].ev else None
    if head_ev is None:
        raise AnalysisBroken("vi(): loop header has no events")
    targets = ("lbuf_edit", "lbuf_undo", "lbuf_redo")
    n_eff = 0
    bump = lambda e: is_call(vi.nodes.get(e), "lbuf_modified")
    for c in vi.calls():
        p = cfg.pos(c)
        if p is None or p[0] not in body:
            continue
        if not c.get("fn"):
            continue
        path = call_reaches(prog, vi, c, targets, stop={"ex_command"})
        if not path:
            continue
        n_eff += 1
        hit = cfg.search(p, lambda e: e == head_ev, avoid=bump)
        # also accepted: a bump dominates the call inside the same iteration
        if hit is not None:
            pre = [b for b in vi.calls("lbuf_modified")
                   if cfg.pos(b) and cfg.pos(b)[0] in body and cfg.dominates(b, c)]
            if pre:
                hit = None
        if hit is not None:
            ctx.violation("vi", "bump after " + c["fn"],
                          "call %s (reaches %s) can return to the loop header without "
                          "lbuf_modified" % (c["fn"], "->".join(path)), vi.loc(c))
        else:
            ctx.ok("vi", "bump after " + c["fn"], "reaches " + path[-1], vi.loc(c))
    if n_eff < 5:
        ctx.broken("vi(): only %d editing calls found in the main loop" % n_eff)


LINE_CMDS = ["a", "i", "c", "d", "pu", "s", "g", "g!", "v", "k", "p", "=", "y", "r", ""]


def excmd_table(prog):
    g = prog.global_def("excmds")
    rows = []
    for row in g["init"]["elems"]:
        el = row["elems"]
        if el[0]["k"] == "str" and el[2]["k"] == "ref":
            rows.append((el[0]["v"], el[1]["v"], el[2]["name"]))
    if len(rows) < 40:
        raise AnalysisBroken("excmds table: only %d rows parsed" % len(rows))
    return rows


def rule_S4(ctx):
    ctx.begin("S4", floor=10, what="line-command handlers")
    prog = ctx.prog
    rows = excmd_table(prog)
    handlers = {}
    for abbr, name, fn in rows:
        if abbr in LINE_CMDS:
            handlers.setdefault(fn, []).append(abbr)
    no_dispatch = lambda f, call, cn: bool(call.get("fn"))
    for h, names in sorted(handlers.items()):
        f = prog.func(h)
        r = prog.cg.reaches(f, ["lbuf_modified"], stop={"ex_command"}, edge_ok=no_dispatch)
        if r:
            ctx.violation(h, "no sequence bump inside a line command",
                          "handler of %s reaches lbuf_modified via %s" % (
                              names, "->".join(r[1])), f.loc(f.body))
        else:
            ctx.ok(h, "no sequence bump inside a line command (%s)" % ",".join(names))
    ee = prog.func("ex_exec")
    r = prog.cg.reaches(ee, ["lbuf_modified"], stop={"ex_command"}, edge_ok=no_dispatch)
    if r:
        ctx.violation("ex_exec", "no sequence bump inside nested execution",
                      "ex_exec reaches lbuf_modified via %s" % "->".join(r[1]))
    else:
        ctx.ok("ex_exec", "no sequence bump inside nested execution")
    # nested execution in ec_glob goes through ex_exec, not ex_command
    g = prog.func("ec_glob")
    r = prog.cg.reaches(g, ["ex_command"], stop={"ex_command"}, edge_ok=no_dispatch)
    if r:
        ctx.violation("ec_glob", "nested execution without bump",
                      "ec_glob reaches ex_command via %s" % "->".join(r[1]))
    else:
        ctx.ok("ec_glob", "nested execution uses ex_exec")
    # handlers that run stored text (registers, scripts) come back through ex_command: its bump
    # must not happen while a global is running (the depth counter ec_glob raises is non-zero)
    depvar = None
    for n, lv, op, rhs in stores(g.body):
        if lv["k"] == "ref" and lv.get("cat") in ("global", "sglobal", "static") and op in ("post++", "pre++"):
            depvar = lv["name"]
    exc = prog.func("ex_command")
    reenter = [h for h in sorted({fn for abbr, name, fn in rows})
               if prog.has_func(h) and any(True for _ in prog.func(h).calls("ex_command"))]
    if reenter:
        okb = True
        for c in exc.calls("lbuf_modified"):
            guarded = False
            for cc, tt in _su_facts(exc, c):
                from ..util import nullness
                nn = nullness(cc, tt)
                if nn is not None and depvar and key(nn[0]) == depvar and nn[1]:
                    guarded = True
            if not guarded:
                okb = False
                ctx.violation("ex_command", "no sequence bump while a global runs",
                              "%s run stored text through ex_command(), whose lbuf_modified() is not under "
                              "`%s == 0`: inside :g every executed line closes the undo group, so the global "
                              "is undone piecewise" % (", ".join(reenter), depvar or "global depth"), exc.loc(c))
        if okb:
            ctx.ok("ex_command", "the bump is skipped while a global runs (%s re-enter through it)" % ", ".join(reenter))


def _su_facts(f, n):
    out = []
    for cid, truth in f.cfg.facts_at(n["id"]):
        c = f.nodes.get(cid)
        if c is not None:
            out.append(negate_truth(c, truth))
    return out


# ---------------------------------------------------------------------------------------
# U


def rule_U1(ctx):
    ctx.begin("U1", floor=3, what="callers of lbuf_replace")
    prog = ctx.prog
    prog.func("lbuf_replace")
    want = {"lbuf_edit", "lbuf_undo", "lbuf_redo"}
    found = set()
    for f in prog.funcs.values():
        for c in f.calls("lbuf_replace"):
            found.add(f.name)
            if f.name in want:
                ctx.ok(f.name, "splice primitive called", loc=f.loc(c))
            elif f.file == "lbuf.c" and only_called_from(prog, f.name, {"lbuf_undo", "lbuf_redo"}):
                # a private helper of the log replay (the replay obligations are U3's)
                found.add("lbuf_undo")
                found.add("lbuf_redo")
                ctx.ok(f.name, "splice primitive called from a helper of undo/redo only", loc=f.loc(c))
            else:
                # a new caller is fine only when it logs first (checked like U2)
                if _logged_splice(f, c):
                    ctx.ok(f.name, "splice primitive called after lbuf_opt", loc=f.loc(c))
                else:
                    ctx.violation(f.name, "splice without log",
                                  "lbuf_replace is called outside lbuf_edit/undo/redo "
                                  "without a dominating lbuf_opt with the same arguments", f.loc(c))
    for w in want - found:
        ctx.broken("%s no longer calls lbuf_replace" % w)


def _logged_splice(f, rep):
    for o in f.calls("lbuf_opt"):
        if not f.cfg.dominates(o, rep):
            continue
        if len(o["args"]) == len(rep["args"]) and all(
                key(a) == key(b) for a, b in zip(o["args"], rep["args"])):
            # no store to a variable of the arguments between the two calls
            names = {r["name"] for a in rep["args"] for r in refs(a)}
            bad = False
            for n, lv, op, rhs in stores(f.body):
                if op == "init":
                    continue
                if lv["k"] == "ref" and lv["name"] in names:
                    if f.cfg.dominates(o, n) and f.cfg.dominates(n, rep):
                        bad = True
                    elif f.cfg.search(f.cfg.pos(o), lambda e: e == n["id"]) and \
                            f.cfg.search(f.cfg.pos(n), lambda e: e == rep["id"]) and \
                            not f.cfg.dominates(n, o):
                        bad = True
            if not bad:
                return True
    return False


def rule_U2(ctx):
    ctx.begin("U2", floor=1, what="log-before-splice in lbuf_edit")
    f = ctx.prog.func("lbuf_edit")
    reps = list(f.calls("lbuf_replace"))
    if not reps:
        raise AnalysisBroken("lbuf_edit does not call lbuf_replace")
    for rep in reps:
        if _logged_splice(f, rep):
            ctx.ok("lbuf_edit", "lbuf_opt dominates lbuf_replace with equal arguments",
                   loc=f.loc(rep))
        else:
            opts = list(f.calls("lbuf_opt"))
            det = "no lbuf_opt call dominates the splice" if not any(
                f.cfg.dominates(o, rep) for o in opts) else \
                "the logged arguments differ from the spliced ones: %s vs %s" % (
                    [[key(a) for a in o["args"]] for o in opts], [key(a) for a in rep["args"]])
            ctx.violation("lbuf_edit", "log before splice", det, f.loc(rep))


def _member_of(n, base_name, field):
    return n is not None and n["k"] == "member" and n["field"] == field and \
        n["base"]["k"] == "ref" and n["base"]["name"] == base_name


def _hist_entry_index(f, lo_name):
    """How `lo` is bound: returns ('pre--'|'post++'|'u-1'|'u', node) from
    lo = &hist[...]"""
    for n, lv, op, rhs in stores(f.body):
        tgt = lv.get("name")
        if tgt != lo_name or rhs is None:
            continue
        e = rhs
        if e["k"] == "un" and e["op"] == "&" and e["e"]["k"] == "sub":
            sub = e["e"]
            if sub["base"]["k"] == "member" and sub["base"]["field"] == "hist":
                idx = sub["idx"]
                if idx["k"] == "un" and idx["op"] in ("pre--", "post++", "pre++", "post--") \
                        and idx["e"]["k"] == "member" and idx["e"]["field"] == "hist_u":
                    return idx["op"], n
                if idx["k"] == "member" and idx["field"] == "hist_u":
                    return "u", n
                if idx["k"] == "bin" and idx["op"] == "-" and idx["l"]["k"] == "member" \
                        and idx["l"]["field"] == "hist_u" and cval(idx["r"]) == 1:
                    return "u-1", n
                return "other:" + key(idx), n
    return None, None


def rule_U3(ctx):
    ctx.begin("U3", floor=8, what="log duality obligations")
    prog = ctx.prog
    opt = prog.func("lbuf_opt")
    pn = [p["name"] for p in opt.params]
    if len(pn) != 4:
        raise AnalysisBroken("lbuf_opt no longer takes (lb, buf, pos, n_del)")
    lb, buf, pos, ndel = pn
    # what lbuf_opt records
    rec = {}
    allst = {}
    for n, lv, op, rhs in stores(opt.body):
        if op == "=" and lv["k"] == "member" and lv.get("rec") == "lopt":
            allst.setdefault(lv["field"], []).append((n, rhs))
            rec[lv["field"]] = (n, rhs)
    need = {
        "pos": lambda r: r["k"] == "ref" and r["name"] == pos,
        "n_del": lambda r: r["k"] == "ref" and r["name"] == ndel,
        "del": lambda r: any(is_call(c, "lbuf_cp") and len(c["args"]) == 3 and
                             key(c["args"][1]) == pos and
                             key(c["args"][2]) in ("(%s+%s)" % (pos, ndel), "(%s+%s)" % (ndel, pos))
                             for c in calls_in(r)),
        "n_ins": lambda r: any(is_call(c, "linecount") and key(c["args"][0]) == buf
                               for c in calls_in(r)),
        "ins": lambda r: any(is_call(c, ("uc_dup", "strdup")) and key(c["args"][0]) == buf
                             for c in calls_in(r)),
    }
    from ..callgraph import is_null
    for fld, pred in need.items():
        sts = allst.get(fld, [])
        good = [x for x in sts if pred(x[1])]
        other = [x for x in sts if not pred(x[1]) and not is_null(x[1]) and cval(x[1]) != 0]
        if not sts:
            ctx.violation("lbuf_opt", "record " + fld, "log entry field %s is never stored" % fld)
        elif good and not other:
            ctx.ok("lbuf_opt", "record " + fld, loc=opt.loc(good[0][0]))
        elif other:
            ctx.violation("lbuf_opt", "record " + fld,
                          "log entry field %s is stored from %s" % (fld, key(other[0][1])),
                          opt.loc(other[0][0]))
        else:
            ctx.violation("lbuf_opt", "record " + fld, "log entry field %s only ever gets a null value" % fld,
                          opt.loc(sts[0][0]))
    # replay
    for fname, txt, cnt, kinds in (("lbuf_undo", "del", "n_ins", ("pre--", "u-1")),
                                   ("lbuf_redo", "ins", "n_del", ("post++", "u"))):
        f = prog.func(fname)
        reps = list(f.calls("lbuf_replace"))
        if not reps:
            raise AnalysisBroken("%s does not call lbuf_replace" % fname)
        for rep in reps:
            a = rep["args"]
            lo = a[1]["base"]["name"] if a[1]["k"] == "member" and a[1]["base"]["k"] == "ref" else None
            good = lo and _member_of(a[1], lo, txt) and _member_of(a[2], lo, "pos") and \
                _member_of(a[3], lo, cnt)
            if good:
                ctx.ok(fname, "replay (%s, pos, %s)" % (txt, cnt), loc=f.loc(rep))
            else:
                ctx.violation(fname, "replay arguments",
                              "expected (lo->%s, lo->pos, lo->%s), found (%s)" % (
                                  txt, cnt, ", ".join(key(x) for x in a[1:])), f.loc(rep))
                continue
            how, node = _hist_entry_index(f, lo)
            if how == "u" and fname == "lbuf_undo":
                # `hist_u -= 1; lo = &hist[hist_u]` is the same as &hist[--hist_u]
                decs = [n for n, lv, op, rhs in stores(f.body)
                        if lv_field(lv) and lv_field(lv)[1] == "hist_u" and not lv_field(lv)[2] and (
                            op in ("pre--", "post--") or (op == "-=" and cval(rhs) == 1))]
                if any(f.cfg.dominates(d_, node) and
                       any(a["id"] == loop_["id"] for a in f.ancestors(d_["id"]))
                       for d_ in decs
                       for loop_ in [x for x in f.ancestors(node["id"]) if x["k"] in ("while", "for", "do")][:1]):
                    how = "pre--"
            if how in kinds:
                if how in ("u-1", "u"):
                    # needs a separate step of hist_u in the loop
                    stepped = any(
                        lv_field(lv) and lv_field(lv)[1] == "hist_u" and
                        op in (("pre--", "post--", "-=") if fname == "lbuf_undo"
                               else ("pre++", "post++", "+="))
                        for n, lv, op, rhs in stores(f.body))
                    if not stepped:
                        ctx.violation(fname, "undo cursor step", "hist_u is not moved", f.loc(node))
                        continue
                ctx.ok(fname, "entry = hist[%s] moves the undo cursor" % how, loc=f.loc(node))
            else:
                ctx.violation(fname, "undo cursor step",
                              "log entry is selected as %s (expected %s)" % (how, "/".join(kinds)),
                              f.loc(node) if node else "")
            # loop: continues while seq equals the first entry's
            loop = None
            for anc in f.ancestors(rep["id"]):
                if anc["k"] in ("while", "for", "do"):
                    loop = anc
                    break
            if loop is None:
                ctx.violation(fname, "one step per command",
                              "the replay is not in a loop over the entries of one sequence number",
                              f.loc(rep))
                continue
            cond = loop["c"]
            seqcmp = None
            # the replay is control-dependent on `entry.seq == first seq` (loop condition or a
            # break test inside the body)
            from .w import _facts as _wf
            for cj, tj in _wf(f, rep):
                if cj["k"] == "bin" and cj["op"] in ("==", "!=") and (tj == (cj["op"] == "==")):
                    for x, y in ((cj["l"], cj["r"]), (cj["r"], cj["l"])):
                        if x["k"] == "member" and x["field"] == "seq" and y["k"] == "ref":
                            seqcmp = (x, y)
            if not seqcmp:
                # the loop's own condition (top- or bottom-tested)
                for cj in flatten_and(cond):
                    if cj["k"] == "bin" and cj["op"] == "==":
                        for x, y in ((cj["l"], cj["r"]), (cj["r"], cj["l"])):
                            if x["k"] == "member" and x["field"] == "seq" and y["k"] == "ref":
                                seqcmp = (x, y)
            if not seqcmp:
                ctx.violation(fname, "one step per command",
                              "the replay is reachable without a test that the entry's seq equals the "
                              "first entry's (loop condition %s)" % key(cond), f.loc(loop))
                continue
            x, y = seqcmp
            # y assigned from hist[...].seq with the same index expression as x
            src = None
            for n, lv, op, rhs in stores(f.body):
                if op in ("=", "init") and lv.get("name") == y["name"] and rhs is not None:
                    src = rhs
            from ..util import resolve_local
            xk = key(x)
            if x["base"]["k"] == "ref":
                # lo->seq with lo = &hist[idx]
                lo_src = resolve_local(f, x["base"])
                if lo_src["k"] == "un" and lo_src["op"] == "&":
                    xk = key(lo_src["e"]) + ".seq"
            sk = key(src) if src is not None else None
            norm = lambda k_: (k_ or "").replace("(post++", "(").replace("(pre--", "(")
            if src is not None and (sk == xk or (".seq" in sk and sk.split("[")[0] == xk.split("[")[0])):
                ctx.ok(fname, "loop while seq == first entry's seq", loc=f.loc(loop))
            else:
                ctx.violation(fname, "one step per command",
                              "%s is initialised from %s but compared with %s" % (
                                  y["name"], sk, xk), f.loc(loop))
            # bound on the cursor in the loop condition
            bound_ok = any(
                (cj["k"] == "member" and cj["field"] == "hist_u") or
                (cj["k"] == "bin" and cj["op"] in ("<", "!=", ">") and
                 any(m["k"] == "member" and m["field"] == "hist_u" for m in walk(cj)))
                for cj in flatten_and(cond))
            if bound_ok:
                ctx.ok(fname, "loop bounded by the history ends", loc=f.loc(loop))
            else:
                ctx.violation(fname, "history end test",
                              "loop condition %s has no test of hist_u against the end of "
                              "history" % key(cond), f.loc(loop))
        # fail without change at the end of history: first branch returns non-zero before any splice
        rets = [r for r in f.cfg.return_nodes()]
        early = [r for r in rets if (cval(r.get("e")) or 0) != 0 and
                 not any(f.cfg.dominates(rep, r) for rep in reps)]
        if early:
            ctx.ok(fname, "fails at the end of history before any splice", loc=f.loc(early[0]))
        else:
            ctx.violation(fname, "end of history",
                          "no failing return precedes the splice", f.loc(f.body))


def rule_U4(ctx):
    """A new edit cuts the redo branch: when lbuf_opt returns, the log holds exactly the entries
    below the old undo cursor plus the new one, and the cursor is at its head -- hist_n ==
    (hist_u on entry) + 1 and hist_u == hist_n on every path, helpers of the same file that
    store the history fields substituted by their exit summaries."""
    ctx.begin("U4", floor=1, what="redo branch cut in lbuf_opt")
    from ..bounds import path_states
    from ..lin import Lin, prove_le, PROVEN
    prog = ctx.prog
    top = prog.func("lbuf_opt")
    P = top.params[0]["name"]
    HN, HU, HS = "%s->hist_n" % P, "%s->hist_u" % P, "%s->hist_sz" % P
    HF = ("hist_n", "hist_u", "hist_sz", "hist")

    def inl(call, depth=[0]):
        g = prog.resolve(top, call["fn"]) if call.get("fn") else None
        if g is None or g.file != top.file or g is top:
            return None
        if any(lv["k"] == "member" and lv["field"] in HF for n, lv, op, rhs in stores(g.body)):
            return (g, {"inline": inl})
        return None
    init = [Lin({HU: 1}), Lin({HN: 1}) - Lin({HU: 1}), Lin({HS: 1}) - Lin({HN: 1})]
    try:
        sts = path_states(top, "exit", inline=inl, init_hyps=init)
    except OverflowError:
        raise AnalysisBroken("lbuf_opt: too many paths")
    if not sts:
        raise AnalysisBroken("lbuf_opt: no path to the exit")
    bad = und = None
    for subst, hyps, items in sts:
        N = subst.get(HN, Lin({HN: 1}))
        U = subst.get(HU, Lin({HU: 1}))
        want = Lin({HU: 1}) + Lin(k=1)
        ok = N is not None and U is not None and \
            prove_le(N, want, hyps) == PROVEN and prove_le(want, N, hyps) == PROVEN and \
            prove_le(U, N, hyps) == PROVEN and prove_le(N, U, hyps) == PROVEN
        if not ok:
            if "__havoc__" in subst or "__callhavoc__" in subst or N is None or U is None:
                und = (N, U)
            else:
                bad = (N, U)
    if bad:
        ctx.violation("lbuf_opt", "redo branch cut",
                      "on a path lbuf_opt returns with hist_n = %s and hist_u = %s (in terms of the values on entry); "
                      "a new edit must leave exactly the entries below the undo cursor plus its own: hist_n = hist_u "
                      "+ 1 and the cursor at the head, otherwise undone entries survive and a later redo replays "
                      "them over the new text" % bad, top.loc(top.body))
    elif und:
        ctx.inconclusive("lbuf_opt", "redo branch cut", "the history fields after a helper are not summarised (%s, %s)" % und,
                         top.loc(top.body))
    else:
        ctx.ok("lbuf_opt", "hist_n == hist_u(entry) + 1 and hist_u == hist_n on all %d paths" % len(sts))


RULES = {"S1": rule_S1, "S2": rule_S2, "S4": rule_S4,
         "U1": rule_U1, "U2": rule_U2, "U3": rule_U3, "U4": rule_U4}
