"""Structural clauses added after the third wave of independent breaking changes (DESIGN.md
section 7 says which change motivated which rule).  Same policy as everywhere: a violation is
reported only for a definite contradiction; an unrecognised shape is `inconclusive`."""
from ..absint import Interp, Ptr, OverRead, Unsupported, OPAQUE
from ..bounds import path_states, prove_index, nonneg_atoms
from ..cfg import enum_paths, paths_to
from ..facts import AnalysisBroken, walk, key, cval
from ..lin import Lin, linearize, cmp_constraints, prove_le, PROVEN
from ..util import (stores, lv_field, lv_var, is_call, calls_in, refs, mentions,
                    strip_casts, negate_truth, flatten_and, flatten_or, enclosing, resolve_local)
from .w import _facts


# ----------------------------------------------------------------------------------------
# B12: heap arrays hanging off a struct field: every index fits the smallest allocation


def _const_loop_bound(f, var, use):
    """for (var = a; var < K; var++) enclosing `use` with constant K and no other store to var:
    (K, loop node) or None"""
    for lp in f.walk():
        if lp["k"] != "for" or not any(x["id"] == use["id"] for x in walk(lp["body"])):
            continue
        c = lp.get("c")
        if c is None or c["k"] != "bin" or c["op"] not in ("<", "<=") or key(strip_casts(c["l"])) != var:
            continue
        K = cval(c["r"])
        if K is None:
            continue
        K = K + (1 if c["op"] == "<=" else 0)
        others = [n for n, lv, op, rhs in stores(lp["body"]) if lv["k"] == "ref" and lv["name"] == var]
        brk = [x for x in walk(lp["body"]) if x["k"] in ("break", "return", "goto")]
        if others:
            continue
        return K, lp, bool(brk)
    return None


def rule_B12(ctx):
    ctx.begin("B12", floor=2, what="indices into the saved-mark arrays of an undo record")
    prog = ctx.prog
    rec = prog.record("lopt")
    if rec is None:
        raise AnalysisBroken("struct lopt not found")
    ptr_fields = [fl["name"] for fl in rec["fields"] if fl["ty"].replace(" ", "") == "int*"]
    if not ptr_fields:
        raise AnalysisBroken("struct lopt has no int * array fields")
    for fld in ptr_fields:
        # allocations
        sizes = []
        for f in prog.funcs.values():
            for n, lv, op, rhs in stores(f.body):
                if op == "=" and lv["k"] == "member" and lv["field"] == fld and rhs is not None and \
                        lv_field(lv) and lv_field(lv)[0] == "lopt":
                    r = strip_casts(rhs)
                    if is_call(r, ("malloc", "calloc")):
                        a = resolve_local(f, r["args"][0])
                        v = cval(a)
                        if v is None:
                            sizes.append((None, f, n))
                        else:
                            sizes.append((v // 4, f, n))
        if not sizes:
            ctx.note("lopt.%s is never allocated" % fld)
            continue
        if any(s_[0] is None for s_ in sizes):
            ctx.inconclusive(sizes[0][1].name, "saved-mark array size", "allocation size of %s is not a constant" % fld,
                             sizes[0][1].loc(sizes[0][2]))
            continue
        A = min(s_[0] for s_ in sizes)
        # uses
        n_use = 0
        for f in prog.funcs.values():
            for u in f.walk():
                if u["k"] != "sub":
                    continue
                b = strip_casts(u["base"])
                if b["k"] != "member" or b["field"] != fld or not (lv_field(b) and lv_field(b)[0] == "lopt"):
                    continue
                n_use += 1
                idx = strip_casts(u["idx"])
                sites = []        # (function, node, index expression)
                if cval(idx) is not None:
                    sites.append((f, u, idx))
                elif idx["k"] == "ref" and idx.get("cat") == "param":
                    pi = [i for i, p_ in enumerate(f.params) if p_["name"] == idx["name"]]
                    for h in prog.funcs.values():
                        for c in h.calls(f.name):
                            if prog.resolve(h, f.name) is f and pi and pi[0] < len(c["args"]):
                                sites.append((h, c, strip_casts(c["args"][pi[0]])))
                    if not sites:
                        ctx.inconclusive(f.name, "saved-mark index", "no call site found", f.loc(u))
                        continue
                else:
                    sites.append((f, u, idx))
                for h, node, ie in sites:
                    v = cval(ie)
                    if v is not None:
                        if v < A:
                            ctx.ok(h.name, "%s[%d] within %d" % (fld, v, A), loc=h.loc(node))
                        else:
                            ctx.violation(h.name, "saved-mark index fits the allocation",
                                          "%s[%d] but the array has %d elements" % (fld, v, A), h.loc(node))
                        continue
                    lb = _const_loop_bound(h, key(ie), node) if ie["k"] == "ref" else None
                    if lb is not None:
                        K, lp, brk = lb
                        if K <= A:
                            ctx.ok(h.name, "%s[%s] with %s < %d <= %d allocated elements" % (fld, key(ie), key(ie), K, A),
                                   loc=h.loc(node))
                        elif not brk:
                            ctx.violation(h.name, "saved-mark index fits the allocation",
                                          "the loop runs %s up to %d but %s->%s is allocated with %d elements (%s): "
                                          "indices %d..%d are outside the block" % (
                                              key(ie), K - 1, "lo", fld, A, sizes[0][1].name, A, K - 1), h.loc(node))
                        else:
                            ctx.inconclusive(h.name, "saved-mark index", "loop with early exits", h.loc(node))
                        continue
                    vv, hy = prove_index(h, node, linearize(ie) + Lin(k=1) if linearize(ie) is not None else None,
                                         Lin(k=A)) if linearize(ie) is not None else (None, None)
                    if vv == PROVEN:
                        ctx.ok(h.name, "%s[%s] proved < %d" % (fld, key(ie), A), loc=h.loc(node))
                    else:
                        ctx.inconclusive(h.name, "saved-mark index", "index %s not bounded by a constant loop" % key(ie),
                                         h.loc(node))
        if not n_use:
            ctx.note("lopt.%s is never indexed" % fld)


# ----------------------------------------------------------------------------------------
# B13: (buffer, length) parameter pairs


def _pairs(prog):
    """(callee, index of the buffer parameter, index of its length parameter, smallest length
    passed, call sites) where every call site passes an array and a constant <= its size (or a
    null pointer with 0), or forwards its own pair."""
    from .b import fixed_arrays
    from ..callgraph import is_null
    cand = {}
    for f in prog.funcs.values():
        arrays = None
        for c in f.calls():
            g = prog.resolve(f, c["fn"]) if c.get("fn") else None
            if g is None:
                continue
            for i in range(len(c["args"]) - 1):
                if i + 1 >= len(g.params):
                    break
                if "char*" not in g.params[i]["ty"].replace(" ", "") or g.params[i + 1]["ty"] != "int":
                    continue
                a, l = strip_casts(c["args"][i]), strip_casts(c["args"][i + 1])
                if l["k"] == "sizeof" or (cval(l) is not None and "sizeof" in key(l)) or (
                        l["k"] == "int" and False):
                    if arrays is None:
                        arrays = fixed_arrays(prog, f)
                    if a["k"] == "ref" and a["name"] in arrays:
                        cand.setdefault((g.qname, i), []).append((f, c, arrays[a["name"]][0] * arrays[a["name"]][1], cval(l)))
    # fixpoint: a call site may also forward the caller's own pair
    pairs = {}
    for rnd in range(4):
        changed = False
        keys = set(cand) | {(g.qname, i) for g in prog.funcs.values() for i in range(len(g.params) - 1)
                            if "char*" in g.params[i]["ty"].replace(" ", "") and g.params[i + 1]["ty"] == "int"}
        for (q, i) in sorted(keys):
            if (q, i) in pairs:
                continue
            g = prog.funcs[q]
            sites = cand.get((q, i), [])
            allsites = []
            ok = True
            n_calls = 0
            for f in prog.funcs.values():
                for c in f.calls(g.name):
                    if prog.resolve(f, g.name) is not g or i + 1 >= len(c["args"]):
                        continue
                    n_calls += 1
                    a, l = strip_casts(c["args"][i]), strip_casts(c["args"][i + 1])
                    hit = [s_ for s_ in sites if s_[1]["id"] == c["id"] and s_[0] is f]
                    if hit:
                        allsites.append((f, c, hit[0][2], hit[0][3]))
                    elif is_null(a) and cval(l) == 0:
                        allsites.append((f, c, 0, 0))
                    elif a["k"] == "ref" and l["k"] == "ref" and a.get("cat") == "param" and l.get("cat") == "param":
                        pi = [k_ for k_, p_ in enumerate(f.params) if p_["name"] == a["name"]]
                        if pi and (f.qname, pi[0]) in pairs and f.params[pi[0] + 1]["name"] == l["name"]:
                            for s_ in pairs[(f.qname, pi[0])][3]:
                                allsites.append((s_[0], s_[1], s_[2], s_[3]))
                        else:
                            ok = False
                    else:
                        ok = False
            if ok and n_calls and allsites:
                pairs[(q, i)] = (g, i, i + 1, allsites)
                changed = True
        if not changed:
            break
    return list(pairs.values())


def rule_B13(ctx):
    ctx.begin("B13", floor=2, what="(buffer, length) parameter pairs")
    prog = ctx.prog
    pairs = _pairs(prog)
    pairset = {(g.qname, bi): li for g, bi, li, sites in pairs}
    for g, bi, li, sites in pairs:
        P, L = g.params[bi]["name"], g.params[li]["name"]
        # the callers pass no more than they have
        for f, c, asz, ln in sites:
            if ln > asz:
                ctx.violation(f.name, "length passed with the buffer",
                              "%s is given %d bytes for a buffer of %d" % (g.name, ln, asz), f.loc(c))
        nz = [ln for f, c, asz, ln in sites if ln > 0]
        if not nz:
            continue
        Lmin = min(nz)
        zero_ok = any(ln == 0 for f, c, asz, ln in sites)
        init = [Lin({L: 1}, -Lmin)] if not zero_ok else []
        # the writes
        obligations = []      # (node, description, lin of one-past-the-last byte written or None)
        for n, lv, op, rhs in stores(g.body):
            if lv["k"] == "sub" and strip_casts(lv["base"])["k"] == "ref" and strip_casts(lv["base"])["name"] == P:
                obligations.append((n, "store %s[%s]" % (P, key(lv["idx"])[:20]), ("idx", lv["idx"])))
            elif lv["k"] == "un" and lv["op"] == "*" and any(r_["name"] == P for r_ in refs(lv["e"])):
                e_ = strip_casts(lv["e"])
                if e_["k"] == "ref":
                    obligations.append((n, "store *%s" % P, ("idx0",)))
                elif e_["k"] == "bin" and e_["op"] == "+" and strip_casts(e_["l"])["k"] == "ref":
                    obligations.append((n, "store *(%s + ..)" % P, ("idx", e_["r"])))
                else:
                    obligations.append((n, "store through %s" % P, None))
            elif lv["k"] in ("ref",) and lv["name"] == P and op != "init":
                obligations.append((n, "%s itself is moved" % P, None))
        for c in g.calls():
            args = [strip_casts(a) for a in c["args"]]
            if not args or not any(r_["name"] == P for a in c["args"] for r_ in refs(a)):
                continue
            fn = c.get("fn")
            if fn in ("memcpy", "memmove", "memset") and args[0]["k"] == "ref" and args[0]["name"] == P:
                obligations.append((c, "%s(%s, .., %s)" % (fn, P, key(args[2])[:20]), ("len", args[2])))
            elif fn == "snprintf" and args[0]["k"] == "ref" and args[0]["name"] == P:
                obligations.append((c, "snprintf(%s, %s, ..)" % (P, key(args[1])[:20]), ("len", args[1])))
            elif fn in ("read", "recv", "fread") and len(args) >= 3 and args[1]["k"] == "ref" and args[1]["name"] == P:
                # read(fd, P, n) stores at most n bytes
                obligations.append((c, "%s(.., %s, %s)" % (fn, P, key(args[2])[:20]), ("len", args[2])))
            elif fn in ("strlen", "strcmp", "strncmp", "strchr", "free") or (
                    args[0]["k"] != "ref" or args[0]["name"] != P) and fn in ("memcpy", "strcpy", "strcmp"):
                continue
            else:
                h = prog.resolve(g, fn) if fn else None
                fwd = False
                if h is not None:
                    for j, a in enumerate(args):
                        if a["k"] == "ref" and a["name"] == P and (h.qname, j) in pairset and j + 1 < len(args) \
                                and key(args[j + 1]) == L:
                            fwd = True
                if fwd:
                    continue
                obligations.append((c, "%s passed to %s" % (P, fn), None))
        if not obligations:
            ctx.note("%s writes nothing through %s" % (g.name, P))
            continue
        for node, desc, ob in obligations:
            if ob is None:
                ctx.inconclusive(g.name, "write within the given length", "%s: not understood" % desc, g.loc(node))
                continue
            try:
                sts = path_states(g, node["id"], init_hyps=init)
            except OverflowError:
                ctx.inconclusive(g.name, "write within the given length", "too many paths", g.loc(node))
                continue
            bad = und = None
            for subst, hyps, items in sts:
                from .. import lin as _lin
                byid = {g.nodes[x[1]]["id"]: x[2] for x in items if x[0] == "br"}
                _lin._COND_RES[0] = byid
                try:
                    if ob[0] == "idx0":
                        end = Lin(k=1)
                    else:
                        l_ = linearize(strip_casts(ob[1]), subst)
                        end = None if l_ is None else (l_ + Lin(k=1) if ob[0] == "idx" else l_)
                finally:
                    _lin._COND_RES[0] = None
                Lnow = subst.get(L) or Lin({L: 1})
                L0 = Lin({L: 1})
                if end is None:
                    und = "not linear"
                    continue
                # the length parameter may be reused as a local (len = MIN(len - 1, n)): the bound
                # is the value passed in
                v = prove_le(end, L0, hyps + nonneg_atoms([h_ for h_ in hyps if not isinstance(h_, tuple)] + [end]))
                if v != PROVEN:
                    if "__havoc__" in subst or "__callhavoc__" in subst:
                        und = v
                    else:
                        bad = (v, items)
            if bad:
                desc2 = ", ".join("%s=%s" % (key(g.nodes[x[1]])[:24], x[2]) for x in bad[1] if x[0] == "br")[:200]
                ctx.violation(g.name, "write within the given length",
                              "%s can end past the %s bytes the caller provides (smallest call site: %d): %s" % (
                                  desc, L, Lmin, desc2), g.loc(node))
            elif und:
                ctx.inconclusive(g.name, "write within the given length", "%s: %s" % (desc, und), g.loc(node))
            elif sts:
                ctx.ok(g.name, "%s stays within %s on %d paths (callers pass >= %d)" % (desc, L, len(sts), Lmin),
                       loc=g.loc(node))


# ----------------------------------------------------------------------------------------
# W9: a function that saves a given buffer reads only that buffer


def rule_W9(ctx):
    ctx.begin("W9", floor=2, what="buffer accessors inside the save helper")
    prog = ctx.prog
    f = prog.func("lbuf_save", file="ex.c")
    lbp = [p["name"] for p in f.params if p["ty"].replace(" ", "") == "structlbuf*"]
    if len(lbp) != 1:
        raise AnalysisBroken("lbuf_save: buffer parameter not found")
    lb = lbp[0]
    n = 0
    for c in f.calls():
        g = prog.resolve(f, c["fn"]) if c.get("fn") else None
        if g is None or not g.params or g.params[0]["ty"].replace(" ", "") != "structlbuf*" or not c["args"]:
            continue
        n += 1
        a = strip_casts(c["args"][0])
        if a["k"] == "ref" and a["name"] == lb:
            ctx.ok("lbuf_save", "%s(%s, ..) reads the buffer being saved" % (c["fn"], lb), loc=f.loc(c))
        else:
            ctx.violation("lbuf_save", "save reads the buffer it was given",
                          "%s is applied to %s, not to the buffer `%s` being written: a buffer that is not "
                          "the current one (:wa / :xa / autowrite) is written with another buffer's line count" % (
                              c["fn"], key(a), lb), f.loc(c))
    if n < 2:
        raise AnalysisBroken("lbuf_save: only %d buffer accessor calls" % n)


# ----------------------------------------------------------------------------------------
# X6: a write that sends the rest of a buffer starts where the last one stopped


def rule_X6(ctx):
    ctx.begin("X6", floor=1, what="resumed write() calls")
    prog = ctx.prog
    n_sites = 0
    for f in prog.funcs.values():
        for c in f.calls("write"):
            if len(c["args"]) != 3:
                continue
            ln = strip_casts(c["args"][2])
            if ln["k"] != "bin" or ln["op"] != "-":
                continue
            done = strip_casts(ln["r"])
            if done["k"] != "ref":
                continue
            # `done` accumulates the result of this write
            acc = False
            res = None
            par = f.nodes.get(f.parent.get(c["id"]))
            while par is not None and par["k"] == "cast":
                par = f.nodes.get(f.parent.get(par["id"]))
            if par is not None and par["k"] == "var":
                res = par["name"]
            elif par is not None and par["k"] == "bin" and par["op"] == "=" and par["l"]["k"] == "ref":
                res = par["l"]["name"]
            elif par is not None and par["k"] == "bin" and par["op"] == "+=" and key(par["l"]) == done["name"]:
                acc = True
            for n, lv, op, rhs in stores(f.body):
                if lv["k"] == "ref" and lv["name"] == done["name"] and op == "+=" and rhs is not None and \
                        res is not None and key(strip_casts(rhs)) == res:
                    acc = True
            if not acc:
                continue
            n_sites += 1
            buf = strip_casts(c["args"][1])
            good = buf["k"] == "bin" and buf["op"] == "+" and (
                key(strip_casts(buf["r"])) == done["name"] or key(strip_casts(buf["l"])) == done["name"])
            if not good and buf["k"] == "un" and buf["op"] == "&" and strip_casts(buf["e"])["k"] == "sub":
                good = key(strip_casts(buf["e"])["idx"]) == done["name"]
            if good:
                ctx.ok(f.name, "write(fd, buf + %s, total - %s): resumes where the last write stopped" % (
                    done["name"], done["name"]), loc=f.loc(c))
            else:
                ctx.violation(f.name, "a resumed write continues where the last one stopped",
                              "write sends %s bytes, the rest after %s bytes already written, but starts at `%s` "
                              "and not at +%s: after a partial write the beginning is sent again" % (
                                  key(ln), done["name"], key(buf)[:30], done["name"]), f.loc(c))
    if n_sites < 1:
        raise AnalysisBroken("no accumulating write() loop found")


# ----------------------------------------------------------------------------------------
# T5: the pattern a command stores as the last keyword is the one it then compiles


def rule_T5(ctx):
    ctx.begin("T5", floor=2, what="last-keyword set / read pairs")
    prog = ctx.prog
    cg = prog.cg
    n = 0
    for fname in ("ec_substitute", "ec_glob"):
        f = prog.func(fname, file="ex.c")
        sets = list(f.calls("ex_kwdset"))
        if not sets:
            # the store may sit in a helper of the command that parses its arguments
            for c in f.calls():
                g = prog.resolve(f, c["fn"]) if c.get("fn") else None
                if g is not None and g.file == f.file and g.static and list(g.calls("ex_kwdset")) and \
                        any(key(strip_casts(a)) in [p_["name"] for p_ in f.params[2:3]] or
                            any(r_.get("cat") == "local" for r_ in refs(a)) for a in c["args"]):
                    sets.append(c)
        reads = list(f.calls("ex_kwd"))
        if not sets or not reads:
            ctx.inconclusive(fname, "own pattern compiled", "ex_kwdset / ex_kwd pair not found")
            continue
        for K in sets:
            for R in reads:
                pk, pr = f.cfg.pos(K), f.cfg.pos(R)
                if pk is None or pr is None or f.cfg.search(pk, lambda e: e == R["id"]) is None:
                    continue
                n += 1
                bad = None
                for c in f.calls():
                    if c["id"] in (K["id"], R["id"]) or not c.get("fn"):
                        continue
                    g = prog.resolve(f, c["fn"])
                    if g is None:
                        continue
                    hit = cg.reaches(g, ["ex_kwdset"], stop=set()) if g.name != "ex_kwdset" else (True, [g.name])
                    if not hit:
                        continue
                    pc = f.cfg.pos(c)
                    if pc is None:
                        continue
                    # K ... c ... R on one path
                    if f.cfg.search(pk, lambda e: e == c["id"], avoid=lambda e: e == R["id"]) is not None and \
                            f.cfg.search(pc, lambda e: e == R["id"]) is not None:
                        bad = (c, hit)
                if bad:
                    ctx.violation(fname, "own pattern compiled",
                                  "between storing its pattern with ex_kwdset and reading it back with ex_kwd the "
                                  "command calls %s, which can store another keyword (%s): an address search "
                                  "replaces the pattern the command then compiles" % (
                                      bad[0]["fn"], " -> ".join(bad[1][1]) if isinstance(bad[1], tuple) else ""),
                                  f.loc(bad[0]))
                else:
                    ctx.ok(fname, "nothing between ex_kwdset(own pattern) and ex_kwd() can store a keyword",
                           loc=f.loc(R))
    if n < 2:
        raise AnalysisBroken("only %d set/read pairs" % n)


# ----------------------------------------------------------------------------------------
# S5: every name of the global command gets the same argument split


def rule_S5(ctx):
    ctx.begin("S5", floor=1, what="argument split for the names of one handler")
    prog = ctx.prog
    tab = prog.global_def("excmds", "ex.c")
    if tab is None or tab.get("init") is None:
        raise AnalysisBroken("excmds table not found")
    names = {}
    for row in tab["init"].get("elems", []):
        cells = row.get("elems", [])
        if len(cells) < 3:
            continue
        fn = None
        for x in walk(cells[2]):
            if x["k"] == "ref" and x.get("cat") in ("func", "function") or (x["k"] == "ref" and prog.byname.get(x.get("name"))):
                fn = x["name"]
        for cell in cells[:2]:
            sv = strip_casts(cell)
            if sv["k"] == "str" and fn:
                names.setdefault(fn, []).append(sv["v"])
    if "ec_glob" not in names or len(names["ec_glob"]) < 2:
        raise AnalysisBroken("excmds: names of ec_glob not found (%s)" % sorted(names)[:5])
    f = prog.func("ex_arg", file="ex.c")
    probes = [b"/x/s/a/A/|s/b/B/\n", b"/a\"b/p|p\n", b" /x/d\n"]
    for h in ("ec_glob",):
        res = {}
        for nm in names[h]:
            outs = []
            for pr in probes:
                src = Ptr(tuple(pr) + (0,))
                try:
                    r = Interp(prog).call(f, [src, {}, Ptr(tuple(nm.encode()) + (0,))])
                except (Unsupported, OverRead) as e:
                    raise AnalysisBroken("ex_arg not evaluable: %s" % e)
                outs.append(r.off if isinstance(r, Ptr) else None)
            res[nm] = tuple(outs)
        vals = set(res.values())
        if len(vals) == 1:
            ctx.ok("ex_arg", "the %d names of %s (%s) take the same part of the line as their argument" % (
                len(res), h, ", ".join(sorted(res))))
        else:
            a = sorted(res.items(), key=lambda kv: kv[1])
            ctx.violation("ex_arg", "every name of a command gets the same argument",
                          "the command list of `%s` ends at %s but that of `%s` at %s for the same text: "
                          "one form of the global command takes the rest of the line, the other stops at '|'" % (
                              a[0][0], a[0][1], a[-1][0], a[-1][1]), f.loc(f.body))


# ----------------------------------------------------------------------------------------
# G5 / G6: buffer table lookups and numbers


def rule_G5(ctx):
    ctx.begin("G5", floor=1, what="lookups over the buffer table")
    prog = ctx.prog
    bufs = prog.global_def("bufs", "ex.c")
    N = bufs.get("arr_n") if bufs else None
    if not N:
        raise AnalysisBroken("bufs[] not found")
    n = 0
    for f in prog.funcs.values():
        if f.file != "ex.c":
            continue
        for lp in f.walk():
            if lp["k"] != "for":
                continue
            # a lookup: the body compares bufs[i].path / .id and returns or records the index
            body_nodes = list(walk(lp["body"]))
            looks = [x for x in body_nodes if x["k"] == "member" and x["field"] in ("path", "id") and
                     strip_casts(x["base"])["k"] == "sub" and key(strip_casts(strip_casts(x["base"])["base"])) == "bufs"]
            cmp_ = [x for x in body_nodes if (x["k"] == "call" and x.get("fn") == "strcmp") or
                    (x["k"] == "bin" and x["op"] == "==" and any(y["k"] == "member" and y["field"] == "id" for y in walk(x)))]
            if not looks or not cmp_:
                continue
            c = lp.get("c")
            if c is None or c["k"] != "bin" or c["op"] not in ("<", "<="):
                continue
            K = cval(c["r"])
            if K is None:
                # a computed bound: what is the largest value it can have?
                from ..bounds import call_summary
                from ..lin import prove_le as _ple
                be = strip_casts(resolve_local(f, c["r"]))
                g = prog.resolve(f, be["fn"]) if is_call(be) and be.get("fn") else None
                top = None
                if g is not None:
                    summ = call_summary(g, {}, 1, cache_key="g5")
                    if summ and all(rl is not None for su, hy, rl in summ):
                        for cand in range(N + 1):
                            if all(_ple(rl, Lin(k=cand), hy) == PROVEN for su, hy, rl in summ):
                                top = cand
                                break
                n += 1
                if top is not None and top + (1 if c["op"] == "<=" else 0) < N:
                    ctx.violation(f.name, "a lookup scans the whole table",
                                  "the search for an open buffer stops at %s, which is at most %d: slot %d of "
                                  "bufs[%d] is never looked at, so with a full table the buffer there is not "
                                  "found and its slot is recycled" % (key(c["r"]), top, N - 1, N), f.loc(lp))
                else:
                    ctx.inconclusive(f.name, "a lookup scans the whole table",
                                     "loop bound %s is not a constant" % key(c["r"]), f.loc(lp))
                continue
            K = K + (1 if c["op"] == "<=" else 0)
            init = lp.get("init")
            lo = None
            if init is not None:
                for x in walk(init):
                    if x["k"] == "bin" and x["op"] == "=" and cval(x["r"]) is not None:
                        lo = cval(x["r"])
                    if x["k"] == "var" and x.get("init") is not None and cval(x["init"]) is not None:
                        lo = cval(x["init"])
            n += 1
            if K == N and lo == 0:
                ctx.ok(f.name, "the lookup scans all %d slots" % N, loc=f.loc(lp))
            elif K > N:
                ctx.violation(f.name, "a lookup scans the whole table",
                              "the loop runs to %d but bufs[] has %d slots" % (K, N), f.loc(lp))
            elif lo is None:
                ctx.inconclusive(f.name, "a lookup scans the whole table", "start of the scan not constant", f.loc(lp))
            else:
                ctx.violation(f.name, "a lookup scans the whole table",
                              "the search for an open buffer covers slots %d..%d of %d: a buffer in a slot it "
                              "skips is not found, so an open file is opened a second time (and, with a full "
                              "table, its slot is recycled with its unsaved text)" % (lo, K - 1, N), f.loc(lp))
    if n < 1:
        raise AnalysisBroken("no lookup loop over bufs[] found")


def rule_G6(ctx):
    ctx.begin("G6", floor=2, what="stores to the buffer number counter")
    prog = ctx.prog
    n = 0
    # the counter: the global whose pre-increment is stored into bufs[..].id
    counter = None
    for f in prog.funcs.values():
        if f.file != "ex.c":
            continue
        for s_, lv, op, rhs in stores(f.body):
            if lv["k"] == "member" and lv["field"] == "id" and rhs is not None:
                r = strip_casts(rhs)
                if r["k"] == "un" and r["op"] in ("pre++", "post++") and r["e"]["k"] == "ref" and \
                        r["e"].get("cat") in ("global", "sglobal", "static"):
                    counter = r["e"]["name"]
    if counter is None:
        raise AnalysisBroken("no `.id = ++counter` store found")
    for f in prog.funcs.values():
        if f.file != "ex.c":
            continue
        for s_, lv, op, rhs in stores(f.body):
            if lv["k"] != "ref" or lv["name"] != counter or op == "init":
                continue
            n += 1
            if op in ("pre++", "post++"):
                ctx.ok(f.name, "%s only grows here" % counter, loc=f.loc(s_))
            elif op == "+=" and cval(rhs) is not None and cval(rhs) > 0:
                ctx.ok(f.name, "%s only grows here" % counter, loc=f.loc(s_))
            elif op == "=":
                # allowed after renumbering: the value is a local that numbered every live buffer
                r = strip_casts(rhs)
                renum = False
                if r["k"] == "ref" and r.get("cat") == "local":
                    for s2, lv2, op2, rhs2 in stores(f.body):
                        if lv2["k"] == "member" and lv2["field"] == "id" and rhs2 is not None:
                            r2 = strip_casts(rhs2)
                            if r2["k"] == "un" and r2["op"] in ("pre++", "post++") and key(r2["e"]) == r["name"]:
                                renum = True
                if renum or cval(r) == 0:
                    ctx.ok(f.name, "%s reset together with a renumbering of every buffer" % counter, loc=f.loc(s_))
                else:
                    ctx.inconclusive(f.name, "buffer numbers stay unique", "`%s` not understood" % key(s_), f.loc(s_))
            else:
                ctx.violation(f.name, "buffer numbers stay unique",
                              "`%s` lowers the counter that hands out buffer numbers: the next buffer gets a "
                              "number a live buffer already has, and :b N reaches only one of them" % key(s_),
                              f.loc(s_))
    if n < 2:
        raise AnalysisBroken("only %d stores to %s" % (n, counter))


# ----------------------------------------------------------------------------------------
# P2: the current-buffer pointer is not kept across a call that can switch or free buffers


def rule_P2(ctx):
    ctx.begin("P2", floor=1, what="current-buffer pointers kept in locals")
    prog = ctx.prog
    cg = prog.cg
    SWITCH = ["bufs_switch", "bufs_free", "bufs_init"]
    cache = {}

    def switches(f, call):
        fn = call.get("fn")
        g = prog.resolve(f, fn) if fn else None
        if g is None:
            return None
        if g.qname not in cache:
            cache[g.qname] = (True, [g.name]) if g.name in SWITCH else cg.reaches(g, SWITCH, stop=set())
        return cache[g.qname]
    n = 0
    for f in prog.funcs.values():
        if f.file in ("lbuf.c", "stag.c", "regex.c"):
            continue
        for v in f.walk():
            src = None
            if v["k"] == "var" and v.get("init") is not None and is_call(strip_casts(v["init"]), "ex_lbuf"):
                src, name = v, v["name"]
            elif v["k"] == "bin" and v["op"] == "=" and v["l"]["k"] == "ref" and v["l"].get("cat") == "local" \
                    and is_call(strip_casts(v["r"]), "ex_lbuf"):
                src, name = v, v["l"]["name"]
            if src is None:
                continue
            n += 1
            ps = f.cfg.pos(src)
            bad = None
            rebinds = {x["id"] for x, lv, op, rhs in stores(f.body) if lv["k"] in ("ref", "var") and
                       lv.get("name") == name and x["id"] != src["id"]}
            for c in f.calls():
                hit = switches(f, c)
                if not hit:
                    continue
                pc = f.cfg.pos(c)
                if ps is None or pc is None:
                    continue
                if f.cfg.search(ps, lambda e: e == c["id"], avoid=lambda e: e in rebinds) is None:
                    continue
                # a later use of the local
                for u in f.walk():
                    if u["k"] == "ref" and u["name"] == name and u["id"] != c["id"] and \
                            not any(x["id"] == u["id"] for a in c["args"] for x in walk(a)):
                        pu = f.cfg.pos(u)
                        if pu is None:
                            continue
                        if f.cfg.search(pc, lambda e: e == u["id"], avoid=lambda e: e in rebinds) is not None and \
                                pu != pc:
                            bad = (c, hit, u)
            if bad:
                ctx.violation(f.name, "the current buffer is looked up again after a switch",
                              "`%s` holds the current buffer from before the call of %s, which can switch or "
                              "free buffers (%s), and is used afterwards: the action lands on the buffer that "
                              "was left (or on freed memory)" % (
                                  name, bad[0]["fn"], " -> ".join(bad[1][1]) if isinstance(bad[1], tuple) else ""),
                              f.loc(bad[2]))
            else:
                ctx.ok(f.name, "`%s` is not used after a call that can switch buffers" % name, loc=f.loc(src))
    # the sequence bump after a command line uses a fresh lookup
    f = prog.func("ex_command", file="ex.c")
    ok = False
    for c in f.calls("lbuf_modified"):
        n += 1
        a = strip_casts(c["args"][0])
        if is_call(a, "ex_lbuf"):
            ok = True
            ctx.ok("ex_command", "the undo group is closed on the buffer that is current after the command",
                   loc=f.loc(c))
    if not ok and not any(r.status == "violation" and r.func == "ex_command" for r in ctx.results):
        ctx.inconclusive("ex_command", "undo group closed on the current buffer", "lbuf_modified(ex_lbuf()) not found")


# ----------------------------------------------------------------------------------------
# G7: the numbered registers are shifted as a chain that ends at the register overwritten next


def rule_G7(ctx):
    """reg_put of line-wise text into the unnamed or a letter register: afterwards "1 holds the
    new text and "k+1 holds what "k held, for k = 1..8.  reg_put is evaluated abstractly with
    the two register primitives replaced by a nine-slot model, so the loop may be spelled any
    way (for / while / helper)."""
    ctx.begin("G7", floor=1, what="numbered-register shift")
    prog = ctx.prog
    f = prog.func("reg_put", file="reg.c")
    n_eval = 0
    for c in (0, ord("a")):
        regs = {ord("1") + k: ("old", k + 1) for k in range(9)}
        log = []

        def h_get(ip, fn, e, args, env, regs=regs):
            v = regs.get(args[0])
            return Ptr((1, 0)) if v is None else _Tok(v)

        def h_put(ip, fn, e, args, env, regs=regs, log=log):
            src = args[1]
            regs[args[0]] = src.tag if isinstance(src, _Tok) else ("new",)
            log.append(args[0])
            return None
        text = Ptr((0x78, 0x0a, 0))
        try:
            Interp(prog, hooks={"reg_get": h_get, "reg_putraw": h_put}).call(f, [c, text, 1])
        except (Unsupported, OverRead) as e:
            raise AnalysisBroken("reg_put not evaluable: %s" % e)
        n_eval += 1
        bad = None
        if regs.get(ord("1")) != ("new",):
            bad = 'register "1 does not receive the new text'
        for k in range(1, 9):
            if bad is None and regs.get(ord("1") + k) != ("old", k):
                got = regs.get(ord("1") + k)
                bad = 'register "%d ends up with %s instead of the old contents of "%d' % (
                    k + 1, "the new text" if got == ("new",) else ("the old \"%d" % got[1] if got else "nothing"), k)
        if bad:
            ctx.violation("reg_put", "numbered registers shift as a chain",
                          "after a line-wise put into register %s: %s (the shift does not cover \"1..\"8 in "
                          "descending order)" % (repr(chr(c)) if c else "unnamed", bad), f.loc(f.body))
        else:
            ctx.ok("reg_put", 'line-wise put into %s: "1 = new text, "k+1 = old "k for k = 1..8 (abstract '
                   "evaluation over a nine-slot register model)" % (repr(chr(c)) if c else "the unnamed register"))
    if not n_eval:
        raise AnalysisBroken("reg_put: nothing evaluated")


class _Tok(Ptr):
    """a register's text: a non-null string tagged with where it came from"""
    def __init__(self, tag):
        Ptr.__init__(self, (0x79, 0x0a, 0))
        self.tag = tag


# ----------------------------------------------------------------------------------------
# M4: the line offset of a search belongs to its keyword


def rule_M4(ctx):
    ctx.begin("M4", floor=2, what="keyword changes in vi.c and the remembered line offset")
    prog = ctx.prog
    # the offset state: file-static ints of vi.c read in vi_search after a successful search
    vs = prog.func("vi_search", file="vi.c")
    cand = {}
    for n in vs.walk():
        if n["k"] == "ref" and n.get("cat") in ("global", "sglobal", "static") and n["name"].startswith("vi_so"):
            cand[n["name"]] = True
    flag = "vi_soset" if "vi_soset" in cand else None
    if flag is None:
        raise AnalysisBroken("vi_search: the search-offset flag was not found")

    def reads_flag(g, seen=None):
        seen = seen or set()
        if g.qname in seen:
            return False
        seen.add(g.qname)
        st_ids = set()
        for n, lv, op, rhs in stores(g.body):
            if lv["k"] == "ref" and lv["name"] == flag and op in ("=", "init"):
                st_ids.add(lv["id"])
        for n in g.walk():
            if n["k"] == "ref" and n["name"] == flag and n["id"] not in st_ids:
                return True
        return False
    n_sites = 0
    for f in prog.funcs.values():
        if f.file != "vi.c":
            continue
        for K in f.calls("ex_kwdset"):
            from ..callgraph import is_null
            if is_null(K["args"][0]):
                continue
            n_sites += 1
            pk = f.cfg.pos(K)
            if pk is None:
                continue
            store_ids = {n["id"] for n, lv, op, rhs in stores(f.body) if lv["k"] == "ref" and lv["name"] == flag}
            lv_ids = {lv["id"] for n, lv, op, rhs in stores(f.body) if lv["k"] == "ref" and lv["name"] == flag}

            def is_reader(e, f=f, K=K):
                n = f.nodes.get(e)
                if n is None or e == K["id"]:
                    return False
                if n["k"] == "ref" and n["name"] == flag and n["id"] not in lv_ids:
                    return True
                if n["k"] == "call" and n.get("fn"):
                    g = prog.resolve(f, n["fn"])
                    if g is not None and g.file == "vi.c" and reads_flag(g):
                        return True
                return False
            hit = f.cfg.search(pk, is_reader, avoid=lambda e: e in store_ids)
            if hit is not None:
                hn = f.nodes.get(hit[-1] if isinstance(hit, (list, tuple)) else hit)
                ctx.violation(f.name, "a new keyword resets the search line offset",
                              "after ex_kwdset installs a keyword here, %s is read%s before it is assigned: "
                              "the line offset typed with an earlier /pat/N search is applied to the new keyword" % (
                                  flag, " (in %s)" % hn["fn"] if isinstance(hn, dict) and hn.get("k") == "call" else ""),
                              f.loc(K))
            else:
                ctx.ok(f.name, "%s is assigned after the keyword is installed and before it is read" % flag,
                       loc=f.loc(K))
    if n_sites < 2:
        raise AnalysisBroken("only %d keyword installations in vi.c" % n_sites)


# ----------------------------------------------------------------------------------------
# N7: a slot that may hold a buffer is recycled only after its own dirty test


def rule_N7(ctx):
    """Opening a new buffer frees the slot bufs_findroom() picks; with a full table that slot
    holds a live buffer.  Every path of a command handler to that effect passes a false edge of
    bufs_modified(<the same slot>) or a documented bypass ('!' present, xwa), and the dirty edge
    fails the command."""
    ctx.begin("N7", floor=2, what="slot recycling behind the dirty test of that slot")
    from .xn import _bang_test
    from .w import fail_edge_check, ret_nonzero
    prog = ctx.prog
    bo = prog.func("bufs_open", file="ex.c")
    # the slot bufs_open recycles is what bufs_findroom returns
    room = None
    for c in bo.calls("bufs_init"):
        a = strip_casts(resolve_local(bo, c["args"][0]))
        if is_call(a) and a.get("fn"):
            room = a["fn"]
    if room is None:
        raise AnalysisBroken("bufs_open: the recycled slot is not the result of a lookup function")
    ctx.ok("bufs_open", "the recycled slot is %s()" % room)
    n_sites = 0
    for f in prog.funcs.values():
        if f.file != "ex.c" or f.name == "bufs_open":
            continue
        for e in f.calls("bufs_open"):
            n_sites += 1
            cfg = f.cfg
            ge = set()
            tests = []
            for b in cfg.blocks.values():
                br = cfg.branch(b.id)
                if not br:
                    continue
                c0 = f.nodes.get(br[0])
                if c0 is None:
                    continue
                c, t = negate_truth(c0, True)

                def edge(v, b=b, t=t):
                    return (b.id, 0 if (v == t) else 1)
                if is_call(c, "bufs_modified"):
                    a = strip_casts(resolve_local(f, c["args"][0]))
                    if is_call(a, room):
                        # nothing between the lookup and the recycling may change the table
                        ge.add(edge(False))
                        tests.append(c)
                bt = _bang_test(c, f)
                if bt and bt[0] == "!":
                    ge.add(edge(bt[1]))
                if c["k"] == "ref" and c["name"] == "xwa":
                    ge.add(edge(True))
            if not tests:
                ctx.violation(f.name, "recycled slot is tested for unsaved changes",
                              "bufs_open() reuses slot %s() -- with all slots in use a live buffer -- but no "
                              "bufs_modified(%s(), ..) test precedes it: the unsaved changes of the least "
                              "recently used buffer are discarded by :e without '!'" % (room, room), f.loc(e))
                continue
            hit = cfg.search(cfg.entry, lambda x: x == e["id"],
                             edge_ok=lambda b, k, s_: (b, k) not in ge, start_block=True)
            if hit is not None:
                ctx.violation(f.name, "recycled slot is tested for unsaved changes",
                              "bufs_open is reachable without bufs_modified(%s()) being false and without "
                              "'!' or xwa" % room, f.loc(e))
            else:
                ctx.ok(f.name, "bufs_open only past bufs_modified(%s()) == 0 or a bypass" % room, loc=f.loc(e))
            # table unchanged between the test and the effect
            for t_ in tests:
                pt = cfg.pos(t_)
                for c2 in f.calls(("bufs_switch", "bufs_free", "bufs_init", "ex_command", "ex_exec")):
                    pc = cfg.pos(c2)
                    if pt is None or pc is None or c2["id"] == e["id"]:
                        continue
                    if cfg.search(pt, lambda x, i=c2["id"]: x == i, avoid=lambda x, i=e["id"]: x == i) is not None \
                            and cfg.search(pc, lambda x, i=e["id"]: x == i) is not None:
                        ctx.violation(f.name, "recycled slot is tested for unsaved changes",
                                      "%s runs between the dirty test of the slot and bufs_open: the slot "
                                      "found then may be another one" % c2["fn"], f.loc(c2))
                fail_edge_check(ctx, f, t_, "!=0", lambda n: is_call(n, ("bufs_open", "bufs_switch")), ret_nonzero,
                                "modified victim refuses the command")
    if not n_sites:
        raise AnalysisBroken("no caller of bufs_open")


# ----------------------------------------------------------------------------------------
# X7: where append / insert / change splice


def rule_X7(ctx):
    """ec_insert: on every path to the splice, by the command letter the path tested:
    a -> (end, end) of the validated range (after the last addressed line; (0,0) for 0a),
    i -> (beg, beg), c -> (beg, end)."""
    ctx.begin("X7", floor=3, what="splice position of append / insert / change")
    from ..bounds import path_states
    prog = ctx.prog
    f = prog.func("ec_insert", file="ex.c")
    regs = list(f.calls("ex_region"))
    if len(regs) != 1:
        raise AnalysisBroken("ec_insert: ex_region call not found")
    outs = []
    for a in regs[0]["args"][1:3]:
        a = strip_casts(a)
        if a["k"] == "un" and a["op"] == "&" and a["e"]["k"] == "ref":
            outs.append(a["e"]["name"])
    if len(outs) != 2:
        raise AnalysisBroken("ec_insert: ex_region's out-parameters not found")
    bname, ename = outs
    cmdp = f.params[1]["name"]
    seen = set()
    for e in f.calls("lbuf_edit"):
        for subst, hyps, items in path_states(f, e["id"]):
            B0 = Lin({"?%s@%d" % (bname, regs[0]["id"]): 1})
            E0 = Lin({"?%s@%d" % (ename, regs[0]["id"]): 1})
            pos = linearize(strip_casts(e["args"][2]), subst)
            end = linearize(strip_casts(e["args"][3]), subst)
            letter = {}
            for x in items:
                if x[0] == "sw" and key(strip_casts(f.nodes[x[1]])) in ("%s[0]" % cmdp, "(*%s)" % cmdp):
                    for v_ in x[3]:
                        letter[chr(v_)] = (x[2] == v_)
                if x[0] != "br":
                    continue
                c = f.nodes[x[1]]
                if c["k"] == "bin" and c["op"] in ("==", "!=") and cval(c["r"]) is not None and \
                        key(strip_casts(c["l"])) in ("%s[0]" % cmdp, "(*%s)" % cmdp):
                    letter[chr(cval(c["r"]))] = (c["op"] == "==") == x[2]
            kind = "a" if letter.get("a") else ("c" if letter.get("c") else (
                "i" if letter.get("a") is False and letter.get("c") is False else None))
            if kind is None or pos is None or end is None:
                ctx.inconclusive("ec_insert", "splice position", "path not classified by the command letter", f.loc(e))
                continue
            want = {"a": (E0, E0), "i": (B0, B0), "c": (B0, E0)}[kind]
            okp = all(prove_le(x_, y_, hyps) == PROVEN and prove_le(y_, x_, hyps) == PROVEN
                      for x_, y_ in ((pos, want[0]), (end, want[1])))
            if (kind, okp) in seen:
                continue
            seen.add((kind, okp))
            names = {"a": "append", "i": "insert", "c": "change"}
            if okp:
                ctx.ok("ec_insert", "%s splices (%s, %s) of the validated range" % (
                    names[kind], "end" if kind == "a" else "beg", "beg" if kind == "i" else "end"), loc=f.loc(e))
            else:
                ctx.violation("ec_insert", "%s splices at the right line" % names[kind],
                              "for `%s` the text is spliced at (%r, %r) instead of (%s, %s) of the range ex_region "
                              "validated: %s" % (kind, pos, end, "end" if kind == "a" else "beg",
                                                  "beg" if kind == "i" else "end",
                                                  "2,3a appends after line 2 and 0a after line 1" if kind == "a" else
                                                  "other lines than the addressed ones change"), f.loc(e))
    if len({k for k, o in seen}) < 3:
        ctx.broken("ec_insert: only %s of append / insert / change classified" % sorted(k for k, o in seen))


# ----------------------------------------------------------------------------------------
# X8: a range read after a failed address resolution was set by someone


def rule_X8(ctx):
    """ex_region leaves *beg / *end untouched on some failing returns.  A caller that still
    reads them on the failure path (ec_insert recognising address 0) must have initialised
    them, otherwise the verdict on a bad address depends on stack contents."""
    ctx.begin("X8", floor=1, what="reads of the range on the failure path of ex_region")
    prog = ctx.prog
    er = prog.func("ex_region", file="ex.c")
    outs_p = [p["name"] for p in er.params[1:3]]
    # does every failing return of ex_region store both out-parameters first?
    always = True
    from ..cfg import paths_to
    from ..util import path_consistent
    for r in er.cfg.return_nodes():
        if cval(r.get("e")) == 0:
            continue
        for items in paths_to(er.cfg, er.cfg.entry, r["id"], max_paths=3000):
            stored = set()
            for x in items:
                if x[0] != "ev":
                    continue
                n = er.nodes.get(x[1])
                if n is not None and n["k"] == "bin" and n["op"] == "=" and n["l"]["k"] == "un" and \
                        n["l"]["op"] == "*" and strip_casts(n["l"]["e"])["k"] == "ref":
                    stored.add(strip_casts(n["l"]["e"])["name"])
            if not set(outs_p) <= stored:
                always = False
    n_sites = 0
    for f in prog.funcs.values():
        for c in f.calls("ex_region"):
            vars_ = []
            for a in c["args"][1:3]:
                a = strip_casts(a)
                if a["k"] == "un" and a["op"] == "&" and a["e"]["k"] == "ref":
                    vars_.append(a["e"]["name"])
            if len(vars_) != 2:
                continue
            # reads evaluated only when the call failed: the right operand of `call && ...`
            par = f.nodes.get(f.parent.get(c["id"]))
            reads = []
            if par is not None and par["k"] == "bin" and par["op"] == "&&" and \
                    any(x["id"] == c["id"] for x in walk(par["l"])):
                reads = [x for x in walk(par["r"]) if x["k"] == "ref" and x["name"] in vars_]
            if not reads:
                continue
            n_sites += 1
            inits = {v["name"] for v in f.walk() if v["k"] == "var" and v["name"] in vars_ and v.get("init") is not None}
            pre = {lv["name"] for n, lv, op, rhs in stores(f.body) if lv["k"] == "ref" and lv["name"] in vars_
                   and op == "=" and f.cfg.pos(n) is not None and f.cfg.dominates(n, c)}
            if always or set(vars_) <= (inits | pre):
                ctx.ok(f.name, "%s are set before they are read on ex_region's failure path" % ", ".join(vars_),
                       loc=f.loc(c))
            else:
                ctx.violation(f.name, "range read after a failed address is initialised",
                              "when ex_region fails early (unset mark, failed search) it stores neither bound, "
                              "yet `%s` reads %s: whether the bad address is rejected or taken for address 0 "
                              "depends on uninitialised stack contents" % (
                                  key(par["r"])[:40], ", ".join(sorted(set(vars_) - inits - pre))), f.loc(c))
    if not n_sites:
        ctx.note("no caller reads the range on the failure path")
        ctx.ok("ex_region", "no caller reads the range on the failure path")


# ----------------------------------------------------------------------------------------
# T6: every empty match is stepped over


def rule_T6(ctx):
    """In ec_substitute the one-character step that follows a zero-length match must be taken
    for an empty match at any offset: the guard of the step is implied by end == start."""
    ctx.begin("T6", floor=1, what="step after a zero-length match in ec_substitute")
    from ..lin import feasible
    prog = ctx.prog
    f = prog.func("ec_substitute", file="ex.c")
    if not any(True for _ in f.calls(("rstr_find", "rset_find"))):
        # the per-line loop may live in a helper of the file
        for c_ in f.calls():
            h_ = prog.resolve(f, c_["fn"]) if c_.get("fn") else None
            if h_ is not None and h_.file == f.file and h_ is not f and any(True for _ in h_.calls(("rstr_find", "rset_find"))):
                f = h_
                break
    offs = None
    for c in f.calls(("rstr_find", "rset_find")):
        a = strip_casts(c["args"][3])
        if a["k"] == "ref":
            offs = a["name"]
    if offs is None:
        raise AnalysisBroken("ec_substitute: matcher out-array not found")
    found = 0
    for st in f.walk():
        if st["k"] != "if" or st.get("t") is None:
            continue
        body = list(walk(st["t"]))
        # the step: the subject pointer advanced by a decoded character length
        steps = [x for x in body if x["k"] == "bin" and x["op"] == "+=" and x["l"]["k"] == "ref" and
                 x["l"].get("ptr") and any(is_call(y, "uc_len") or (y["k"] == "ref" and y.get("cat") == "local")
                                           for y in walk(x["r"]))]
        if not steps or not any(r_["name"] == offs for r_ in refs(st["c"])):
            continue
        found += 1
        s0, s1 = Lin({"%s[0]" % offs: 1}), Lin({"%s[1]" % offs: 1})
        hy = [s0, s1 - s0, s0 - s1]                       # 0 <= start == end
        neg = cmp_constraints(st["c"], False)
        if not neg and st["c"]["k"] == "bin" and st["c"]["op"] in ("==", "!="):
            ctx.inconclusive("ec_substitute", "empty match is stepped over", "guard %s not linear" % key(st["c"]))
            continue
        if feasible(hy + neg):
            ctx.violation("ec_substitute", "empty match is stepped over",
                          "the one-character step is guarded by `%s`, which is false for an empty match that "
                          "starts after offset 0 (%s[0] == %s[1] > 0): the same empty match is found again at "
                          "the same place and replaced twice" % (key(st["c"]), offs, offs), f.loc(st))
        else:
            ctx.ok("ec_substitute", "the step is taken whenever the match is empty (`%s`)" % key(st["c"]),
                   loc=f.loc(st))
    if not found:
        raise AnalysisBroken("ec_substitute: the step after a zero-length match was not found")


RULES = {"B12": rule_B12, "B13": rule_B13, "W9": rule_W9, "X6": rule_X6, "T5": rule_T5, "S5": rule_S5,
         "G5": rule_G5, "G6": rule_G6, "P2": rule_P2, "G7": rule_G7, "M4": rule_M4, "N7": rule_N7, "X7": rule_X7, "X8": rule_X8, "T6": rule_T6}
