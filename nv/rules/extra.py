"""Further structural clauses, most of them added after independent breaking changes showed a
gap (DESIGN.md section 7 lists which seeded change motivated which rule)."""
from ..absint import Interp, Ptr, OverRead, Unsupported, OPAQUE
from ..bounds import path_states, prove_index, nonneg_atoms
from ..cfg import enum_paths, paths_to
from ..facts import AnalysisBroken, walk, key, cval
from ..lin import Lin, linearize, cmp_constraints, prove_le, PROVEN
from ..util import (stores, lv_field, lv_var, is_call, calls_in, refs, mentions,
                    strip_casts, negate_truth, flatten_and, flatten_or, enclosing)
from .w import _facts, _wr_slots, _array_size


def rule_W8(ctx):
    ctx.begin("W8", floor=2, what="order of batched and direct writes; EOF indicator")
    prog = ctx.prog
    f = prog.func("lbuf_wr", file="lbuf.c")
    cfg = f.cfg
    head, body, ln, nlkey, batch, fill, counter = _wr_slots(f)
    if not (batch and fill):
        raise AnalysisBroken("lbuf_wr: batch slots not found")
    direct = [c for c in f.calls(("write_fully", "write"))
              if key(strip_casts(c["args"][1])) == ln]
    if not direct:
        ctx.ok("lbuf_wr", "no direct line writes (everything goes through the batch)")
    from ..bounds import path_states

    def fill_inline(call):
        g = prog.resolve(f, call["fn"]) if call.get("fn") else None
        if g is None or g.file != f.file or g is f:
            return None
        for a_ in call["args"]:
            a_ = strip_casts(a_)
            if a_["k"] == "un" and a_["op"] == "&" and a_["e"]["k"] == "ref" and a_["e"]["name"] == fill:
                return g
        return None

    def fill_hyps(subst):
        return [subst.get(fill) or Lin({fill: 1})]
    for d in direct:
        try:
            sts = path_states(f, d["id"], header_hyps=fill_hyps, inline=fill_inline, max_paths=4000)
        except OverflowError:
            raise AnalysisBroken("lbuf_wr: too many paths")
        bad = None
        und = False
        for subst, hyps, items in sts:
            cur = subst.get(fill) or Lin({fill: 1})
            if prove_le(cur, Lin(k=0), hyps) != PROVEN:
                if "__havoc__" in subst or "__callhavoc__" in subst:
                    und = True
                else:
                    bad = items
        if bad is not None:
            desc = ", ".join("%s=%s" % (key(f.nodes[x[1]])[:30], x[2]) for x in bad if x[0] == "br")
            ctx.violation("lbuf_wr", "a line written directly finds the batch empty",
                          "a path writes a long line straight to the file while earlier, shorter lines "
                          "may still sit in the batch (fill == 0 not implied): %s -- the file gets the "
                          "lines out of order" % desc, f.loc(d))
        elif und:
            ctx.inconclusive("lbuf_wr", "a line written directly finds the batch empty",
                             "a helper on the way is not summarised", f.loc(d))
        elif sts:
            ctx.ok("lbuf_wr", "direct write only with an empty batch (%d paths)" % len(sts), loc=f.loc(d))
    # the batch is appended at its fill position
    for c in f.calls("memcpy"):
        if mentions(c["args"][0], batch):
            if key(strip_casts(c["args"][0])) in ("(%s+%s)" % (batch, fill), "(&%s[%s])" % (batch, fill)):
                ctx.ok("lbuf_wr", "line copied to batch + fill", loc=f.loc(c))
            else:
                ctx.violation("lbuf_wr", "batch append position", "copy goes to %s" % key(c["args"][0]), f.loc(c))
    # read side: the end-of-file indicator is read()'s own result
    from .w import read_sites
    sites = read_sites(prog)
    if not sites:
        raise AnalysisBroken("lbuf_rd: read() call not found")
    for g, rd, rname, top, rtop, topnode in sites:
        if rname is None:
            raise AnalysisBroken("%s: read() result variable not found" % g.name)
        par = g.nodes.get(g.parent.get(rd["id"]))
        while par and par["k"] == "cast":
            par = g.nodes.get(g.parent.get(par["id"]))
        others = [n for n, lv, op, rhs in stores(g.body)
                  if lv["k"] in ("ref", "var") and lv.get("name") == rname and (par is None or n["id"] != par["id"])
                  and op != "init" and not (rhs is not None and is_call(strip_casts(rhs), "read"))]
        if g is not top and rtop is not None:
            tpar = top.nodes.get(top.parent.get(topnode["id"]))
            while tpar and tpar["k"] == "cast":
                tpar = top.nodes.get(top.parent.get(tpar["id"]))
            others += [n for n, lv, op, rhs in stores(top.body)
                       if lv["k"] in ("ref", "var") and lv.get("name") == rtop and
                       (tpar is None or n["id"] != tpar["id"]) and op != "init"]
        if others:
            ctx.violation("lbuf_rd", "end of file is what read() says",
                          "`%s` overwrites the result of read(): a short read is not the end of the file" % key(others[0]),
                          g.loc(others[0]))
        else:
            ctx.ok("lbuf_rd", "only read() assigns the end-of-file indicator")
        lp = enclosing(g, rd["id"], ("while", "for", "do"))
        if lp is not None and any(x["k"] in ("break", "goto") for x in walk(lp["body"])):
            ctx.violation("lbuf_rd", "read loop runs to end of file",
                          "the read loop can be left by break before read() returned 0", g.loc(lp))
        elif lp is not None:
            ctx.ok("lbuf_rd", "the read loop ends only through its condition")


def rule_U5(ctx):
    """lbuf_edit logs nothing for an edit that changes nothing: on every path to lbuf_opt, with
    the values it is actually given (after the clamps to the buffer), `no text and no line to
    delete` is impossible.  Decided over the paths with substitution, so the spelling and order
    of the tests, locals and flipped comparisons are free -- but a test made on the bounds before
    they are clamped does not help."""
    ctx.begin("U5", floor=1, what="no-op edits are recognised after clamping")
    from ..bounds import path_states
    from ..lin import feasible
    f = ctx.prog.func("lbuf_edit", file="lbuf.c")
    opts = list(f.calls("lbuf_opt"))
    if not opts:
        raise AnalysisBroken("lbuf_edit does not call lbuf_opt")
    n_p = 0
    bad = und = None
    for o in opts:
        try:
            sts = path_states(f, o["id"])
        except OverflowError:
            raise AnalysisBroken("lbuf_edit: too many paths")
        for subst, hyps, items in sts:
            n_p += 1
            lin_ = subst["__linfn__"]
            tb, nd = lin_(strip_casts(o["args"][1])), lin_(strip_casts(o["args"][3]))
            if tb is None or nd is None:
                und = "arguments of lbuf_opt not linear"
                continue
            if feasible(list(hyps) + [tb, tb.scale(-1), nd, nd.scale(-1)]):
                if "__havoc__" in subst or "__callhavoc__" in subst:
                    und = "a path with unknown values"
                else:
                    bad = items
    if bad is not None:
        desc = ", ".join("%s=%s" % (key(f.nodes[x[1]])[:30], x[2]) for x in bad if x[0] == "br")
        ctx.violation("lbuf_edit", "no-op edit leaves no history entry",
                      "a path reaches lbuf_opt on which `no text and nothing to delete` is still possible for the "
                      "values it is given (%s): an empty delete -- also one past the end of the buffer, empty only "
                      "after the bounds are clamped -- would push an undo step and cut the redo branch" % desc,
                      f.loc(opts[0]))
    elif und:
        ctx.inconclusive("lbuf_edit", "no-op edit leaves no history entry", und, f.loc(opts[0]))
    else:
        ctx.ok("lbuf_edit", "on all %d paths to lbuf_opt the edit is not a no-op, judged on the clamped values" % n_p)


def rule_X5(ctx):
    ctx.begin("X5", floor=1, what="pattern-address scan vs its success test")
    from ..lin import feasible
    f = ctx.prog.func("ex_search", file="ex.c")
    loop = None
    for c in f.calls(("rstr_find", "rset_find")):
        loop = enclosing(f, c["id"], ("while", "for"))
    if loop is None:
        # the scan may sit in a helper of ex_search: the same obligation holds there
        top = f
        for c0 in top.calls():
            g = ctx.prog.resolve(top, c0["fn"]) if c0.get("fn") else None
            if g is None or g.file != top.file:
                continue
            for c in g.calls(("rstr_find", "rset_find")):
                lp = enclosing(g, c["id"], ("while", "for"))
                if lp is not None:
                    f, loop = g, lp
    cfg = f.cfg
    if loop is None or loop.get("c") is None:
        raise AnalysisBroken("ex_search: scan loop not found")
    # the loop is left either by `break` (a row matched) or because its condition failed
    # (rows exhausted).  After exhaustion no return may yield a row: every path from a false
    # edge of the loop condition to a return of a possibly non-negative value is infeasible.
    leaves = flatten_and(loop["c"])
    n_paths = 0
    bad = None
    for leaf in leaves:
        blk = cfg.branch_of_cond(leaf["id"])
        if blk is None:
            continue
        start = blk.succ[1]
        for items, end in enum_paths(cfg, start, set()):
            if end != cfg.exit:
                continue
            rets = [f.nodes.get(x[1]) for x in items if x[0] == "ev" and f.nodes.get(x[1], {}).get("k") == "return"]
            if not rets:
                continue
            r = rets[-1]
            hyps = cmp_constraints(leaf, False)
            for x in items:
                if x[0] == "br":
                    hyps += cmp_constraints(f.nodes[x[1]], x[2])
            e = strip_casts(r["e"])
            arms = []
            if e["k"] == "cond":
                arms = [(e["t"], cmp_constraints(e["c"], True)), (e["f"], cmp_constraints(e["c"], False))]
            else:
                arms = [(e, [])]
            for val, extra in arms:
                v = cval(val)
                if v is not None and v < 0:
                    continue
                n_paths += 1
                if feasible(hyps + extra):
                    bad = (leaf, r)
    if bad:
        ctx.violation(f.name, "scan bound equals the success test",
                      "after the scan ran out of rows (`%s` false) the function can still return a row: a "
                      "line the scan never tested is reported as a match" % key(bad[0]), f.loc(bad[1]))
    elif n_paths:
        ctx.ok("ex_search", "a row is returned only when the scan stopped on a match (%d exhausted-scan "
               "paths are infeasible)" % n_paths)
    else:
        ctx.ok("ex_search", "after an exhausted scan only negative values are returned")


def rule_V4(ctx):
    ctx.begin("V4", floor=3, what="recording of commands for repeat")
    prog = ctx.prog
    vi = prog.func("vi", file="vi.c")
    cfg = vi.cfg
    from .gv import _main_loop
    head, body = _main_loop(vi)
    br = cfg.branch(head)
    cuts = [c for c in vi.calls("term_cmd") if cfg.pos(c) and cfg.pos(c)[0] in body]
    reads = [c for c in vi.calls(("vi_yankbuf", "vi_prefix", "vi_motion", "vi_read"))
             if cfg.pos(c) and cfg.pos(c)[0] in body]
    if not cuts or not reads:
        raise AnalysisBroken("vi(): term_cmd / key reads not found in the main loop")
    first = [r for r in reads if not any(cfg.dominates(o, r) for o in reads if o["id"] != r["id"])]
    is_cut = lambda e: is_call(vi.nodes.get(e), "term_cmd")
    for r in first:
        hit = cfg.search(br[1], lambda e: e == r["id"], avoid=is_cut, start_block=True,
                         edge_ok=lambda b, k, s: s != head)
        if hit is not None:
            ctx.violation("vi", "the record is cut at the start of every command",
                          "an iteration can reach the first key read (%s) without term_cmd(): keys of a "
                          "failed motion or an ignored key stay in the record and are replayed by `.`" % r["fn"],
                          vi.loc(r))
        else:
            ctx.ok("vi", "term_cmd() precedes the first key read of every iteration", loc=vi.loc(r))
    # the recording buffer is at least as large as the repeat buffer, so the truncation test
    # on the repeat copy also detects a truncated record
    icmd = prog.global_def("icmd", file="term.c")
    rep = prog.global_def("rep_cmd", file="vi.c")
    if icmd["arr_n"] >= rep["arr_n"]:
        ctx.ok("term.c/vi.c", "recording buffer (%d) >= repeat buffer (%d)" % (icmd["arr_n"], rep["arr_n"]))
    else:
        ctx.violation("term.c/vi.c", "recording buffer at least as large as the repeat buffer",
                      "icmd[%d] silently truncates records that still pass the `n + 1 < sizeof(rep_cmd)` "
                      "(%d) test: `.` replays a cut command" % (icmd["arr_n"], rep["arr_n"]))
    # term_read records every key it returns
    tr = prog.func("term_read", file="term.c")
    rec = [n for n, lv, op, rhs in stores(tr.body) if lv["k"] == "sub" and key(lv["base"]) == "icmd"]
    rets = [r for r in tr.cfg.return_nodes() if r.get("e") is not None and cval(r["e"]) is None]
    if rec and rets and all(key(strip_casts(rc["r"])) == key(strip_casts(rt["e"])) for rc in rec for rt in rets):
        ctx.ok("term_read", "the key returned is the key recorded")
    else:
        ctx.violation("term_read", "every key read is recorded", "recorded %s, returned %s" % (
            [key(x["r"]) for x in rec], [key(x["e"]) for x in rets]))
    # vc_execute / vc_repeat push the whole text: length = strlen of what is pushed (T4 covers units)
    for fn in ("vc_execute", "vc_repeat"):
        g = prog.func(fn, file="vi.c")
        for c in g.calls("term_push"):
            a0, a1 = strip_casts(c["args"][0]), strip_casts(c["args"][1])
            if (is_call(a1, "strlen") and key(a1["args"][0]) == key(a0)) or (
                    key(a0) == "rep_cmd" and key(a1) == "rep_len"):
                ctx.ok(fn, "pushes all of %s" % key(a0), loc=g.loc(c))
            else:
                ctx.violation(fn, "push length is the text length",
                              "term_push(%s, %s)" % (key(a0), key(a1)), g.loc(c))


def rule_R9(ctx):
    ctx.begin("R9", floor=2, what="parser/emitter/matcher agreements in regex.c")
    prog = ctx.prog
    # every repetition operator binds to the last character of a literal run: the parser is
    # evaluated abstractly on `ab<op>` and the repeated atom must be exactly "b"
    from .r import _parse_probe, _quantified_literals
    bad = None
    n_ok = 0
    for pat in (b"ab*", b"ab?", b"ab+", b"ab{2}", b"ab{1,2}", b"abc*d"):
        try:
            tree, rest, err = _parse_probe(prog, pat)
        except (Unsupported, OverRead) as e:
            ctx.inconclusive("ratom_read", "literal run ends before a repetition operator",
                             "parser not evaluable on %r: %s" % (pat, e))
            bad = "skip"
            break
        lits = _quantified_literals(tree) if isinstance(tree, dict) else None
        want = [b"c"] if pat == b"abc*d" else [b"b"]
        if lits != want:
            bad = (pat, lits)
            break
        n_ok += 1
    if bad is None:
        ctx.ok("ratom_read", "in ab*, ab?, ab+, ab{2}, ab{1,2}, abc*d the repetition applies to the last "
               "character only (parser evaluated abstractly)")
    elif bad != "skip":
        ctx.violation("ratom_read", "literal run ends before a repetition operator",
                      "in the pattern %r the repeated atom is %s, not the single character before the "
                      "operator: the whole run is repeated" % (bad[0].decode(), bad[1]))
    # an empty alternative is an alternative: the tree keeps one ALT node per `|`
    def n_alt(t):
        c_ = 0
        st_ = [t]
        while st_:
            x_ = st_.pop()
            if isinstance(x_, dict):
                if x_.get("rn") == ord("|"):
                    c_ += 1
                st_ += [x_.get("c1"), x_.get("c2")]
        return c_
    alt_bad = None
    for pat, want in ((b"(a|)b", 1), (b"(|a)b", 1), (b"a|", 1), (b"a||b", 2), (b"(a|b|)c", 2), (b"a|b", 1)):
        try:
            tree, rest, err = _parse_probe(prog, pat)
        except (Unsupported, OverRead) as e:
            alt_bad = "skip"
            ctx.inconclusive("rnode_parse", "empty alternatives are kept", "parser not evaluable on %r: %s" % (pat, e))
            break
        got = n_alt(tree) if isinstance(tree, dict) else -1
        if got != want and alt_bad is None:
            alt_bad = (pat, got, want)
    if alt_bad is None:
        ctx.ok("rnode_parse", "one alternation node per `|`, also for an empty first or last alternative")
    elif alt_bad != "skip":
        ctx.violation("rnode_parse", "empty alternatives are kept",
                      "the pattern %r is parsed with %d alternation(s) instead of %d: an empty alternative is "
                      "dropped, so (a|)b does not match `b`" % (alt_bad[0].decode(), alt_bad[1], alt_bad[2]))
    # brk_match evaluates a named class with the caller's flags
    bm = prog.func("brk_match", file="regex.c")
    flg = bm.params[2]["name"]
    for c in bm.calls("brk_match"):
        if key(strip_casts(c["args"][2])) == flg:
            ctx.ok("brk_match", "class expansion is matched with the caller's flags", loc=bm.loc(c))
        else:
            ctx.violation("brk_match", "class expansion keeps the flags",
                          "the recursive call passes %s instead of %s: case folding is applied to the "
                          "character but not to the class" % (key(c["args"][2]), flg), bm.loc(c))
    # (that the marks are reset for every start position is rule R12)


def rule_G4(ctx):
    ctx.begin("G4", floor=3, what="growth copies move whole elements")
    prog = ctx.prog
    from .b import _pointee_size
    n = 0
    anchors = [("lbuf_replace", "lbuf.c"), ("lbuf_opt", "lbuf.c"), ("sbuf_extend", "sbuf.c")]
    todo = []
    for fname, file in anchors:
        f0 = prog.func(fname, file=file)
        todo.append(f0)
        # the growth may live in a helper of the file that the anchor calls
        for c_ in f0.calls():
            h_ = prog.resolve(f0, c_["fn"]) if c_.get("fn") else None
            if h_ is not None and h_.file == f0.file and h_ is not f0 and h_ not in todo and h_.static and \
                    any(True for _ in h_.calls("malloc")) and any(True for _ in h_.calls(("memcpy", "memmove"))) and \
                    (h_.name, h_.file) not in anchors:
                todo.append(h_)
    for f in todo:
        fname = f.name
        news = {}
        for s, lv, op, rhs in stores(f.body):
            if op in ("=", "init") and rhs is not None and is_call(strip_casts(rhs), "malloc"):
                nm = lv["name"] if lv["k"] in ("ref", "var") else key(lv)
                esz = _pointee_size(prog, lv.get("ty", ""))
                if esz:
                    news[nm] = esz
        for c in f.calls(("memcpy", "memmove")):
            d = key(strip_casts(c["args"][0]))
            if d not in news:
                continue
            n += 1
            esz = news[d]
            l = linearize(strip_casts(c["args"][2]))
            if l is None or l.k != 0 or len(l.c) != 1:
                ctx.inconclusive(fname, "growth copy length", key(c["args"][2]), f.loc(c))
                continue
            (atom, coef), = l.c.items()
            if coef == esz:
                ctx.ok(fname, "copy into %s moves %s whole %d-byte elements" % (d, atom, esz), loc=f.loc(c))
            else:
                ctx.violation(fname, "growth copy moves whole elements",
                              "the copy into the enlarged %s moves %s x %d bytes but an element has %d: "
                              "old entries are lost at each growth" % (d, atom, coef, esz), f.loc(c))
    if n < 3:
        ctx.broken("only %d growth copies" % n)


def rule_N6(ctx):
    ctx.begin("N6", floor=2, what=":b - / :b + select the nearest lower / higher buffer")
    f = ctx.prog.func("ec_buffer", file="ex.c")
    found = {}
    for lp in f.walk():
        if lp["k"] != "for":
            continue
        conds = [x for x in walk(lp["body"]) if x["k"] == "bin" and x["op"] in ("<", ">") and
                 x["l"]["k"] == "member" and x["l"]["field"] == "id" and x["r"]["k"] == "member"]
        if len(conds) != 2:
            continue
        vs_cur = [c for c in conds if "bufs[0]" in key(c["r"])]
        vs_best = [c for c in conds if "bufs[0]" not in key(c["r"])]
        if len(vs_cur) == 1 and len(vs_best) == 1:
            facts = [key(cc) for cc, t in _facts(f, lp) if t]
            sel = "-" if any("==45" in k_ for k_ in facts) else "+" if any("==43" in k_ for k_ in facts) else "?"
            found[sel] = (vs_cur[0]["op"], vs_best[0]["op"], lp)
    for sel, want in (("-", ("<", ">")), ("+", (">", "<"))):
        if sel not in found:
            ctx.inconclusive("ec_buffer", ":b %s selection" % sel, "branch not recognised")
            continue
        got = found[sel][:2]
        if got == want:
            ctx.ok("ec_buffer", ":b %s takes the nearest buffer (id %s current, %s best so far)" % (sel, got[0], got[1]))
        else:
            ctx.violation("ec_buffer", ":b %s reaches the neighbouring buffer" % sel,
                          "candidates are filtered with id %s current but ranked with id %s best: that is "
                          "the farthest buffer, not the nearest" % got, f.loc(found[sel][2]))


def rule_V6(ctx):
    ctx.begin("V6", floor=1, what="ren_noeol clamps off the terminator")
    f = ctx.prog.func("ren_noeol", file="ren.c")
    o = f.params[1]["name"]
    nvar = None
    for n, lv, op, rhs in stores(f.body):
        if rhs is not None and "uc_slen" in key(rhs) and lv["k"] in ("ref", "var"):
            nvar = lv["name"]
    if nvar is None:
        raise AnalysisBroken("ren_noeol: character count variable not found")
    bad = None
    n_p = 0
    for r in f.cfg.return_nodes():
        for subst, hyps, items in path_states(f, r["id"], init_hyps=[Lin({nvar: 1})]):
            n_p += 1
            # value of the return expression: resolve ?: on the path, else both arms
            e = strip_casts(r["e"])
            vals = []
            byid = {f.nodes[x[1]]["id"]: x[2] for x in items if x[0] == "br"}
            if e["k"] == "cond":
                arms = [e["t"], e["f"]]
            else:
                arms = [e]
            for a in arms:
                l = linearize(strip_casts(a), subst)
                if l is not None:
                    vals.append(l)
            N = subst.get(nvar) or Lin({nvar: 1})
            for v in vals:
                # v <= n - 1 (n >= 1)  or  v <= 0 (n == 0)
                v1 = prove_le(v + Lin(k=1), N, hyps)
                v2 = prove_le(v, Lin(k=0), hyps)
                if v1 != PROVEN and v2 != PROVEN:
                    bad = (v, items)
    if bad:
        desc = ", ".join("%s=%s" % (key(f.nodes[x[1]])[:24], x[2]) for x in bad[1] if x[0] == "br")
        ctx.violation("ren_noeol", "offset clamped before the terminator",
                      "a path returns %r, which is not shown to be < the character count (or 0 for an "
                      "empty line): %s" % (bad[0], desc))
    else:
        ctx.ok("ren_noeol", "returned offset < character count (or 0) on %d paths" % n_p)


def rule_G3(ctx):
    ctx.begin("G3", floor=1, what="marks outside a spliced range keep their line")
    prog = ctx.prog
    f = prog.func("lbuf_replace", file="lbuf.c")
    loop = None
    for lp in f.walk():
        if lp["k"] == "for" and any(lv_field(lv) and lv_field(lv)[1] == "mark" and lv_field(lv)[2]
                                    for n, lv, op, rhs in stores(lp["body"])):
            loop = lp
    if loop is None:
        raise AnalysisBroken("lbuf_replace: mark relocation loop not found")
    pn = [p["name"] for p in f.params]
    lb, sname, pos, ndel = pn
    nins = None
    for n in f.walk():
        if n["k"] == "var" and n.get("init") is not None and is_call(strip_casts(n["init"]), "linecount"):
            nins = n["name"]
        if n["k"] == "bin" and n["op"] == "=" and n["l"]["k"] == "ref" and is_call(strip_casts(n["r"]), "linecount"):
            nins = n["l"]["name"]
    if nins is None:
        raise AnalysisBroken("lbuf_replace: inserted-line count not found")
    rec = prog.record("lbuf")
    NM = [x for x in rec["fields"] if x["name"] == "mark"][0]["arr_n"]
    bad = None
    n_eval = 0
    for p_ in range(0, 4):
        for d_ in range(0, 3):
            for i_ in range(0, 3):
                for has_s in (0, 1):
                    if not has_s and i_:
                        continue
                    for m in range(0, 8):
                        marks = {k: -1 for k in range(NM)}
                        marks[0] = m
                        env = {lb: {"mark": marks}, sname: (Ptr((0x61, 0)) if has_s else None),
                               pos: p_, ndel: d_, nins: i_, "i": 0}
                        # locals computed from these before the loop (int diff = n_ins - n_del; ..)
                        ip_ = Interp(prog)
                        for st_ in f.body.get("body", []):
                            if st_ is loop:
                                break
                            if st_ is None or st_["k"] != "decl":
                                continue
                            for v_ in st_["vars"]:
                                if "init" not in v_ or v_["name"] in env or any(True for _ in calls_in(v_["init"])):
                                    continue
                                try:
                                    val_ = ip_.expr(f, v_["init"], env, 0)
                                except Unsupported:
                                    continue
                                if isinstance(val_, int):
                                    env[v_["name"]] = val_
                        try:
                            Interp(prog).stmt(f, loop, env, 0)
                        except Unsupported as e:
                            raise AnalysisBroken("mark loop not evaluable: %s" % e)
                        n_eval += 1
                        got = marks[0]
                        if m < p_:
                            want = m
                        elif m >= p_ + d_:
                            want = m + i_ - d_
                        else:
                            continue       # inside the replaced range: not stated by the property
                        if got != want and bad is None:
                            bad = (m, p_, d_, i_, got, want)
                        if any(marks[k] != -1 for k in range(1, NM)) and bad is None:
                            bad = ("unset", p_, d_, i_, "set", "unset")
    if bad:
        ctx.violation("lbuf_replace", "a mark outside the edited range follows its line",
                      "mark on line %s, replacing %d line(s) at %d by %d: the mark becomes %s, its line is "
                      "now %s" % (bad[0], bad[2], bad[1], bad[3], bad[4], bad[5]), f.loc(loop))
    else:
        ctx.ok("lbuf_replace", "marks before the range stay, marks after it shift by n_ins - n_del "
               "(%d cases by abstract evaluation of the relocation loop)" % n_eval, loc=f.loc(loop))


def _null_consistent(f, items):
    """prune paths that test a variable as NULL after assigning it a string literal (or as
    non-NULL after assigning NULL) with no store in between"""
    from ..util import nullness
    from ..callgraph import is_null
    state = {}
    for it in items:
        if it[0] == "ev":
            n = f.nodes.get(it[1])
            if n is None:
                continue
            tgt = rhs = None
            if n["k"] == "bin" and n["op"] == "=" and n["l"]["k"] == "ref":
                tgt, rhs = n["l"]["name"], strip_casts(n["r"])
            elif n["k"] == "var" and "init" in n:
                tgt, rhs = n["name"], strip_casts(n["init"])
            if tgt is None:
                continue
            if rhs is not None and rhs["k"] == "str":
                state[tgt] = False
            elif rhs is not None and is_null(rhs):
                state[tgt] = True
            else:
                state.pop(tgt, None)
        elif it[0] == "br":
            nn = nullness(f.nodes[it[1]], it[2])
            if nn is not None and nn[0]["k"] == "ref" and nn[0]["name"] in state:
                if state[nn[0]["name"]] != nn[1]:
                    return False
    return True


def rule_M3(ctx):
    ctx.begin("M3", floor=1, what="a failed search leaves the cursor where it was")
    f = ctx.prog.func("vi_search", file="vi.c")
    cfg = f.cfg
    from .w import result_test
    outs = [p["name"] for p in f.params if p["ty"] == "int *"]
    calls = list(f.calls("lbuf_search"))
    if not calls:
        raise AnalysisBroken("vi_search does not call lbuf_search")
    for c in calls:
        rt = result_test(f, c, "!=0")
        if rt[0] != "branch":
            ctx.violation("vi_search", "search failure is tested", "result of lbuf_search: %s" % rt[0], f.loc(c))
            continue
        _, bid, k, cond = rt
        start = cfg.blocks[bid].succ[k]
        bad = None
        n_p = 0
        try:
            paths = enum_paths(cfg, start, set(), max_paths=3000)
        except OverflowError:
            ctx.inconclusive("vi_search", "failed search", "too many paths")
            continue
        for items, end in paths:
            if end != cfg.exit or not _null_consistent(f, items):
                continue
            n_p += 1
            for x in items:
                if x[0] != "ev":
                    continue
                n = f.nodes.get(x[1])
                if n is not None and n["k"] == "bin" and n["op"] in ("=", "+=", "-=") and \
                        n["l"]["k"] == "un" and n["l"]["op"] == "*" and key(n["l"]["e"]) in outs:
                    bad = n
            rets = [f.nodes[x[1]] for x in items if x[0] == "ev" and f.nodes.get(x[1], {}).get("k") == "return"]
            if rets and cval(rets[-1].get("e")) == 0:
                bad = rets[-1]
        if bad is not None:
            ctx.violation("vi_search", "a failed search leaves the cursor where it was",
                          "after lbuf_search failed (also on a later round of a counted search) `%s` is "
                          "reachable: the cursor moves although the search as a whole failed" % key(bad)[:50],
                          f.loc(bad))
        elif n_p:
            ctx.ok("vi_search", "on %d paths after a failed lbuf_search neither *row nor *off is stored "
                   "and no success is returned" % n_p, loc=f.loc(c))
        else:
            ctx.inconclusive("vi_search", "failed search", "no path from the failing edge recognised")


def rule_K5(ctx):
    ctx.begin("K5", floor=2, what="a character's width is taken at the column it is placed at")
    prog = ctx.prog
    n = 0
    for f in prog.funcs.values():
        if f.file != "ren.c":
            continue
        for s_, lv, op, rhs in stores(f.body):
            if op != "+=" or lv["k"] != "ref" or rhs is None:
                continue
            r = strip_casts(rhs)
            if not is_call(r, "ren_cwid"):
                continue
            n += 1
            acc = lv["name"]
            col = key(strip_casts(r["args"][1]))
            # the position stored for that character in the same loop body
            lp = enclosing(f, s_["id"], ("for", "while"))
            stored = [key(strip_casts(x_rhs)) for x, x_lv, x_op, x_rhs in stores(lp["body"] if lp else f.body)
                      if x_lv["k"] == "sub" and x_op == "=" and x_rhs is not None and
                      key(strip_casts(x_lv["base"])) == "pos"]
            # the character measured is the one being placed: pos[X] = col next to ren_cwid(chrs[Y], ..)
            # needs X == Y when both are subscripts (locals resolved)
            from ..util import resolve_local
            placed = [x_lv for x, x_lv, x_op, x_rhs in stores(lp["body"] if lp else f.body)
                      if x_lv["k"] == "sub" and x_op == "=" and x_rhs is not None and
                      key(strip_casts(x_lv["base"])) == "pos" and key(strip_casts(x_rhs)) == acc]
            who = strip_casts(r["args"][0])
            mism = None
            if placed and who["k"] == "sub":
                ix = key(strip_casts(resolve_local(f, strip_casts(placed[0]["idx"]))))
                iy = key(strip_casts(resolve_local(f, strip_casts(who["idx"]))))
                if ix != iy:
                    mism = (ix, iy)
            if mism:
                ctx.violation(f.name, "the character measured is the one placed",
                              "column `%s` is stored for character [%s] but advanced by the width of character [%s]: "
                              "on a reordered line with a tab or a wide character the cells overlap" % (acc, mism[0], mism[1]),
                              f.loc(s_))
            elif col == acc and (not stored or all(v == acc for v in stored)):
                ctx.ok(f.name, "width of each character computed at the running column `%s` it is placed at" % acc,
                       loc=f.loc(s_))
            else:
                ctx.violation(f.name, "cell widths tile from the running column",
                              "the running column `%s` is advanced by ren_cwid(.., %s) while the character is "
                              "placed at %s: a tab or placeholder gets the width of another column" % (
                                  acc, col, stored or acc), f.loc(s_))
    if n < 2:
        ctx.broken("only %d layout accumulations found" % n)


def rule_O2(ctx):
    ctx.begin("O2", floor=1, what="nested marks recurse with their own direction")
    f = ctx.prog.func("dir_fix", file="dir.c")
    if not any(True for _ in f.calls("dir_match")):
        # the loop body may live in a helper of the file that gets the same context direction
        for c_ in f.calls():
            h_ = ctx.prog.resolve(f, c_["fn"]) if c_.get("fn") else None
            if h_ is not None and h_.file == f.file and h_ is not f and any(True for _ in h_.calls("dir_match")) and \
                    len(h_.params) > 2 and len(c_["args"]) > 2 and key(strip_casts(c_["args"][2])) == f.params[2]["name"]:
                f = h_
                break
    own_dir = f.params[2]["name"]
    # the out-variable that dir_match fills with the matched mark's direction
    mdir = None
    dm = ctx.prog.func("dir_match", file="dir.c")
    dpos = [i for i, p in enumerate(dm.params) if p["name"] == "dir"]
    for c in f.calls("dir_match"):
        if dpos and dpos[0] < len(c["args"]):
            a = strip_casts(c["args"][dpos[0]])
            if a["k"] == "un" and a["op"] == "&":
                mdir = key(a["e"])
    if mdir is None:
        raise AnalysisBroken("dir_fix: direction out-argument of dir_match not found")
    rec = list(f.calls("dir_fix"))
    if not rec:
        ctx.inconclusive("dir_fix", "nested marks", "no recursive call")
        return
    for c in rec:
        a = key(strip_casts(c["args"][2]))
        if a == mdir:
            ctx.ok("dir_fix", "nested group is fixed with the matched mark's direction `%s`" % mdir, loc=f.loc(c))
        elif a == own_dir:
            ctx.violation("dir_fix", "nested mark keeps its own direction",
                          "the recursive call passes the enclosing context `%s` instead of the direction `%s` "
                          "of the matched mark: a nested group in a line of the other direction is reversed "
                          "twice" % (own_dir, mdir), f.loc(c))
        else:
            ctx.inconclusive("dir_fix", "nested marks", "direction argument %s" % a, f.loc(c))


RULES = {"M3": rule_M3, "K5": rule_K5, "O2": rule_O2, "G3": rule_G3, "W8": rule_W8, "U5": rule_U5, "X5": rule_X5, "V4": rule_V4, "R9": rule_R9, "G4": rule_G4,
         "N6": rule_N6, "V6": rule_V6}
