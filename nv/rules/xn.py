"""S3 discard guards; N buffer table; X ex addressing (DESIGN.md 3.2, 3.9, 3.5)."""
from ..cfg import enum_paths, paths_to
from ..facts import AnalysisBroken, walk, key, cval
from ..lin import Lin, linearize, cmp_constraints, prove_le, feasible, PROVEN, REFUTED, CEX
from ..util import (stores, lv_field, lv_var, is_call, calls_in, refs, mentions,
                    strip_casts, negate_truth, flatten_and, path_consistent, nullness)
from .w import fail_edge_check, result_test, ret_nonzero, _eval, _facts

# ----------------------------------------------------------------------------------------
# S3


def _bang_test(c, func=None):
    """Is the (peeled) condition a test for a flag character in `cmd`?  -> (char, truth
    of the condition that means `flag present`) or None.  A local that was assigned such a
    test once (`int force = strchr(cmd, '!') != NULL;`) counts as the test."""
    if func is not None and c["k"] == "ref" and c.get("cat") == "local":
        from ..util import resolve_local
        r = resolve_local(func, c)
        if r is not c:
            r2, t2 = negate_truth(r, True)
            bt = _bang_test(r2)
            if bt:
                return (bt[0], bt[1] == t2)
            if r2["k"] == "un" and r2["op"] == "!" :
                pass
        return None
    if is_call(c, "strchr") and cval(c["args"][1]) is not None:
        return (chr(cval(c["args"][1])), True)
    if c["k"] == "bin" and c["op"] in ("==", "!=") and is_call(strip_casts(c["l"]), "strchr"):
        r = strip_casts(c["r"])
        if cval(r) == 0 or (r["k"] == "int" and r["v"] == 0):
            ch = cval(strip_casts(c["l"])["args"][1])
            if ch is not None:
                return (chr(ch), c["op"] == "!=")
    return None


def _guard_edges(f, accept_bang=True, accept_xwa=True, accept_noxb=False, idx0=True):
    """Set of (block id, succ index) edges that mean `the dirty check passed or a documented
    bypass applies`."""
    cfg = f.cfg
    out = set()
    for b in cfg.blocks.values():
        br = cfg.branch(b.id)
        if not br:
            continue
        c = f.nodes.get(br[0])
        if c is None:
            continue
        c, t = negate_truth(c, True)   # t = truth of peeled cond when original is true
        # edge index for "peeled cond has truth v": original truth = (v == t) -> idx 0 if true
        def edge(v):
            return (b.id, 0 if (v == t) else 1)
        if is_call(c, "bufs_modified"):
            if not idx0 or cval(c["args"][0]) == 0:
                out.add(edge(False))
        bt = _bang_test(c, f)
        if bt and accept_bang and bt[0] == "!":
            out.add(edge(bt[1]))
        if accept_xwa and c["k"] == "ref" and c["name"] == "xwa":
            out.add(edge(True))
        if accept_noxb and is_call(c, "ex_lbuf"):
            out.add(edge(False))
        # the same tests spelled as comparisons with 0 / NULL
        for v in (True, False):
            nn = nullness(c, v)
            if nn is None or nn[0] is c:
                continue
            x_ = strip_casts(nn[0])
            if accept_xwa and x_["k"] == "ref" and x_["name"] == "xwa" and not nn[1]:
                out.add(edge(v))
            if accept_noxb and is_call(x_, "ex_lbuf") and nn[1]:
                out.add(edge(v))
    return out


def rule_S3(ctx):
    ctx.begin("S3", floor=8, what="discarding effects behind the dirty test")
    prog = ctx.prog
    # who may set xquit
    n_q = 0
    for f in prog.funcs.values():
        for n, lv, op, rhs in stores(f.body):
            v = lv_var(lv)
            if v and v[0] == "xquit" and v[1] == "global" and op != "init":
                n_q += 1
                if f.name == "ec_quit":
                    ctx.ok(f.name, "store xquit", loc=f.loc(n))
                else:
                    ctx.violation(f.name, "store xquit", "the quit flag is set outside ec_quit, "
                                  "bypassing the walk over all buffers", f.loc(n))
    if not n_q:
        raise AnalysisBroken("no store to xquit")
    eq = prog.func("ec_quit")
    cfg = eq.cfg
    bufs = prog.global_def("bufs", file="ex.c")
    N = bufs.get("arr_n")
    # the loop over all slots
    loop = None
    for lp in eq.walk():
        if lp["k"] in ("for", "while") and lp.get("c") is not None and \
                any(is_call(c, "bufs_modified") for c in calls_in(lp["body"])):
            loop = lp
    if loop is None:
        raise AnalysisBroken("ec_quit: loop over the buffer table not found")
    c = loop["c"]
    init = loop.get("init")
    ivar = None
    i0 = None
    stepped = False
    if init is not None and init["k"] == "bin" and init["op"] == "=" and init["l"]["k"] == "ref":
        ivar = init["l"]["name"]
        i0 = cval(init["r"])
    elif init is not None and init["k"] == "decl":
        ivar = init["vars"][0]["name"]
        i0 = cval(init["vars"][0].get("init"))
    elif c["k"] == "bin" and strip_casts(c["l"])["k"] == "ref":
        # a while loop: the index is initialised by the last store that dominates the test
        ivar = strip_casts(c["l"])["name"]
        inits = [(n_, r_) for n_, lv_, op_, r_ in stores(eq.body)
                 if lv_["k"] in ("ref", "var") and lv_.get("name") == ivar and op_ in ("=", "init") and
                 cfg.pos(n_) is not None and cfg.dominates(n_, c) and
                 not any(x["id"] == n_["id"] for x in walk(loop))]
        if inits:
            i0 = cval(inits[-1][1])
        # every other store outside the loop that can still be in force at the test must agree
        for n_, lv_, op_, r_ in stores(eq.body):
            if lv_["k"] in ("ref", "var") and lv_.get("name") == ivar and cfg.pos(n_) is not None and \
                    not any(x["id"] == n_["id"] for x in walk(loop)) and \
                    (op_ not in ("=", "init") or r_ is None or cval(r_) != i0) and \
                    cfg.search(cfg.pos(n_), lambda e: e == c["id"]) is not None:
                later = [m_ for m_, _r in inits if cfg.dominates(n_, m_)]
                if not later:
                    i0 = None
    if loop.get("inc") is not None:
        stepped = "++" in key(loop["inc"])
    elif ivar:
        steps = [n_ for n_, lv_, op_, r_ in stores(loop["body"]) if lv_["k"] == "ref" and lv_["name"] == ivar]
        # one unit step, executed on every pass that reaches the end of the body (`continue`
        # and early steps are judged by the iteration paths below)
        stepped = len(steps) >= 1 and all(
            n_.get("op") in ("post++", "pre++") or (n_.get("op") == "+=" and cval(n_["r"]) == 1) for n_ in steps)
    good = ivar and i0 == 0 and c["k"] == "bin" and c["op"] == "<" and key(strip_casts(c["l"])) == ivar and \
        cval(c["r"]) == N and stepped
    if good:
        ctx.ok("ec_quit", "quit walks all %d slots" % N, loc=eq.loc(loop))
    else:
        ctx.violation("ec_quit", "quit walks all slots",
                      "loop is for(%s; %s; %s) over a table of %s" % (
                          key(init), key(c), key(loop.get("inc")), N), eq.loc(loop))
    head = cfg.pos(c)[0]
    # the flag store is dominated by the loop's exit edge
    for n, lv, op, rhs in stores(eq.body):
        v = lv_var(lv)
        if v and v[0] == "xquit":
            if cfg.edge_dominates(head, 1, cfg.pos(n)[0]):
                ctx.ok("ec_quit", "xquit set only after the whole walk", loc=eq.loc(n))
            else:
                ctx.violation("ec_quit", "xquit set only after the whole walk",
                              "the store is reachable without leaving the loop through its "
                              "condition", eq.loc(n))
    # one iteration: an allocated slot, no 'a', no '!'  ==> bufs_modified(i) was false
    br = cfg.branch(head)
    try:
        paths = enum_paths(cfg, br[1], {head})
    except OverflowError:
        raise AnalysisBroken("ec_quit: too many iteration paths")
    n_it = 0
    for items, end in paths:
        if end != head or not path_consistent(eq, items):
            continue
        n_it += 1
        facts = []
        for x in items:
            if x[0] == "br":
                cc, tt = negate_truth(eq.nodes[x[1]], x[2])
                facts.append((cc, tt))
        flags = set()
        alloc = False
        checked = False
        for cc, tt in facts:
            bt = _bang_test(cc, eq)
            if bt and (tt == bt[1]):
                flags.add(bt[0])
            nn = nullness(cc, tt)
            if nn is not None and nn[0]["k"] == "member" and nn[0]["field"] == "lb" and not nn[1]:
                alloc = True
            if is_call(cc, "bufs_modified") and key(cc["args"][0]) == ivar and not tt:
                checked = True
        desc = ", ".join("%s=%s" % (key(cc)[:30], tt) for cc, tt in facts)
        if alloc and not flags & {"a", "!"} and not checked:
            ctx.violation("ec_quit", "dirty test per slot",
                          "an iteration over an allocated slot without 'a' or '!' continues "
                          "without bufs_modified(%s) being false (%s)" % (ivar, desc), eq.loc(loop))
        else:
            ctx.ok("ec_quit", "iteration path", desc)
    if n_it < 3:
        ctx.broken("ec_quit: only %d iteration paths" % n_it)
    # the test is control-dependent only on allocation and the two flags
    for c2 in eq.calls("bufs_modified"):
        for cc, tt in _facts(eq, c2):
            bt = _bang_test(cc, eq)
            nn = nullness(cc, tt)
            okc = (bt and bt[0] in ("a", "!")) or (nn is not None and nn[0]["k"] == "member" and nn[0]["field"] == "lb") \
                or (cc["id"] == c["id"]) or key(cc) == key(c)
            if not okc:
                ctx.violation("ec_quit", "dirty test skipped by an extra condition",
                              "bufs_modified(%s) is only evaluated when %s is %s" % (
                                  ivar, key(cc), tt), eq.loc(c2))
    # handlers with discarding effects
    specs = [
        ("ec_buffer", ("bufs_switch",), dict()),
        ("ec_edit", ("bufs_switch", "bufs_open", "lbuf_rd"), dict(accept_noxb=True)),
        ("ec_exec", ("cmd_exec", "cmd_pipe"), dict(accept_bang=False)),
        ("ec_make", ("cmd_exec",), dict(accept_bang=False)),
    ]
    for fname, effs, opts in specs:
        f = prog.func(fname)
        ge = _guard_edges(f, **opts)
        if not ge:
            ctx.violation(fname, "dirty test before discarding", "no bufs_modified(0, ...) test")
            continue
        n_e = 0
        for e in f.calls(effs):
            n_e += 1
            p = f.cfg.pos(e)
            hit = f.cfg.search(f.cfg.entry, lambda x: x == e["id"],
                               edge_ok=lambda b, k, s: (b, k) not in ge, start_block=True)
            if hit is not None:
                ctx.violation(fname, "%s behind the dirty test" % e["fn"],
                              "%s is reachable without bufs_modified(0) being false and without "
                              "a documented bypass ('!'%s)" % (
                                  e["fn"], ", xwa" + (", no buffer" if opts.get("accept_noxb") else "")),
                              f.loc(e))
            else:
                ctx.ok(fname, "%s behind the dirty test" % e["fn"], loc=f.loc(e))
        if not n_e:
            ctx.broken("%s: no discarding effect found" % fname)
        # the dirty-true edge must fail the command
        for c2 in f.calls("bufs_modified"):
            fail_edge_check(ctx, f, c2, "!=0",
                            lambda n: is_call(n, effs), ret_nonzero,
                            "modified buffer refuses the command")
    # bufs_modified: dirty slot => non-zero unless autowrite saved it
    bm = prog.func("bufs_modified")
    for r in bm.cfg.return_nodes():
        if cval(r.get("e")) == 0:
            # every path to it has: no buffer, or lbuf_modified false
            pr = bm.cfg.pos(r)
            okr = True
            for items, end in enum_paths(bm.cfg, bm.cfg.entry, {pr[0]}):
                if end != pr[0]:
                    continue
                fs = [negate_truth(bm.nodes[x[1]], x[2]) for x in items if x[0] == "br"]
                from ..util import resolve_local

                def _src(e_):
                    e_ = strip_casts(e_)
                    if e_["k"] == "ref":
                        e_ = strip_casts(resolve_local(bm, e_))
                    return e_

                def _nolb(cc, tt):
                    nn = nullness(cc, tt)
                    if nn is None or not nn[1]:
                        return False
                    x_ = _src(nn[0])
                    return x_["k"] == "member" and x_["field"] == "lb"

                def _clean(cc, tt):
                    nn = nullness(cc, tt)
                    return nn is not None and nn[1] and is_call(_src(nn[0]), "lbuf_modified")

                def _saved(cc, tt):
                    # autowrite: the save returned no error message
                    nn = nullness(cc, tt)
                    return nn is not None and nn[1] and is_call(_src(nn[0]), "lbuf_save")
                if not any(_clean(cc, tt) or _nolb(cc, tt) or _saved(cc, tt) for cc, tt in fs):
                    okr = False
            if okr:
                ctx.ok("bufs_modified", "clean verdict only when lbuf_modified is false", loc=bm.loc(r))
            else:
                ctx.violation("bufs_modified", "clean verdict",
                              "returns 0 (not modified) without lbuf_modified being false", bm.loc(r))
    idxp = bm.params[0]["name"]
    for n in bm.walk():
        # every element of the table that is looked at is the slot asked about
        if n["k"] == "sub" and strip_casts(n["base"])["k"] == "ref" and strip_casts(n["base"])["name"] == "bufs":
            if key(strip_casts(n["idx"])) != idxp:
                ctx.violation("bufs_modified", "slot under test", "tests %s instead of slot %s"
                              % (key(n), idxp), bm.loc(n))


# ----------------------------------------------------------------------------------------
# N

BUF_FIELD_WRITERS = {
    "ec_write": {"path", "mtime"},
    "ec_edit": {"mtime"},
}


def rule_N1(ctx):
    ctx.begin("N1", floor=10, what="stores into the buffer table")
    prog = ctx.prog
    for f in prog.funcs.values():
        for n, lv, op, rhs in stores(f.body):
            if op == "init":
                continue
            lf = lv_field(lv)
            if not lf or lf[0] != "buf":
                continue
            if f.name.startswith("bufs_") and f.file == "ex.c":
                ctx.ok(f.name, "store buf.%s" % lf[1], loc=f.loc(n))
                continue
            allowed = BUF_FIELD_WRITERS.get(f.name, set())
            if not allowed and f.static:
                # a private helper of the allowed writers: all its callers must be allowed the field
                cs_ = [h_ for h_ in prog.funcs.values() if h_ is not f and any(
                    prog.resolve(h_, c_["fn"]) is f for c_ in h_.calls() if c_.get("fn"))]
                if cs_ and all(lf[1] in BUF_FIELD_WRITERS.get(h_.name, set()) for h_ in cs_):
                    allowed = {lf[1]}
            base = lv
            while base["k"] in ("member",) and base["base"]["k"] != "sub":
                base = base["base"]
            slot0 = "bufs[0]" in key(lv)
            if lf[1] in allowed and slot0:
                ctx.ok(f.name, "store bufs[0].%s" % lf[1], loc=f.loc(n))
            else:
                ctx.violation(f.name, "store buf.%s" % lf[1],
                              "a buffer-table field is written outside the bufs_* helpers "
                              "(%s)" % key(lv), f.loc(n))
        # block operations on the table
        if f.file == "ex.c" and not f.name.startswith("bufs_"):
            for c in f.calls(("memcpy", "memmove", "memset")):
                if "bufs[" in key(c["args"][0]) or key(strip_casts(c["args"][0])) == "bufs":
                    ctx.violation(f.name, "block write into the buffer table",
                                  "%s on %s outside the bufs_* helpers" % (c["fn"], key(c["args"][0])),
                                  f.loc(c))


def _ret_interval(prog, f, depth=0):
    """[lo, hi] of the values a tiny index-producing function can return, or None."""
    lo, hi = None, None
    for r in f.cfg.return_nodes():
        e = strip_casts(r.get("e"))
        iv = _expr_interval(prog, f, e, r, depth)
        if iv is None:
            return None
        lo = iv[0] if lo is None else min(lo, iv[0])
        hi = iv[1] if hi is None else max(hi, iv[1])
    return (lo, hi) if lo is not None else None


def _loop_of_var(f, name):
    for lp in f.walk():
        if lp["k"] == "for" and lp.get("init") is not None:
            init = lp["init"]
            if init["k"] == "bin" and init["op"] == "=" and key(init["l"]) == name:
                return lp, cval(init["r"])
    return None, None


def _expr_interval(prog, f, e, at, depth):
    if e is None:
        return None
    v = cval(e)
    if v is not None:
        return (v, v)
    if e["k"] == "ref":
        lp, i0 = _loop_of_var(f, e["name"])
        if lp is not None and i0 is not None and lp["c"] is not None and lp["c"]["k"] == "bin" \
                and lp["c"]["op"] == "<" and key(lp["c"]["l"]) == e["name"] and cval(lp["c"]["r"]) is not None \
                and "++" in key(lp.get("inc")):
            K = cval(lp["c"]["r"])
            inside = any(a["id"] == lp["id"] for a in f.ancestors(at["id"]))
            # other stores to the variable?
            others = [n for n, lv, op, rhs in stores(f.body)
                      if lv["k"] == "ref" and lv["name"] == e["name"] and n["id"] != lp["init"]["id"]
                      and n["id"] != lp["inc"]["id"]]
            if others:
                return None
            return (i0, K - 1) if inside else (i0, K)
        # `i = a; while (i < K) { ..; i++; }` with the use inside the loop
        for lp in f.walk():
            if lp["k"] != "while" or lp.get("c") is None:
                continue
            c_ = strip_casts(lp["c"])
            if c_["k"] == "bin" and c_["op"] == "&&":
                c_ = strip_casts(c_["l"])
            if not (c_["k"] == "bin" and c_["op"] == "<" and key(strip_casts(c_["l"])) == e["name"] and cval(c_["r"]) is not None):
                continue
            if not any(a["id"] == lp["id"] for a in f.ancestors(at["id"])):
                continue
            ins = [n for n, lv, op, rhs in stores(lp["body"]) if lv["k"] == "ref" and lv["name"] == e["name"]]
            outs = [(n, rhs) for n, lv, op, rhs in stores(f.body) if lv["k"] in ("ref", "var") and lv.get("name") == e["name"]
                    and not any(x["id"] == n["id"] for x in walk(lp))]
            if ins and all(n.get("op") in ("post++", "pre++") for n in ins) and len(outs) == 1 and \
                    outs[0][1] is not None and cval(outs[0][1]) is not None and \
                    not f.cfg.search(f.cfg.pos(ins[0]), lambda x: x == at["id"], avoid=lambda x: x == c_["id"]):
                return (cval(outs[0][1]), cval(c_["r"]) - 1)
        # a parameter of a static helper: what its call sites pass
        pn_ = [q["name"] for q in f.params]
        if e.get("cat") == "param" and e["name"] in pn_ and getattr(f, "static", False) and depth < 3 and \
                not any(lv["k"] == "ref" and lv["name"] == e["name"] for n, lv, op, rhs in stores(f.body)):
            sites = [(h, c) for h in prog.funcs.values() for c in h.calls(f.name) if prog.resolve(h, c["fn"]) is f]
            lo = hi = None
            for h, c in sites:
                iv = _expr_interval(prog, h, strip_casts(c["args"][pn_.index(e["name"])]), c, depth + 1)
                if iv is None:
                    return None
                lo = iv[0] if lo is None else min(lo, iv[0])
                hi = iv[1] if hi is None else max(hi, iv[1])
            if sites:
                return (lo, hi)
        # variable assigned once from a call
        srcs = [rhs for n, lv, op, rhs in stores(f.body)
                if op in ("=", "init") and lv.get("name") == e["name"] and lv["k"] in ("ref", "var")]
        if len(srcs) == 1 and depth < 3:
            return _expr_interval(prog, f, strip_casts(srcs[0]), at, depth)
        return None
    if e["k"] == "call" and e.get("fn") and depth < 3:
        g = prog.resolve(f, e["fn"])
        if g is not None:
            iv = _ret_interval(prog, g, depth + 1)
            if iv is None:
                # the path-based range of the return value (pointer form, while loops, helpers)
                from .. import bounds as _b
                old_ = _b._PROG[0]
                _b._PROG[0] = prog
                try:
                    iv = _b._ret_range(f, e)
                finally:
                    _b._PROG[0] = old_
            return iv
    if e["k"] == "cond":
        a = _expr_interval(prog, f, strip_casts(e["t"]), at, depth)
        b = _expr_interval(prog, f, strip_casts(e["f"]), at, depth)
        if a and b:
            return (min(a[0], b[0]), max(a[1], b[1]))
    return None


def rule_N2(ctx):
    ctx.begin("N2", floor=6, what="bufs_switch arguments and block moves")
    prog = ctx.prog
    bufs = prog.global_def("bufs", file="ex.c")
    N, esz = bufs["arr_n"], bufs["arr_esz"]
    sw = prog.func("bufs_switch")
    for f in prog.funcs.values():
        for c in f.calls("bufs_switch"):
            a = strip_casts(c["args"][0])
            iv = _expr_interval(prog, f, a, c, 0)
            lo = hi = None
            if iv:
                lo, hi = iv
            # tighten by dominating facts on the same expression
            hyps = []
            for cc, tt in _facts(f, c):
                hyps += cmp_constraints(cc, tt)
            la = linearize(a)
            if iv:
                hyps += [la - Lin(k=lo), Lin(k=hi) - la]
            if la is None:
                ctx.inconclusive(f.name, "bufs_switch index", "argument %s not linear" % key(a), f.loc(c))
                continue
            v1 = prove_le(Lin(k=0), la, hyps)
            v2 = prove_le(la, Lin(k=N - 1), hyps)
            if v1 == PROVEN and v2 == PROVEN:
                ctx.ok(f.name, "bufs_switch(%s) within [0, %d]" % (key(a), N - 1), loc=f.loc(c))
            else:
                ctx.violation(f.name, "bufs_switch index",
                              "argument %s is not shown to lie in [0, %d] (interval %s, lower %s, "
                              "upper %s)" % (key(a), N - 1, iv, v1, v2), f.loc(c))
    # block moves inside the helpers
    idx = sw.params[0]["name"]
    for c in sw.calls(("memmove", "memcpy")):
        d, s, n = [strip_casts(x) for x in c["args"]]
        kd, ks = key(d), key(s)

        def slot(kx):
            import re
            m = re.match(r"^\(&bufs\[(.+)\]\)$", kx)
            return m.group(1) if m else None
        ln = linearize(n)
        for side, kx in (("destination", kd), ("source", ks)):
            sl = slot(kx)
            if sl is None:
                continue   # &tmp
            # extent: slot*esz + n <= N*esz  with idx <= N-1
            try:
                base = int(sl)
                lb = Lin(k=base * esz)
            except ValueError:
                lb = Lin({sl: esz})
            hyps = [Lin({idx: 1}), Lin(k=N - 1) - Lin({idx: 1})]
            v = prove_le(lb + ln, Lin(k=N * esz), hyps)
            if v == PROVEN:
                ctx.ok("bufs_switch", "%s %s of %s stays inside the table" % (c["fn"], side, kx),
                       loc=sw.loc(c))
            else:
                ctx.violation("bufs_switch", "block move extent",
                              "%s %s %s + %s bytes can leave bufs[%d] (%s)" % (
                                  c["fn"], side, kx, key(n), N, v), sw.loc(c))
    sh = prog.func("bufs_shift")
    for c in sh.calls(("memmove", "memcpy", "memset")):
        d, n = strip_casts(c["args"][0]), strip_casts(c["args"][-1])
        import re
        m = re.match(r"^\(&bufs\[(.+)\]\)$", key(d))
        if not m or cval(n) is None:
            ctx.inconclusive("bufs_shift", "block move extent", "unrecognised %s" % key(c), sh.loc(c))
            continue
        base = cval(d["e"]["idx"]) if d["k"] == "un" else None
        if base is None:
            ctx.inconclusive("bufs_shift", "block move extent", "index %s" % m.group(1), sh.loc(c))
            continue
        extra = 0
        if c["fn"] != "memset":
            s = strip_casts(c["args"][1])
            sb = cval(s["e"]["idx"]) if s["k"] == "un" and s["e"]["k"] == "sub" else 0
            extra = max(base, sb or 0)
        else:
            extra = base
        if extra * esz + cval(n) <= N * esz:
            ctx.ok("bufs_shift", "%s stays inside the table" % c["fn"], loc=sh.loc(c))
        else:
            ctx.violation("bufs_shift", "block move extent", "%s of %d bytes from slot %d leaves "
                          "the %d-slot table" % (c["fn"], cval(n), extra, N), sh.loc(c))


def rule_N3(ctx):
    ctx.begin("N3", floor=2, what="ec_edit does not re-read an open path")
    prog = ctx.prog
    f = prog.func("ec_edit")
    cfg = f.cfg
    rds = list(f.calls("lbuf_rd"))
    if not rds:
        # the read may live in a helper of the file: its call stands for the read
        for c_ in f.calls():
            h_ = prog.resolve(f, c_["fn"]) if c_.get("fn") else None
            if h_ is not None and h_.file == f.file and h_ is not f and any(True for _ in h_.calls("lbuf_rd")):
                rds.append(c_)
    if not rds:
        raise AnalysisBroken("ec_edit does not call lbuf_rd")
    found = None
    for b in cfg.blocks.values():
        br = cfg.branch(b.id)
        if not br:
            continue
        c = f.nodes.get(br[0])
        if c is None:
            continue
        c0, t0 = negate_truth(c, True)
        lhs = strip_casts(c0["l"]) if c0["k"] == "bin" else None
        if lhs is not None and lhs["k"] == "ref" and lhs.get("cat") == "local":
            # a local that holds the lookup result (possibly `path[0] ? bufs_find(path) : -1`)
            srcs = [rhs for n_, lv_, op_, rhs in stores(f.body)
                    if lv_["k"] in ("ref", "var") and lv_.get("name") == lhs["name"] and rhs is not None]
            if len(srcs) == 1 and any(is_call(x, "bufs_find") for x in walk(srcs[0])) and all(
                    is_call(x, "bufs_find") or x["k"] != "call" for x in walk(srcs[0])):
                lhs = [x for x in walk(srcs[0]) if is_call(x, "bufs_find")][0]
                c0 = dict(c0, l=lhs)
        if c0["k"] == "bin" and c0["op"] in (">=", ">") and is_call(strip_casts(c0["l"]), "bufs_find") \
                and cval(c0["r"]) in (0, -1):
            if (c0["op"] == ">=" and cval(c0["r"]) == 0) or (c0["op"] == ">" and cval(c0["r"]) == -1):
                found = (b, c0, t0)
    if not found:
        ctx.inconclusive("ec_edit", "lookup before opening",
                         "no test of the form `bufs_find(path) >= 0` recognised before the read")
        return
    b, c0, t0 = found
    tedge = 0 if t0 else 1
    for rd in rds:
        hit = cfg.search(b.succ[tedge], lambda e: e == rd["id"], start_block=True)
        if hit is not None:
            ctx.violation("ec_edit", "already-open path is not re-read",
                          "lbuf_rd is reachable after bufs_find(path) >= 0", f.loc(rd))
        else:
            ctx.ok("ec_edit", "already-open path is not re-read", loc=f.loc(rd))
        # the lookup is on every path to the read that has a non-empty path
        empty0 = set()
        for bb in cfg.blocks.values():
            brr = cfg.branch(bb.id)
            cc = f.nodes.get(brr[0]) if brr else None
            if cc is not None:
                c1, t1 = negate_truth(cc, True)
                if c1["k"] == "sub" and key(c1) == "path[0]":
                    empty0.add((bb.id, 1 if t1 else 0))
        hit0 = cfg.search(cfg.entry, lambda e: e == rd["id"],
                          avoid=lambda e: e == c0["id"],
                          edge_ok=lambda bb, k, s: (bb, k) not in empty0, start_block=True)
        if hit0 is not None:
            ctx.violation("ec_edit", "lookup before opening",
                          "a path with a non-empty path name reaches lbuf_rd without the "
                          "bufs_find(path) test", f.loc(rd))
        # every path to the read opens a fresh slot or reloads the current file (path empty)
        empty_edges = set()
        for bb in cfg.blocks.values():
            brr = cfg.branch(bb.id)
            if not brr:
                continue
            cc = f.nodes.get(brr[0])
            if cc is None:
                continue
            c1, t1 = negate_truth(cc, True)
            if c1["k"] == "sub" and key(c1) == "path[0]":
                empty_edges.add((bb.id, 1 if t1 else 0))
        hit = cfg.search(cfg.entry, lambda e: e == rd["id"],
                         avoid=lambda e: is_call(f.nodes.get(e), "bufs_open"),
                         edge_ok=lambda bb, k, s: (bb, k) not in empty_edges, start_block=True)
        if hit is not None:
            ctx.violation("ec_edit", "read into a fresh slot",
                          "lbuf_rd is reachable with a non-empty path without bufs_open: the "
                          "file would be read over the current buffer", f.loc(rd))
        else:
            ctx.ok("ec_edit", "read only into a fresh slot or as a reload", loc=f.loc(rd))
    # the switch target after the lookup is the found slot
    for c in f.calls("bufs_switch"):
        a = strip_casts(c["args"][0])
        from ..util import resolve_local
        a = resolve_local(f, a)
        if a["k"] == "cond":
            a = next((x for x in (strip_casts(a["t"]), strip_casts(a["f"])) if is_call(x, "bufs_find")), a)
        if is_call(a, "bufs_find"):
            if key(a) == key(strip_casts(c0["l"])):
                ctx.ok("ec_edit", "switch to the slot that was found", loc=f.loc(c))
            else:
                ctx.violation("ec_edit", "switch to the slot that was found",
                              "switches to %s after testing %s" % (key(a), key(c0)), f.loc(c))


def _slot_of(e):
    """index expression (as a key) of a pointer to an element of bufs[]: &bufs[i], bufs + i, bufs"""
    e = strip_casts(e)
    if e["k"] == "ref" and e["name"] == "bufs":
        return "0"
    if e["k"] == "un" and e["op"] == "&":
        x = strip_casts(e["e"])
        if x["k"] == "sub" and key(strip_casts(x["base"])) == "bufs":
            return key(strip_casts(x["idx"]))
    if e["k"] == "bin" and e["op"] == "+" and key(strip_casts(e["l"])) == "bufs":
        return key(strip_casts(e["r"]))
    return None


def rule_N4(ctx):
    ctx.begin("N4", floor=2, what="save / rotate / load order in bufs_switch")
    prog = ctx.prog
    f = prog.func("bufs_switch")
    cfg = f.cfg
    moves = list(f.calls(("memcpy", "memmove")))
    if not moves:
        raise AnalysisBroken("bufs_switch: no rotation")
    # the view of the outgoing buffer is saved by bufs_save() or by its statements written out:
    # stores of the cursor fields into slot 0
    sv = list(f.calls("bufs_save"))
    saved_fields = {}
    for n, lv, op, rhs in stores(f.body):
        if op == "=" and lv["k"] == "member" and lv["field"] in ("row", "off", "top", "left", "td"):
            from ..util import resolve_local
            b_ = strip_casts(resolve_local(f, strip_casts(lv["base"])))
            if (b_["k"] == "sub" and key(strip_casts(b_["base"])) == "bufs" and cval(b_["idx"]) == 0) or \
                    (lv.get("arrow") and _slot_of(b_) == "0"):
                saved_fields.setdefault(lv["field"], []).append(n)
    want_fields = set()
    if prog.has_func("bufs_save"):
        for n, lv, op, rhs in stores(prog.func("bufs_save").body):
            if lv["k"] == "member":
                want_fields.add(lv["field"])
    want_fields = want_fields or {"row", "off", "top"}
    ld = list(f.calls("bufs_load"))
    for m in moves:
        inline_ok = want_fields and all(any(cfg.dominates(s_, m) for s_ in saved_fields.get(fl, []))
                                        for fl in want_fields)
        if any(cfg.dominates(s_, m) for s_ in sv) or inline_ok:
            ctx.ok("bufs_switch", "view saved before the rotation", loc=f.loc(m))
        else:
            ctx.violation("bufs_switch", "view saved before the rotation",
                          "a block move is not dominated by bufs_save (or by stores of %s into slot 0): "
                          "the outgoing buffer loses its position" % sorted(want_fields), f.loc(m))
        if any(cfg.postdominates(l, m) for l in ld):
            ctx.ok("bufs_switch", "view loaded after the rotation", loc=f.loc(m))
        else:
            ctx.violation("bufs_switch", "view loaded after the rotation",
                          "a block move is not post-dominated by bufs_load", f.loc(m))
    # rotation shape: tmp <- [idx]; [1..idx] <- [0..idx-1]; [0] <- tmp
    idx = f.params[0]["name"]
    ks = [(c["fn"], _slot_of(c["args"][0]), _slot_of(c["args"][1]), key(strip_casts(c["args"][0])),
           key(strip_casts(c["args"][1]))) for c in moves]
    first = [k for k in ks if k[2] == idx and k[1] is None]
    mid = [k for k in ks if k[1] == "1" and k[2] == "0"]
    last = [k for k in ks if k[1] == "0" and k[2] is None]
    if first and mid and last and first[0][3] == last[0][4]:
        ctx.ok("bufs_switch", "rotation moves slot idx to the front, others down by one")
    else:
        ctx.violation("bufs_switch", "rotation shape",
                      "expected tmp<-[idx], [1..]<-[0..], [0]<-tmp; found %s" % [(k[0], k[3], k[4]) for k in ks],
                      f.loc(moves[0]))
    shf = prog.func("bufs_shift")
    if any(True for _ in shf.calls("bufs_load")):
        ctx.ok("bufs_shift", "view loaded after deleting the front buffer")
    else:
        ctx.violation("bufs_shift", "view loaded after deleting the front buffer",
                      "bufs_shift does not call bufs_load")


def rule_N5(ctx):
    ctx.begin("N5", floor=5, what="view fields saved = loaded = initialised")
    prog = ctx.prog
    ld, it = prog.func("bufs_load"), prog.func("bufs_init")
    from ..util import resolve_local

    def is_slot0(g, base):
        b_ = strip_casts(resolve_local(g, strip_casts(base)))
        if b_["k"] == "sub" and key(strip_casts(b_["base"])) == "bufs" and cval(b_["idx"]) == 0:
            return True
        return _slot_of(b_) == "0"
    # the saver: bufs_save, or whoever stores the view globals into slot 0 (the helper written out)
    saved = {}
    cands = [prog.func("bufs_save")] if prog.has_func("bufs_save") else \
        [g for g in prog.funcs.values() if g.file == "ex.c" and g.name not in ("bufs_init", "bufs_load")]
    for sv in cands:
        for n, lv, op, rhs in stores(sv.body):
            lf = lv_field(lv)
            r_ = strip_casts(rhs) if rhs is not None else None
            if lf and lf[0] == "buf" and op == "=" and lv["k"] == "member" and is_slot0(sv, lv["base"]) \
                    and r_ is not None and r_["k"] == "ref" and r_.get("cat") in ("global", "sglobal"):
                saved[lf[1]] = key(r_)
    loaded = {}
    for n, lv, op, rhs in stores(ld.body):
        r = strip_casts(rhs) if rhs else None
        if op == "=" and r is not None and r["k"] == "member" and r.get("rec") == "buf" \
                and "bufs[0]" in key(r):
            loaded[r["field"]] = key(lv)
    inited = set()
    for n, lv, op, rhs in stores(it.body):
        lf = lv_field(lv)
        if lf and lf[0] == "buf":
            inited.add(lf[1])
    if len(saved) < 4:
        raise AnalysisBroken("bufs_save stores only %d fields" % len(saved))
    for fld in sorted(set(saved) | set(loaded)):
        if fld not in loaded:
            ctx.violation("bufs_load", "field " + fld, "saved by bufs_save (from %s) but never "
                          "restored" % saved[fld])
        elif fld not in saved:
            ctx.violation("bufs_save", "field " + fld, "restored by bufs_load (into %s) but "
                          "never saved" % loaded[fld])
        elif saved[fld] != loaded[fld]:
            ctx.violation("bufs_load", "field " + fld, "saved from %s but restored into %s" % (
                saved[fld], loaded[fld]))
        elif fld not in inited:
            ctx.violation("bufs_init", "field " + fld, "not initialised for a new buffer")
        else:
            ctx.ok("bufs_save/bufs_load", "field %s <-> %s" % (fld, saved[fld]))
    # every view global that the vi loop keeps per buffer is in the set
    for g in ("xrow", "xoff", "xtop", "xleft"):
        if g not in saved.values():
            ctx.violation("bufs_save", "global " + g, "the per-buffer view variable %s is not "
                          "saved on a switch" % g)


# ----------------------------------------------------------------------------------------
# X

X1_EFFECTS = ("lbuf_edit", "lbuf_mark", "lbuf_cp", "reg_put", "cmd_pipe", "lbuf_save",
              "ex_command", "lbuf_rd", "ex_exec", "lbuf_globset", "ex_yank", "lbuf_undo", "lbuf_redo")


def _x1_effect(n):
    if n is None:
        return False
    if is_call(n, X1_EFFECTS):
        return True
    if n["k"] == "bin" and n["op"] in ("=", "+=", "-="):
        v = lv_var(n["l"])
        if v and v[0] == "xrow" and v[1] == "global":
            return True
    return False


def rule_X1(ctx):
    ctx.begin("X1", floor=14, what="ex_region call sites")
    prog = ctx.prog
    rows = None
    from .su import excmd_table
    rows = excmd_table(prog)
    add_cmds = {fn for abbr, name, fn in rows if abbr in ("a", "i", "c")}
    for f in prog.funcs.values():
        for c in f.calls("ex_region"):
            r = result_test(f, c, "!=0")
            if r[0] != "branch":
                if r[0] == "dropped":
                    ctx.violation(f.name, "address failure is tested",
                                  "the result of ex_region is discarded", f.loc(c))
                else:
                    ctx.violation(f.name, "address failure is tested", str(r[1]), f.loc(c))
                continue
            _, bid, k, cond = r
            cfg = f.cfg
            start = cfg.blocks[bid].succ[k]
            # tolerated continuation: both bounds are 0 (address 0 / empty buffer), only for
            # the commands that add text
            tol = set()
            if f.name in add_cmds:
                a1, a2 = [strip_casts(x) for x in c["args"][1:3]]
                names = [a["e"]["name"] for a in (a1, a2) if a["k"] == "un" and a["op"] == "&"
                         and a["e"]["k"] == "ref"]
                for b in cfg.blocks.values():
                    br = cfg.branch(b.id)
                    if not br:
                        continue
                    cc = f.nodes.get(br[0])
                    if cc is None:
                        continue
                    c1, t1 = negate_truth(cc, True)
                    if c1["k"] == "bin" and c1["op"] in ("!=", "==") and key(c1["l"]) in names \
                            and cval(c1["r"]) == 0:
                        # edge on which the variable is 0
                        zero_truth = (c1["op"] == "==")
                        tol.add((b.id, 0 if (zero_truth == t1) else 1))
            zero_seen = {}

            def edge_ok(b, kk, s):
                return True
            # search effects from the fail edge; a path is tolerated only if it passes a
            # zero-edge for *each* bound variable
            try:
                paths = enum_paths(cfg, start, set(), max_paths=4000)
            except OverflowError:
                paths = None
            bad = None
            if paths is None:
                hit = cfg.search(start, lambda e: e != ("exit",) and _x1_effect(f.nodes.get(e)),
                                 start_block=True)
                if hit is not None:
                    bad = f.nodes.get(hit)
            else:
                for items, end in paths:
                    effs = [f.nodes.get(x[1]) for x in items if x[0] == "ev"]
                    effs = [e for e in effs if _x1_effect(e)]
                    rets = [f.nodes.get(x[1]) for x in items if x[0] == "ev"
                            and f.nodes.get(x[1], {}).get("k") == "return"]
                    if not effs and rets and ret_nonzero(rets[-1]):
                        continue
                    if f.name in add_cmds:
                        # tolerated when the path takes a zero edge of both bounds
                        zs = set()
                        blocks_edges = []
                        # reconstruct edges from br items
                        for x in items:
                            if x[0] == "br":
                                blk = cfg.branch_of_cond(x[1])
                                if blk is not None and (blk.id, 0 if x[2] else 1) in tol:
                                    cc = f.nodes[x[1]]
                                    c1, _ = negate_truth(cc, True)
                                    zs.add(key(c1["l"]))
                        if len(zs) >= 2:
                            continue
                    bad = effs[0] if effs else (rets[-1] if rets else c)
                    break
            if bad is not None:
                what = key(bad)[:60]
                ctx.violation(f.name, "nothing happens after a failed address",
                              "after ex_region failed, `%s` is reachable%s" % (
                                  what, "" if f.name not in add_cmds else
                                  " without both bounds being 0"), f.loc(bad))
            else:
                ctx.ok(f.name, "failed address: no effect, failing status%s" % (
                    " (address 0 tolerated for a/i/c)" if f.name in add_cmds else ""), loc=f.loc(c))


def _path_value(f, e, facts_by_id):
    """Resolve ?: on a path using the path's facts; returns an expression node."""
    e = strip_casts(e)
    while e is not None and e["k"] == "cond":
        c, t = e["c"], None
        cid = strip_casts(c)["id"]
        if cid in facts_by_id:
            t = facts_by_id[cid]
        if t is None:
            return e
        e = strip_casts(e["t"] if t else e["f"])
    return e


def rule_X2(ctx):
    ctx.begin("X2", floor=3, what="successful returns of ex_region")
    from ..bounds import path_states, helper_constraints
    from .. import lin as _lin
    prog = ctx.prog
    f = prog.func("ex_region")
    cfg = f.cfg
    pn = [p["name"] for p in f.params]
    if len(pn) != 3:
        raise AnalysisBroken("ex_region no longer takes (loc, beg, end)")
    begp, endp = pn[1], pn[2]
    LEN = "lbuf_len(ex_lbuf())"

    def inline(call, fn_=f):
        # helpers of the same file that are handed the range (beg / end / *beg / *end)
        g = prog.resolve(fn_, call.get("fn")) if call.get("fn") else None
        if g is None or g.file != f.file or g.name == f.name:
            return None
        if not any(r_["name"] in (begp, endp) for a_ in call["args"] for r_ in refs(a_)):
            return None
        if len(list(g.walk())) > 400:
            return None
        return g
    # returns that may be 0: constant 0 or any non-constant value
    rets = [r for r in cfg.return_nodes() if cval(r.get("e")) in (0, None)]
    if not rets:
        raise AnalysisBroken("ex_region has no `return 0`")
    n_paths = 0
    for r in rets:
        try:
            sts = path_states(f, r["id"], init_hyps=[Lin({LEN: 1})], max_paths=5000, inline=inline)
        except OverflowError:
            raise AnalysisBroken("ex_region: too many paths")
        bad = None
        undecided = None
        for subst, hyps, items in sts:
            hyps = list(hyps)
            e = r.get("e")
            if cval(e) is None and e is not None:
                # a computed status: the obligation is about the case in which it is 0
                byid = {f.nodes[x[1]]["id"]: x[2] for x in items if x[0] == "br"}
                _lin._COND_RES[0] = byid
                try:
                    hyps += cmp_constraints(e, False, subst)
                    ee = strip_casts(e)
                    if ee["k"] == "call" and key(ee) not in subst:
                        hc = helper_constraints(f, e, False, subst)
                        hyps += hc
                        g_ = prog.resolve(f, ee.get("fn")) if ee.get("fn") else None
                        if not hc and g_ is not None:
                            undecided = ("status computed by %s()" % g_.name, items)
                            continue
                finally:
                    _lin._COND_RES[0] = None
                if any(isinstance(h, Lin) and h.is_const() and h.k < 0 for h in hyps):
                    continue                        # this exit of the helper is a failure
            n_paths += 1
            B = subst.get("(*%s)" % begp) or Lin({"(*%s)" % begp: 1})
            E = subst.get("(*%s)" % endp) or Lin({"(*%s)" % endp: 1})
            L = Lin({LEN: 1})
            goals = [("0 <= beg", Lin(k=0), B), ("beg <= end", B, E), ("end <= $", E, L)]
            for gname, a, b in goals:
                v = prove_le(a, b, hyps)
                if v != PROVEN:
                    if "__havoc__" in subst:
                        undecided = (gname, items)
                    else:
                        bad = (gname, v, items)
                    break
            if bad:
                break
        if bad:
            gname, v, items = bad
            desc = ", ".join("%s=%s" % (key(f.nodes[x[1]])[:36], x[2]) for x in items if x[0] == "br")
            ctx.violation("ex_region", "successful return validates the range",
                          "a path to `return 0` does not establish %s (%s): %s" % (gname, v, desc),
                          f.loc(r))
        elif undecided:
            ctx.inconclusive("ex_region", "successful return validates the range",
                             "%s: not decided (no summary of a helper on the way)" % undecided[0], f.loc(r))
        else:
            ctx.ok("ex_region", "return 0 implies 0 <= beg <= end <= $", loc=f.loc(r))
    if n_paths < 3:
        ctx.broken("ex_region: only %d successful paths" % n_paths)


def _range_vars(f):
    """Variables of a handler that hold validated line numbers."""
    rv = set()
    for c in f.calls("ex_region"):
        for a in c["args"][1:3]:
            a = strip_casts(a)
            if a["k"] == "un" and a["op"] == "&" and a["e"]["k"] == "ref":
                rv.add(a["e"]["name"])
    changed = True
    while changed:
        changed = False
        for n, lv, op, rhs in stores(f.body):
            nm = lv.get("name") if lv["k"] in ("ref", "var") else None
            if not nm or nm in rv or rhs is None or lv.get("cat") not in ("local", "param"):
                continue
            if _over_range(rhs, rv):
                rv.add(nm)
                changed = True
    return rv


def _over_range(e, rv):
    """expression built only from range variables, constants and lbuf_len"""
    e = strip_casts(e)
    if e is None:
        return False
    if cval(e) is not None:
        return True
    k = e["k"]
    if k == "ref":
        return e["name"] in rv
    if k == "call":
        return e.get("fn") in ("lbuf_len",) or (e.get("fn") == "ex_lbuf")
    if k == "cond":
        return _over_range(e["t"], rv) and _over_range(e["f"], rv) and all(
            x["k"] != "call" or x.get("fn") in ("lbuf_len", "ex_lbuf") for x in walk(e["c"]))
    if k == "bin" and e["op"] in ("+", "-"):
        return _over_range(e["l"], rv) and _over_range(e["r"], rv)
    return False


def rule_X3(ctx):
    ctx.begin("X3", floor=8, what="splice ranges of ex handlers")
    prog = ctx.prog
    n = 0
    for f in prog.funcs.values():
        if f.file != "ex.c":
            continue
        calls = [c for c in f.calls(("lbuf_edit", "lbuf_rd"))]
        if not calls:
            continue
        if not f.name.startswith("ec_"):
            # a helper of the handlers: its range parameters are judged at the call sites
            pn = [p_["name"] for p_ in f.params]
            callers = [(g, c) for g in prog.funcs.values() for c in g.calls(f.name)]
            if not callers or not all(g.name.startswith("ec_") for g, c in callers):
                continue
            for c in calls:
                n += 1
                okh = True
                for x in (strip_casts(c["args"][2]), strip_casts(c["args"][3])):
                    base = x["l"] if (x["k"] == "bin" and x["op"] == "+" and cval(x["r"]) == 1) else x
                    if not (base["k"] == "ref" and base["name"] in pn):
                        okh = False
                        continue
                    pi = pn.index(base["name"])
                    for g, cc in callers:
                        rvg = _range_vars(g)
                        a = strip_casts(cc["args"][pi])
                        if not ((a["k"] == "ref" and (a["name"] in rvg or _bounded_loop_var(g, a["name"], rvg)))
                                or cval(a) == 0 or is_call(a, "lbuf_len")):
                            okh = False
                if okh:
                    ctx.ok(f.name, "%s range comes from validated values of its callers" % c["fn"], loc=f.loc(c))
                else:
                    ctx.inconclusive(f.name, "splice range", "helper %s: range arguments not traced to a "
                                     "validated range" % f.name, f.loc(c))
            continue
        rv = _range_vars(f)
        for c in calls:
            n += 1
            a, b = strip_casts(c["args"][2]), strip_casts(c["args"][3])
            good = True
            why = ""
            for x in (a, b):
                if cval(x) == 0 and x["k"] == "int":
                    continue
                if is_call(x, "lbuf_len"):
                    continue
                if x["k"] == "ref" and x["name"] in rv:
                    continue
                # loop variable + 1 where the loop runs over [beg, end)
                if x["k"] == "bin" and x["op"] == "+" and cval(x["r"]) == 1 and x["l"]["k"] == "ref" \
                        and _bounded_loop_var(f, x["l"]["name"], rv) and key(a) == x["l"]["name"]:
                    continue
                good = False
                why = key(x)
            # loop variable must be bounded by the range
            for x in (a, b):
                if x["k"] == "ref" and x["name"] in rv:
                    continue
            if good:
                ctx.ok(f.name, "%s(%s, %s) within the validated range" % (c["fn"], key(a), key(b)),
                       loc=f.loc(c))
            else:
                ctx.violation(f.name, "splice range",
                              "%s is given the bound `%s`, which is not one of the validated "
                              "range values %s" % (c["fn"], why, sorted(rv)), f.loc(c))
    if n < 8:
        ctx.broken("only %d splice calls in ex handlers" % n)


def _bounded_loop_var(f, name, rv):
    for lp in f.walk():
        if lp["k"] == "for" and lp.get("init") is not None and lp["init"]["k"] == "bin" \
                and key(lp["init"]["l"]) == name:
            c = lp["c"]
            if _over_range(lp["init"]["r"], rv) and c is not None and c["k"] == "bin" and c["op"] == "<" \
                    and key(c["l"]) == name and _over_range(c["r"], rv):
                return True
        # `i = beg; while (i < end) { ..; i++; }`
        if lp["k"] == "while" and lp.get("c") is not None:
            c = strip_casts(lp["c"])
            if c["k"] == "bin" and c["op"] in ("<", ">"):
                lo_, hi_ = (c["l"], c["r"]) if c["op"] == "<" else (c["r"], c["l"])
                if key(strip_casts(lo_)) == name and _over_range(hi_, rv):
                    inside = [n_ for n_, lv_, op_, r_ in stores(lp["body"]) if lv_["k"] == "ref" and lv_["name"] == name]
                    outside = [(n_, r_) for n_, lv_, op_, r_ in stores(f.body)
                               if lv_["k"] in ("ref", "var") and lv_.get("name") == name and
                               not any(x["id"] == n_["id"] for x in walk(lp))]
                    if inside and all(n_.get("op") in ("post++", "pre++") for n_ in inside) and len(outside) == 1 and \
                            outside[0][1] is not None and _over_range(outside[0][1], rv) and \
                            f.cfg.dominates(outside[0][0], lp["c"]):
                        return True
    return False


def rule_X4(ctx):
    ctx.begin("X4", floor=2, what="failed address components")
    prog = ctx.prog
    f = prog.func("ex_lineno")
    cfg = f.cfg
    # the encoding of address 0: digits case n = atoi() - 1  -> minimum legitimate value
    addr0 = None
    for n, lv, op, rhs in stores(f.body):
        if op == "=" and rhs is not None and "atoi(" in key(rhs):
            l = linearize(rhs)
            if l is not None and len(l.c) == 1:
                addr0 = int(l.k)   # atoi >= 0, so value >= l.k
    if addr0 is None:
        raise AnalysisBroken("ex_lineno: numeric address case not found")
    fail_vals = set()
    sites = []
    for c in f.calls("lbuf_jump"):
        sites.append((c, "!=0", "unset mark"))
    for c in f.calls("ex_search"):
        sites.append((c, "<0", "failed search"))
    if len(sites) < 2:
        raise AnalysisBroken("ex_lineno: mark / search cases not found")
    for c, conv, what in sites:
        r = result_test(f, c, conv)
        if r[0] != "branch":
            ctx.violation("ex_lineno", what + " is an error",
                          "the result of %s is not tested before it is used as a line number "
                          "(a failure value %d is also the encoding of address 0)" % (
                              c["fn"], addr0), f.loc(c))
            continue
        _, bid, k, cond = r
        start = cfg.blocks[bid].succ[k]
        seen = cfg.reachable_blocks(start)
        rv = set()
        arith = False
        for rn in cfg.return_nodes():
            if cfg.pos(rn)[0] in seen:
                v = cval(rn.get("e"))
                rv.add(v)
        if None in rv:
            ctx.violation("ex_lineno", what + " is an error",
                          "after %s failed the value returned is computed, not a failure "
                          "constant" % c["fn"], f.loc(c))
            continue
        if any(v >= addr0 for v in rv):
            ctx.violation("ex_lineno", what + " is an error",
                          "%s failing makes ex_lineno return %s, which ex_region cannot tell "
                          "from a legitimate address (address 0 is %d)" % (
                              c["fn"], sorted(rv), addr0), f.loc(c))
            continue
        fail_vals |= rv
        ctx.ok("ex_lineno", what + " returns a failure value %s" % sorted(rv), loc=f.loc(c))
    if not fail_vals:
        return
    # ex_region tests the result
    g = prog.func("ex_region")
    for c in g.calls("ex_lineno"):
        from .w import FAIL_REPS
        FAIL_REPS["x4"] = (sorted(fail_vals), [addr0, 0, 5])
        r = result_test(g, c, "x4")
        if r[0] != "branch":
            ctx.violation("ex_region", "failed component rejects the address",
                          "the result of ex_lineno is %s" % (r[1] if r[0] != "dropped" else
                                                              "used without a failure test"), g.loc(c))
            continue
        _, bid, k, cond = r
        start = g.cfg.blocks[bid].succ[k]
        seen = g.cfg.reachable_blocks(start)
        bad = [rn for rn in g.cfg.return_nodes() if g.cfg.pos(rn)[0] in seen and not ret_nonzero(rn)]
        if bad:
            ctx.violation("ex_region", "failed component rejects the address",
                          "after ex_lineno reported failure ex_region can still return success",
                          g.loc(bad[0]))
        else:
            ctx.ok("ex_region", "failed component rejects the address", loc=g.loc(c))


RULES = {"S3": rule_S3, "N1": rule_N1, "N2": rule_N2, "N3": rule_N3, "N4": rule_N4, "N5": rule_N5,
         "X1": rule_X1, "X2": rule_X2, "X3": rule_X3, "X4": rule_X4}
