"""R4-R6 regex semantics shape; L literal fast path; M matcher invocation; T text units
(DESIGN.md 3.6-3.8)."""
import itertools

from ..absint import Interp, Ptr, OverRead, Unsupported, OPAQUE
from ..facts import AnalysisBroken, walk, key, cval
from ..lin import Lin, linearize, cmp_constraints, prove_le, PROVEN, REFUTED, CEX
from ..util import (stores, lv_field, lv_var, is_call, calls_in, refs, mentions,
                    strip_casts, negate_truth, flatten_and, flatten_or, enclosing)
from .w import _facts, _eval

MATCHERS = ("rstr_find", "rset_find")


def rule_R4(ctx):
    ctx.begin("R4", floor=5, what="fork priority in matcher and emitter")
    prog = ctx.prog
    f = prog.func("re_rec", file="regex.c")
    rec = list(f.calls("re_rec"))
    if not rec:
        # the fork may live in a helper that calls re_rec back: the same obligations hold there
        for c in f.calls():
            g = prog.resolve(f, c["fn"]) if c.get("fn") else None
            if g is not None and g.file == f.file and list(g.calls("re_rec")):
                f = g
                rec = list(f.calls("re_rec"))
                break
    cfg = f.cfg
    if not rec:
        raise AnalysisBroken("re_rec not recursive")
    rec = rec[0]
    pcs = [(n, key(strip_casts(rhs))) for n, lv, op, rhs in stores(f.body)
           if op == "=" and lv["k"] == "member" and lv["field"] == "pc" and rhs is not None
           and strip_casts(rhs)["k"] == "member" and strip_casts(rhs)["field"] in ("a1", "a2")]
    first = [n for n, k_ in pcs if k_.endswith("a1") and cfg.dominates(n, rec)]
    # a2 after the restore, reachable only when the first branch failed
    restore = [n for n, lv, op, rhs in stores(f.body)
               if op == "=" and lv["k"] == "un" and lv["op"] == "*" and rhs is not None
               and strip_casts(rhs)["k"] == "ref"]
    second = [n for n, k_ in pcs if k_.endswith("a2") and cfg.dominates(rec, n)]
    wrong1 = [n for n, k_ in pcs if k_.endswith("a2") and cfg.dominates(n, rec)]
    if first and second and not wrong1:
        ctx.ok("re_rec", "fork tries a1 recursively, then continues with a2", loc=f.loc(rec))
    else:
        ctx.violation("re_rec", "fork priority",
                      "the fork case does not assign a1 before the recursive call and a2 after "
                      "it (pc stores: %s)" % [k_ for n, k_ in pcs], f.loc(rec))
    if restore and second and any(cfg.dominates(rec, r) and cfg.dominates(r, second[0]) for r in restore):
        src = strip_casts(restore[0]["r"])["name"]
        # the saved copy is taken before the first branch
        saved = [n for n in f.walk() if n["k"] == "var" and n["name"] == src]
        if saved and cfg.dominates(saved[0], rec):
            ctx.ok("re_rec", "state restored from a copy taken before the first branch", loc=f.loc(restore[0]))
        else:
            ctx.violation("re_rec", "state restore", "the restored copy is not taken before the "
                          "first branch", f.loc(restore[0]))
    else:
        ctx.violation("re_rec", "state restore", "the matcher state is not restored between the "
                      "two branches of a fork", f.loc(rec))
    # success of the first branch returns success at once
    r = None
    from .w import result_test
    rt = result_test(f, rec, "!=0")
    if rt[0] == "branch":
        _, bid, k, cond = rt
        succ = cfg.blocks[bid].succ[1 - k]
        rets = [x for x in cfg.return_nodes() if cfg.pos(x)[0] == succ or
                cfg.pos(x)[0] in cfg.reachable_blocks(succ) and cval(x.get("e")) == 0]
        direct = [x for x in cfg.return_nodes() if cfg.pos(x)[0] == succ and cval(x.get("e")) == 0]
        if direct:
            ctx.ok("re_rec", "first branch's success is the fork's success", loc=f.loc(direct[0]))
        else:
            ctx.violation("re_rec", "first branch wins", "success of the a1 branch does not "
                          "return success immediately", f.loc(rec))
    else:
        ctx.violation("re_rec", "first branch wins", "result of the recursive call: %s" % (rt[0],), f.loc(rec))
    # emitter sites
    n_sites = 0
    for fname in ("rnode_emit", "rnode_emitnorep"):
        g = prog.func(fname, file="regex.c")
        gc = g.cfg
        emit_calls = [c for c in g.calls(("rnode_emit", "rnode_emitnorep"))]
        for ins in g.calls("re_insert"):
            v = cval(ins["args"][1])
            if v != ord("f"):
                continue
            n_sites += 1
            par = g.nodes.get(g.parent.get(ins["id"]))
            var = None
            if par and par["k"] == "var":
                var = par["name"]
                anchor = par
            elif par and par["k"] == "bin" and par["op"] == "=" and par["l"]["k"] == "ref":
                var = par["l"]["name"]
                anchor = par
            if var is None:
                ctx.inconclusive(fname, "fork operands", "fork index not kept in a variable", g.loc(ins))
                continue

            def emits_between(a, b):
                return [c for c in emit_calls if gc.dominates(a, c) and gc.dominates(c, b)]
            a1 = a2 = None
            for n, lv, op, rhs in stores(g.body):
                if op == "=" and lv["k"] == "member" and lv["field"] in ("a1", "a2") and \
                        lv["base"]["k"] == "sub" and key(strip_casts(lv["base"]["idx"])) == var and \
                        gc.dominates(anchor, n):
                    # nearest fork insertion that dominates this store must be this one
                    later = [i2 for i2 in g.calls("re_insert") if i2["id"] != ins["id"] and
                             cval(i2["args"][1]) == ord("f") and gc.dominates(ins, i2) and gc.dominates(i2, n)
                             and _same_var(g, i2, var)]
                    if later:
                        continue
                    if lv["field"] == "a1":
                        a1 = (n, strip_casts(rhs))
                    else:
                        a2 = (n, strip_casts(rhs))
            deferred = False
            for n, lv, op, rhs in stores(g.body):
                if op == "=" and lv["k"] == "sub" and lv["base"]["k"] == "ref" and \
                        "arr_n" not in lv["base"] and rhs is not None and key(strip_casts(rhs)) == var \
                        and gc.dominates(anchor, n):
                    deferred = lv["base"]["name"]
            if a1 is None:
                ctx.violation(fname, "fork a1 = preferred branch", "no store to a1 of the fork", g.loc(ins))
                continue
            k1 = key(a1[1])
            imm1 = k1.endswith("->n") and not emits_between(anchor, a1[0])
            followed = gc.search(gc.pos(a1[0]), lambda e: e != ("exit",) and any(
                e == c["id"] for c in emit_calls)) is not None
            back = False
            if a1[1]["k"] == "ref":
                # `last`: assigned p->n immediately before an emission, inside a loop before the fork
                lv_ = a1[1]["name"]
                for n, lv, op, rhs in stores(g.body):
                    if op == "=" and lv["k"] == "ref" and lv["name"] == lv_ and rhs is not None and \
                            key(strip_casts(rhs)).endswith("->n") and any(
                                gc.dominates(n, c) for c in emit_calls):
                        back = True
            if imm1 and followed and (a2 is not None or deferred):
                if a2 is not None:
                    k2 = key(a2[1])
                    mid = emits_between(a1[0], a2[0])
                    if k2.endswith("->n") and mid:
                        ctx.ok(fname, "fork: a1 -> sub-pattern that follows, a2 -> after it (left/greedy first)",
                               loc=g.loc(ins))
                    else:
                        ctx.violation(fname, "fork a2 = what follows the preferred branch",
                                      "a2 is set to %s with %d emissions between the two stores" % (k2, len(mid)),
                                      g.loc(a2[0]))
                else:
                    # deferred: patched later with a2
                    patched = False
                    for n, lv, op, rhs in stores(g.body):
                        if op == "=" and lv["k"] == "member" and lv["base"]["k"] == "sub" and \
                                deferred in key(lv["base"]["idx"]) and rhs is not None and \
                                key(strip_casts(rhs)).endswith("->n"):
                            patched = lv["field"]
                    if patched == "a2":
                        ctx.ok(fname, "fork: a1 -> sub-pattern that follows, a2 deferred to the end (greedy)",
                               loc=g.loc(ins))
                    else:
                        ctx.violation(fname, "fork a2 deferred", "the deferred fork operand patched "
                                      "at the end is %s, not a2" % patched, g.loc(ins))
            elif back and a2 is not None and key(a2[1]).endswith("->n") and not emits_between(anchor, a2[0]):
                ctx.ok(fname, "loop-back fork: a1 -> start of the last copy, a2 -> next (greedy)", loc=g.loc(ins))
            else:
                ctx.violation(fname, "fork priority",
                              "fork operands do not put the sub-pattern first: a1=%s%s a2=%s%s" % (
                                  k1, "" if imm1 else " (not taken right after the fork)",
                                  key(a2[1]) if a2 else None, " deferred" if deferred else ""), g.loc(ins))
    if n_sites < 2:
        ctx.broken("only %d fork sites in the emitter" % n_sites)
    # ALT emits c1 before c2
    g = prog.func("rnode_emitnorep", file="regex.c")
    alts = [c for c in g.calls("rnode_emit")]
    order = [key(strip_casts(c["args"][0])) for c in alts]
    altcalls = [c for c in alts if any(
        cc["k"] == "bin" and cc["op"] == "==" and cval(cc["r"]) == ord("|") and t
        for cc, t in _facts(g, c))]
    ks = [key(strip_casts(c["args"][0])) for c in altcalls]
    if len(ks) == 2 and ks[0].endswith("c1") and ks[1].endswith("c2") and g.cfg.dominates(altcalls[0], altcalls[1]):
        ctx.ok("rnode_emitnorep", "alternation emits the left branch first")
    else:
        ctx.violation("rnode_emitnorep", "alternation order", "ALT emits %s" % ks)


def _same_var(g, ins, var):
    par = g.nodes.get(g.parent.get(ins["id"]))
    if par and par["k"] == "var":
        return par["name"] == var
    if par and par["k"] == "bin" and par["op"] == "=" and par["l"]["k"] == "ref":
        return par["l"]["name"] == var
    return False


def rule_R5(ctx):
    ctx.begin("R5", floor=3, what="leftmost scan in regexec")
    prog = ctx.prog
    f = prog.func("regexec", file="regex.c")
    if not any(True for _ in f.calls("re_recmatch")):
        raise AnalysisBroken("regexec does not call re_recmatch")
    # abstract evaluation of the scan loop: re_recmatch is replaced by a probe that records the
    # offset it is asked to start at (and the subject start) and answers as told
    subjects = [(0x61, 0x62, 0), (0x61, 0xc3, 0xa9, 0x62, 0), (0xe2, 0x82, 0xac, 0x78, 0),
                (0xf0, 0x9f, 0x98, 0x80, 0x21, 0), (0,)]

    def boundaries(b):
        out, i = [], 0
        while b[i]:
            out.append(i)
            c = b[i]
            i += 1 if c < 0xc0 else 2 if c < 0xe0 else 3 if c < 0xf0 else 4
        return out

    def run(subj, succeed_at):
        calls = []

        def probe(ip, fn, e, args, env):
            rs = args[1]
            calls.append((rs["s"].off if isinstance(rs.get("s"), Ptr) else None,
                          rs["o"].off if isinstance(rs.get("o"), Ptr) else None))
            return 0 if len(calls) - 1 == succeed_at else 1
        ip = Interp(prog, hooks={"re_recmatch": probe, "memset": lambda *a: None})
        preg = {"__deref__": {"flg": 0, "p": OPAQUE, "n": 0}}
        try:
            ret = ip.call(f, [preg, Ptr(subj), 2, OPAQUE, 0])
        except (Unsupported, OverRead) as e:
            raise AnalysisBroken("regexec not evaluable: %s" % e)
        return ret, calls
    bad = None
    n_eval = 0
    for subj in subjects:
        want = boundaries(subj)
        ret, calls = run(subj, -1)
        n_eval += 1
        starts = [c[0] for c in calls]
        # a final attempt at the terminator (empty match at the end of the line) is legitimate
        if starts == want + [len(subj) - 1] and want:
            want = starts
        if starts != want:
            bad = ("start positions", subj, starts, want)
        elif any(c[1] != 0 for c in calls):
            bad = ("subject start", subj, [c[1] for c in calls], [0] * len(calls))
        elif ret in (0, None):
            bad = ("result without any match", subj, ret, 1)
        for k in range(len(want)):
            ret, calls = run(subj, k)
            n_eval += 1
            if ret != 0 or len(calls) != k + 1:
                bad = ("first success returns", subj, (ret, len(calls)), (0, k + 1))
    show = lambda b: "".join("\\x%02x" % x for x in b[:-1])
    if bad:
        what = {"start positions": "match attempts start at byte offsets %s, the characters start at %s",
                "subject start": "the subject start given to the matcher is %s, expected %s",
                "result without any match": "regexec returns %s when no attempt succeeds, expected %s",
                "first success returns": "after the first successful attempt regexec (result, attempts) = %s, expected %s"}[bad[0]]
        ctx.violation("regexec", "leftmost scan by whole characters",
                      ("on subject \"%s\" " % show(bad[1])) + what % (bad[2], bad[3]), f.loc(f.body))
    else:
        ctx.ok("regexec", "attempts start at every character boundary from the left, with the subject start fixed")
        ctx.ok("regexec", "the first successful start position returns the match at once")
        ctx.ok("regexec", "no attempt succeeds -> failure (%d probe evaluations)" % n_eval)


def _expand_class(s):
    """ASCII set denoted by a bracket body, with the repository's own scanning rule."""
    out = set()
    b = [ord(c) for c in s]
    i = 0
    first = True
    while i < len(b) and (first or b[i] != ord("]")):
        first = False
        beg = b[i]
        i += 1
        end = beg
        if i + 1 < len(b) and b[i] == ord("-") and b[i + 1] != ord("]"):
            end = b[i + 1]
            i += 2
        for c in range(beg, end + 1):
            out.add(c)
    return out


def rule_R6(ctx):
    ctx.begin("R6", floor=11, what="bracket classes")
    from ..absint import LIBC
    g = ctx.prog.global_def("brk_classes", file="regex.c")
    want = {
        ":alnum:": LIBC["isalnum"], ":alpha:": LIBC["isalpha"], ":blank:": lambda c: int(c in (32, 9)),
        ":digit:": LIBC["isdigit"], ":lower:": LIBC["islower"], ":print:": LIBC["isprint"],
        ":punct:": LIBC["ispunct"], ":space:": LIBC["isspace"], ":upper:": LIBC["isupper"],
        ":word:": lambda c: int(LIBC["isalnum"](c) or c == 95), ":xdigit:": LIBC["isxdigit"],
    }
    seen = set()
    for row in g["init"]["elems"]:
        name, exp = row["elems"][0]["v"], row["elems"][1]["v"]
        seen.add(name)
        if name not in want:
            ctx.violation("brk_classes", "class " + name, "unknown class name")
            continue
        got = _expand_class(exp)
        exp_set = {c for c in range(1, 128) if want[name](c)}
        if got == exp_set:
            ctx.ok("brk_classes", "%s denotes exactly the C-locale class (%d chars)" % (name, len(got)))
        else:
            ctx.violation("brk_classes", "class " + name,
                          "expansion %r denotes %s extra and misses %s" % (
                              exp, sorted(chr(c) for c in got - exp_set), sorted(chr(c) for c in exp_set - got)))
    for m in sorted(set(want) - seen):
        ctx.violation("brk_classes", "class " + m, "class missing from the table")


# ----------------------------------------------------------------------------------------
# L


def _is_plain_literal(prog, pat):
    """does the regex parser read the whole pattern as one literal atom?  (abstract evaluation)"""
    from .r import _parse_probe
    tree, rest, err = _parse_probe(prog, pat)
    if not isinstance(tree, dict) or err or rest != len(pat):
        return False
    if isinstance(tree.get("c1"), dict) or isinstance(tree.get("c2"), dict):
        return False
    ra = tree.get("ra")
    if not isinstance(ra, dict) or ra.get("ra") != 0 or (tree.get("mincnt"), tree.get("maxcnt")) != (1, 1):
        return False
    buf = ra.get("s")
    got = []
    i = 0
    while isinstance(buf, dict) and isinstance(buf.get(i), int) and buf[i] != 0:
        got.append(buf[i] & 0xff)
        i += 1
    return bytes(got) == pat


def _classified_literal(prog, pat):
    """does rstr_make treat the pattern as a plain substring search?  (abstract evaluation with
    the allocation and the set constructor replaced by models)"""
    f = prog.func("rstr_make", file="rstr.c")
    rec = prog.record("rstr")

    def h_memset(ip, fn, e, args, env):
        if isinstance(args[0], dict) and args[1] == 0:
            for fl in rec["fields"]:
                args[0].setdefault(fl["name"], 0)
        return None

    def h_memcpy(ip, fn, e, args, env):
        d, s_, n_ = args[0], args[1], args[2]
        if isinstance(d, dict) and isinstance(s_, Ptr) and isinstance(n_, int):
            for i in range(n_):
                d[i] = s_.read(i)
        return None
    made = []

    def h_rset(ip, fn, e, args, env):
        made.append(1)
        return {"set": 1}
    ip = Interp(prog, hooks={"malloc": lambda *a: {}, "memset": h_memset, "memcpy": h_memcpy,
                             "rset_make": h_rset, "free": lambda *a: None})
    r = ip.call(f, [Ptr(tuple(pat) + (0,)), 0])
    if not isinstance(r, dict):
        return None
    return not made and not isinstance(r.get("rs"), dict)


def rule_L1(ctx):
    """A pattern with a regex operator is never searched as plain text.  Both sides are
    evaluated abstractly: a byte is an operator when the parser does not read `a<byte>b` as one
    literal atom; the classifier (rstr_make) must then refuse `a<byte>b`, `<byte>ab` and
    `ab<byte>` as a literal, except for the anchors it strips itself (^ first, $ last, \\< \\>)."""
    ctx.begin("L1", floor=1, what="metacharacter agreement")
    prog = ctx.prog
    ops = []
    try:
        for c in range(0x21, 0x7f):
            if chr(c).isalnum():
                continue
            if not _is_plain_literal(prog, bytes([0x61, c, 0x62])):
                ops.append(c)
    except (Unsupported, OverRead) as e:
        raise AnalysisBroken("regex parser not evaluable: %s" % e)
    if len(ops) < 8:
        raise AnalysisBroken("parser operator set too small: %s" % "".join(chr(c) for c in ops))
    missing = []
    n_eval = 0
    try:
        for c in ops:
            forms = [bytes([0x61, c, 0x62])]
            if chr(c) not in "^\\":
                forms.append(bytes([c, 0x61, 0x62]))
            if chr(c) not in "$":
                forms.append(bytes([0x61, 0x62, c]))
            for pat in forms:
                n_eval += 1
                if _is_plain_literal(prog, pat):
                    continue                      # not an operator in this position
                v = _classified_literal(prog, pat)
                if v is None:
                    continue                      # rejected outright
                if v:
                    missing.append((chr(c), pat))
    except (Unsupported, OverRead) as e:
        raise AnalysisBroken("rstr_make not evaluable: %s" % e)
    f = prog.func("rstr_make", file="rstr.c")
    if missing:
        ctx.violation("rstr_make", "operators stop the literal scan",
                      "the regex parser treats %s as operators but the literal classifier accepts %s as "
                      "plain text: such a pattern is searched as a literal" % (
                          sorted({m[0] for m in missing}), [m[1].decode() for m in missing[:4]]), f.loc(f.body))
    else:
        ctx.ok("rstr_make", "every parser operator %s makes the classifier hand the pattern to the regex "
               "engine (%d forms evaluated)" % ("".join(chr(c) for c in ops), n_eval))


def _grps_fill(f, n_name, g_name):
    """Loops `for (i = a; i < n; i++)` whose body stores grps[2i] and grps[2i+1] on all
    paths.  -> [(loop node, start value)]"""
    out = []
    for lp in f.walk():
        if lp["k"] != "for" or lp.get("init") is None or lp.get("c") is None:
            continue
        init = lp["init"]
        if not (init["k"] == "bin" and init["op"] == "=" and init["l"]["k"] == "ref"):
            continue
        iv = init["l"]["name"]
        if key(lp["c"]) != "(%s<%s)" % (iv, n_name):
            continue
        st = {}
        for n, lv, op, rhs in stores(lp["body"]):
            if op == "=" and lv["k"] == "sub" and key(lv["base"]) == g_name:
                st.setdefault(key(strip_casts(lv["idx"])), []).append(n)
        even = [k for k in st if k in ("(%s*2)" % iv, "((%s*2)+0)" % iv, "(2*%s)" % iv)]
        odd = [k for k in st if k in ("((%s*2)+1)" % iv, "((2*%s)+1)" % iv)]
        if not even or not odd:
            continue
        # every path through the body stores both: each store set must cover the if/else arms
        body = lp["body"]
        ok = True
        for ks in (even, odd):
            nodes = [x for k in ks for x in st[k]]
            # simple sufficient check: one of the stores is unconditional in the body, or the
            # stores sit in both arms of one if/else
            uncond = any(enclosing(f, x["id"], ("if",)) is None or
                         not any(a["id"] == enclosing(f, x["id"], ("if",))["id"] for a in walk(body))
                         for x in nodes)
            both = False
            for i_ in walk(body):
                if i_["k"] == "if" and i_.get("e") is not None:
                    in_t = any(any(y["id"] == x["id"] for y in walk(i_["t"])) for x in nodes)
                    in_e = any(any(y["id"] == x["id"] for y in walk(i_["e"])) for x in nodes)
                    if in_t and in_e:
                        both = True
            if not (uncond or both):
                ok = False
        if ok:
            out.append((lp, cval(init["r"])))
    return out


def rule_L2(ctx):
    ctx.begin("L2", floor=2, what="group out-parameters defined on success")
    prog = ctx.prog
    # literal branch of rstr_find: which slots of grps[] does a successful match define?
    f = prog.func("rstr_find", file="rstr.c")
    rec = prog.record("rstr")
    bad = None
    n_eval = 0
    for lit, line, n, flags in ((b"b", b"abc\n", 3, {}), (b"ab", b"xxab\n", 2, {"wbeg": 0}),
                                (b"c", b"abc\n", 10, {"lend": 1}), (b"a", b"abc\n", 1, {"lbeg": 1}),
                                (b"", b"ab cd\n", 4, {"wend": 1})):
        rs = {fl["name"]: 0 for fl in rec["fields"]}
        rs["rs"] = None
        rs["str"] = Ptr(tuple(lit) + (0,))
        rs.update(flags)
        grps = {}
        try:
            ret = Interp(prog).call(f, [rs, Ptr(tuple(line) + (0,)), n, grps, 0])
        except (Unsupported, OverRead) as e:
            raise AnalysisBroken("rstr_find not evaluable: %s" % e)
        n_eval += 1
        if ret is None or ret < 0:
            continue
        missing = [i_ for i_ in range(2 * n) if not isinstance(grps.get(i_), int)]
        wrong = [i_ for i_ in range(2, 2 * n) if isinstance(grps.get(i_), int) and grps[i_] != -1]
        if missing and bad is None:
            bad = ("after a literal match of \"%s\" with n = %d the slots %s of grps[] are never stored: "
                   "callers read them for \\1..\\9" % (lit.decode(), n, missing[:6]))
        elif wrong and bad is None:
            bad = "groups other than 0 are reported as set: grps%s = %s" % (wrong[:4], [grps[i_] for i_ in wrong[:4]])
    if bad:
        ctx.violation("rstr_find", "literal match defines every group slot", bad, f.loc(f.body))
    else:
        ctx.ok("rstr_find", "a literal match stores all 2n slots, groups >= 1 as -1 (%d evaluations)" % n_eval)
    g = prog.func("rset_find", file="rset.c")
    n_name, g_name = g.params[2]["name"], g.params[3]["name"]
    fills = [(lp, a) for lp, a in _grps_fill(g, n_name, g_name) if a == 0]
    if not fills:
        ctx.violation("rset_find", "set match defines every group slot",
                      "no loop over [0, n) stores grps[2i] and grps[2i+1] on all paths")
    else:
        lp = fills[0][0]
        # a path to a non-constant return that skips the loop has found == 0 or set < 0
        from ..cfg import paths_to
        bad = None
        for r in g.cfg.return_nodes():
            if cval(r.get("e")) is not None:
                if cval(r["e"]) >= 0:
                    bad = ("constant non-negative return", r)
                continue
            for items in paths_to(g.cfg, g.cfg.entry, r["id"]):
                evs = {x[1] for x in items if x[0] == "ev"}
                if lp["c"]["id"] in evs:
                    continue
                neg = False
                for x in items:
                    if x[0] != "br":
                        continue
                    c, t = negate_truth(g.nodes[x[1]], x[2])
                    if key(c) == "found" and not t:
                        neg = True
                    if key(c) == "(set>=0)" and not t:
                        neg = True
                if not neg:
                    bad = ("a path returns %s without filling the slots" % key(r["e"]), r)
        if bad is None:
            ctx.ok("rset_find", "all 2n slots stored whenever the result is >= 0", loc=g.loc(lp))
        else:
            ctx.violation("rset_find", "set match defines every group slot", bad[0], g.loc(bad[1]))


def rule_L3(ctx):
    ctx.begin("L3", floor=1, what="word predicate siblings")
    prog = ctx.prog
    fs = prog.byname.get("isword", [])
    if len(fs) == 1:
        ctx.ok("isword", "single shared definition")
        return
    if len(fs) != 2:
        raise AnalysisBroken("expected the two isword definitions, found %d" % len(fs))
    diff = None
    for c in range(1, 256):
        vals = []
        for f in fs:
            try:
                v = Interp(prog).call(f, [Ptr((c, 0))])
            except (Unsupported, OverRead) as e:
                raise AnalysisBroken("isword not evaluable: %s" % e)
            vals.append(bool(v))
        if vals[0] != vals[1]:
            diff = (c, vals)
            break
    if diff:
        ctx.violation("isword", "word predicates agree",
                      "%s says %s and %s says %s for byte 0x%02x" % (
                          fs[0].qname, diff[1][0], fs[1].qname, diff[1][1], diff[0]))
    else:
        ctx.ok("isword", "rstr.c and regex.c agree on all 255 lead bytes")


def _lookbehind_sites(f, start_name):
    """reads at pointer expressions with a negative constant term"""
    out = []
    for n in f.walk():
        tgt = None
        if is_call(n, "isword") or is_call(n, "uc_beg") or is_call(n, "uc_kind") or is_call(n, "uc_isspace"):
            a = strip_casts(n["args"][-1])
            tgt = a
        elif n["k"] == "sub" and cval(n["idx"]) is not None and cval(n["idx"]) < 0:
            tgt = {"k": "bin", "op": "+", "l": n["base"], "r": n["idx"], "id": n["id"], "ln": n.get("ln")}
        if tgt is None:
            continue
        l = linearize(tgt) if tgt["k"] != "bin" or "id" in tgt["l"] else None
        try:
            l = linearize(tgt)
        except Exception:
            l = None
        if l is None or l.k >= 0:
            continue
        out.append((n, l))
    return out


def _guard_alternatives(f, n, prevbits):
    """The conditions under which node n is evaluated, as a list of alternatives (a disjunction):
    each alternative is (constraints, uses_contract).  A local flag with a single definition is
    replaced by its definition, `a || b` known true splits into alternatives, and a test of
    the left-context flag marks the alternative as resting on the callers' contract (s[-1] is
    part of the line)."""
    from ..util import resolve_local

    def expand(c, t):
        c, t = negate_truth(c, t)
        c = strip_casts(c)
        if c["k"] == "ref" and c.get("cat") == "local":
            r = resolve_local(f, c)
            # only flags: locals defined by a logical expression
            if r is not c and ((r["k"] == "bin" and r["op"] in ("||", "&&", "<", "<=", ">", ">=", "==", "!="))
                               or (r["k"] == "un" and r["op"] == "!")):
                return expand(r, t)
        if c["k"] == "bin" and c["op"] == "||" and t:
            return expand(c["l"], True) + expand(c["r"], True)
        if c["k"] == "bin" and c["op"] == "&&" and t:
            out = []
            for x, cx in expand(c["l"], True):
                for y, cy in expand(c["r"], True):
                    out.append((x + y, cx or cy))
            return out
        if c["k"] == "bin" and c["op"] == "&&" and not t:
            return expand(c["l"], False) + expand(c["r"], False)
        if c["k"] == "bin" and c["op"] == "||" and not t:
            out = []
            for x, cx in expand(c["l"], False):
                for y, cy in expand(c["r"], False):
                    out.append((x + y, cx or cy))
            return out
        if c["k"] == "bin" and c["op"] == "&" and cval(c["r"]) in prevbits and t:
            return [([], True)]
        return [(cmp_constraints(c, t), False)]
    # the guards are collected per path (a condition reached through two different edges of an
    # `||` is dominated by neither): from the head of the innermost loop, else from the entry
    from ..cfg import paths_to
    from ..util import path_consistent
    cfg = f.cfg
    start = cfg.entry
    pos = cfg.pos(n)
    if pos is not None:
        inner = None
        for h, body in cfg.loops().items():
            if pos[0] in body and (inner is None or len(body) < len(inner[1])):
                inner = (h, body)
        if inner is not None:
            start = inner[0]
    common = _facts(f, n)
    out = []
    try:
        plist = paths_to(cfg, start, n["id"], max_paths=400)
    except OverflowError:
        plist = []
    if not plist:
        plist = [[]]
    for items in plist:
        if items and not path_consistent(f, items):
            continue
        conds = list(common) + [(f.nodes[x[1]], x[2]) for x in items if x[0] == "br"]
        alts = [([], False)]
        seen_c = set()
        for c, t in conds:
            if (c["id"], t) in seen_c:
                continue
            seen_c.add((c["id"], t))
            new = []
            for cons, ctr in alts:
                for x, cx in expand(c, t):
                    new.append((cons + x, ctr or cx))
            alts = new[:64]
        out += alts
    return out


def rule_L4(ctx):
    """A read before the current position stays inside the subject: under every alternative of
    its guards either `address >= subject start` is PROVEN, or the alternative is the
    left-context flag, whose contract (s[-1] belongs to the line) is an obligation of the
    callers (M2)."""
    ctx.begin("L4", floor=3, what="look-behind reads")
    prog = ctx.prog
    fl = matcher_flags(prog)
    prevbits = {b_ for b_ in (fl["PREV"], fl["map"].get(fl["PREV"]) if fl["PREV"] is not None else None)
                if b_ is not None}
    f = prog.func("rstr_find", file="rstr.c")
    s = f.params[1]["name"]
    n_sites = 0
    n_contract = 0
    for n, l in _lookbehind_sites(f, s):
        n_sites += 1
        bad = None
        for hyps, contract in _guard_alternatives(f, n, prevbits):
            if contract:
                n_contract += 1
                continue
            hyps = list(hyps)
            # loop variable starts at the subject and only grows; lengths are non-negative
            for a in list(l.c):
                if a != s and l.c[a] > 0 and a != "len":
                    hyps.append(Lin({a: 1}) - Lin({s: 1}))     # r >= s
            if "len" in l.c:
                hyps.append(Lin({"len": 1}))
            v = prove_le(Lin({s: 1}), l, hyps)
            if v != PROVEN:
                bad = v
        if bad is None:
            ctx.ok("rstr_find", "read at %r stays at or after the subject start (or rests on the "
                   "left-context flag)" % l, loc=f.loc(n))
        else:
            ctx.violation("rstr_find", "look-behind stays inside the subject",
                          "the read at %s is not guarded so that it is >= %s (%s): with an empty "
                          "literal at the line start it reads the byte before the line" % (
                              key(n)[:50], s, bad), f.loc(n))
    g0 = prog.func("ratom_match", file="regex.c")
    names = {g0.name} | {c_.get("fn") for c_ in g0.calls() if c_.get("fn")}
    for g in prog.funcs.values():
        if g.file != "regex.c" or g.name not in names:
            continue
        for n, l in _lookbehind_sites(g, "rs->o"):
            if not any(a_.endswith("->s") for a_ in l.c):
                continue
            n_sites += 1
            bad = None
            sk = next(a_ for a_ in l.c if a_.endswith("->s"))
            ok_ = sk[:-1] + "o"
            for hyps, contract in _guard_alternatives(g, n, prevbits):
                if contract:
                    n_contract += 1
                    continue
                hyps = list(hyps) + [Lin({sk: 1}) - Lin({ok_: 1})]      # the position never precedes the start
                v = prove_le(Lin({ok_: 1}), l, hyps)
                if v != PROVEN:
                    bad = v
            if bad is None:
                ctx.ok(g.name, "read before rs->s only when rs->s > rs->o (or under the left-context flag)",
                       loc=g.loc(n))
            else:
                ctx.violation(g.name, "look-behind stays inside the subject",
                              "%s is read without a test that the position is past the subject start" % key(n)[:50],
                              g.loc(n))
    if n_contract:
        ctx.note("%d guard alternatives rest on the left-context flag: its contract is checked at the callers by M2" % n_contract)
    if n_sites < 3:
        ctx.broken("only %d look-behind reads found" % n_sites)


# ----------------------------------------------------------------------------------------
# M


def _subject_parts(a):
    """(base var, offset var) of a subject argument"""
    a = strip_casts(a)
    if a["k"] == "ref":
        return a["name"], None
    if a["k"] == "bin" and a["op"] == "+" and a["l"]["k"] == "ref":
        r = strip_casts(a["r"])
        return a["l"]["name"], (r["name"] if r["k"] == "ref" else key(r))
    return None, None


def _multibyte_test(prog, f, n):
    """`uc_slen(S) < strlen(S)` (in either order, the count possibly held in a local or handed
    in as a parameter next to S): the character count of a string compared with its own byte
    count is the `has a multi-byte character` test, not a unit mix-up"""
    from ..util import resolve_local
    sides = [strip_casts(n["l"]), strip_casts(n["r"])]
    for a, b in (sides, sides[::-1]):
        if not (is_call(b, "strlen") and strip_casts(b["args"][0])["k"] == "ref"):
            continue
        S = strip_casts(b["args"][0])["name"]

        def is_count(g, e, sname, depth=0):
            e = strip_casts(e)
            if is_call(e, "uc_slen") and key(strip_casts(e["args"][0])) == sname:
                return True
            if e["k"] == "ref" and depth < 2:
                d_ = resolve_local(g, e)
                if d_ is not None and d_["id"] != e["id"]:
                    return is_count(g, d_, sname, depth + 1)
            return False
        if is_count(f, a, S):
            return True
        pn = [q["name"] for q in f.params]
        if a["k"] == "ref" and a["name"] in pn and S in pn and not any(
                lv["k"] == "ref" and lv["name"] in (a["name"], S) for _n, lv, _o, _r in stores(f.body)):
            sites = [(h, c) for h in prog.funcs.values() for c in h.calls(f.name) if prog.resolve(h, c["fn"]) is f]
            if sites and all(is_count(h, c["args"][pn.index(a["name"])], key(strip_casts(c["args"][pn.index(S)])))
                             for h, c in sites):
                return True
    return False


def matcher_flags(prog):
    """Values of the matcher flags as the code uses them: NOTBOL (tested with the line-start
    anchor in rstr_find), PREV (tested next to `r > s` before the look-behind), and the
    RE_ -> REG_ mapping of rset_find.  Missing ones are None."""
    out = {"NOTBOL": None, "PREV": None, "map": {}}
    nodes_ = [n for f in prog.funcs.values() if f.file == "rstr.c" for n in f.walk()]
    for n in nodes_:
        if n["k"] == "bin" and n["op"] == "&&":
            l, r = strip_casts(n["l"]), strip_casts(n["r"])
            if l["k"] == "member" and l["field"] == "lbeg" and r["k"] == "bin" and r["op"] == "&" \
                    and cval(r["r"]) is not None:
                out["NOTBOL"] = cval(r["r"])
        if n["k"] == "bin" and n["op"] == "||":
            l, r = strip_casts(n["l"]), strip_casts(n["r"])
            if l["k"] == "bin" and l["op"] in (">", "!=") and r["k"] == "bin" and r["op"] == "&" and \
                    cval(r["r"]) is not None and strip_casts(r["l"])["k"] == "ref":
                out["PREV"] = cval(r["r"])
    for st in [n for g in prog.funcs.values() if g.file == "rset.c" for n in g.walk()]:
        if st["k"] == "if" and st["c"]["k"] == "bin" and st["c"]["op"] == "&" and cval(st["c"]["r"]) is not None:
            for n, lv, op, rhs in stores(st["t"]):
                if op == "|=" and cval(rhs) is not None:
                    out["map"][cval(st["c"]["r"])] = cval(rhs)
    return out



def _has_notbol(e, f, loop, bit=2):
    e = strip_casts(e)
    if e is None:
        return False
    for x in walk(e):
        v = cval(x)
        if v is not None and v & bit and x["k"] != "sizeof":
            return True
    if e["k"] == "ref":
        for n, lv, op, rhs in stores(loop):
            if lv["k"] == "ref" and lv["name"] == e["name"] and rhs is not None:
                if any((cval(x) or 0) & bit for x in walk(rhs)):
                    return True
        # initialiser outside the loop
        for n, lv, op, rhs in stores(f.body):
            if lv.get("name") == e["name"] and op == "init" and rhs is not None:
                if any((cval(x) or 0) & bit for x in walk(rhs)):
                    return True
    return False


def _advanced_calls(prog):
    """matcher calls inside a loop that advances the subject pointer or its offset"""
    out = []
    for f in prog.funcs.values():
        if f.file in ("rstr.c", "rset.c", "regex.c"):
            continue
        for c in f.calls(MATCHERS):
            loop = enclosing(f, c["id"], ("while", "for", "do"))
            if loop is None:
                continue
            base, off = _subject_parts(c["args"][1])
            if base is None:
                continue
            adv = False
            for s_, lv, op, rhs in stores(loop):
                if lv["k"] != "ref":
                    continue
                if lv["name"] == base and op in ("+=", "post++", "pre++"):
                    adv = True
                if off and lv["name"] == off and op in ("+=", "=", "post++", "pre++"):
                    adv = True
            if adv:
                out.append((f, c, loop))
    return out


def rule_M1(ctx):
    ctx.begin("M1", floor=3, what="matcher re-invoked on an advanced subject")
    prog = ctx.prog
    n = 0
    for f in prog.funcs.values():
        if f.file in ("rstr.c", "rset.c", "regex.c"):
            continue
        for c in f.calls(MATCHERS):
            loop = enclosing(f, c["id"], ("while", "for", "do"))
            if loop is None:
                continue
            base, off = _subject_parts(c["args"][1])
            if base is None:
                continue
            adv = False
            for s, lv, op, rhs in stores(loop):
                if lv["k"] != "ref":
                    continue
                if lv["name"] == base and op in ("+=", "post++", "pre++"):
                    adv = True
                if off and lv["name"] == off and op in ("+=", "=", "post++", "pre++"):
                    adv = True
            # base re-bound from the line each iteration is not an advance
            if not adv:
                continue
            n += 1
            if _has_notbol(c["args"][4], f, loop):
                ctx.ok(f.name, "%s on advanced %s passes NOTBOL-capable flags %s" % (
                    c["fn"], key(c["args"][1]), key(c["args"][4])[:40]), loc=f.loc(c))
            else:
                ctx.violation(f.name, "line-start anchor only at the true line start",
                              "%s is re-invoked on the advanced subject %s with flags %s, which can "
                              "never carry RE_NOTBOL: `^` matches again after each replacement" % (
                                  c["fn"], key(c["args"][1]), key(c["args"][4])), f.loc(c))
    # dir_match: subject copied from chrs[beg]; NOTBOL iff beg != 0
    dm = prog.func("dir_match", file="dir.c")
    for c in dm.calls(MATCHERS):
        n += 1
        if _has_notbol(c["args"][4], dm, dm.body):
            ctx.ok("dir_match", "flags carry NOTBOL for an interior run", loc=dm.loc(c))
        else:
            ctx.violation("dir_match", "line-start anchor only at the true line start",
                          "flags %s cannot carry RE_NOTBOL" % key(c["args"][4]), dm.loc(c))
    if n < 3:
        ctx.broken("only %d advanced-subject matcher calls" % n)


def rule_M2(ctx):
    """Matches are judged against the whole line: wherever a matcher is re-invoked on an
    interior pointer of the line, the flags can tell it that s[-1] is the real preceding
    character (so \\< and \\> look at it), both matchers honour that flag, and the one caller
    that works on a copy of a run does not claim it."""
    ctx.begin("M2", floor=1, what="matcher calls on an interior pointer of the line")
    prog = ctx.prog
    fl = matcher_flags(prog)
    calls = _advanced_calls(prog)
    f = prog.func("lbuf_search", file="mot.c")
    if not any(g is f for g, c, lp in calls):
        for c in f.calls(MATCHERS):
            base, off = _subject_parts(c["args"][1])
            if off is not None:
                calls.append((f, c, f.body))
    n = 0
    for g, c, loop in calls:
        n += 1
        if fl["PREV"] is None:
            ctx.violation(g.name, "word boundary sees the real preceding character",
                          "%s is called on the interior pointer %s; neither matcher receives the "
                          "line start, so `\\<` at the resume position is judged as if the line "
                          "began there" % (c["fn"], key(c["args"][1])), g.loc(c))
        elif _has_notbol(c["args"][4], g, loop, bit=fl["PREV"]):
            ctx.ok(g.name, "%s on the interior pointer %s can tell the matcher that s[-1] is the "
                   "preceding character (flag %d)" % (c["fn"], key(c["args"][1]), fl["PREV"]), loc=g.loc(c))
        else:
            ctx.violation(g.name, "word boundary sees the real preceding character",
                          "%s is called on the interior pointer %s with flags %s, which never carry the "
                          "left-context flag %d: `\\<` at the resume position is judged as if the line "
                          "began there" % (c["fn"], key(c["args"][1]), key(c["args"][4])[:40], fl["PREV"]), g.loc(c))
    if fl["PREV"] is not None:
        # the engine gets the flag too and looks behind under it
        reg = fl["map"].get(fl["PREV"])
        am = prog.func("ratom_match", file="regex.c")
        seen = False
        for h in prog.funcs.values():
            if h.file != "regex.c":
                continue
            for x in h.walk():
                if x["k"] == "bin" and x["op"] == "&" and cval(x["r"]) == reg and reg is not None and \
                        strip_casts(x["l"])["k"] == "member" and strip_casts(x["l"])["field"] == "flg":
                    seen = True
        if reg is None:
            ctx.violation("rset_find", "left-context flag reaches the regex engine",
                          "flag %d is honoured by rstr_find but not passed on to regexec: the two "
                          "matchers disagree at a resumed position" % fl["PREV"])
        elif not seen:
            ctx.violation("ratom_match", "left-context flag reaches the regex engine",
                          "regexec is given flag %#x but nothing in regex.c tests it" % reg)
        else:
            ctx.ok("ratom_match", "the engine tests the left-context flag %#x" % reg)
        # a copy of a run has nothing before it
        dm = prog.func("dir_match", file="dir.c")
        for c in dm.calls(MATCHERS):
            if _has_notbol(c["args"][4], dm, dm.body, bit=fl["PREV"]):
                ctx.violation("dir_match", "left-context flag only with a real predecessor",
                              "the subject is a copy of the run, yet the flags %s claim that s[-1] is "
                              "readable" % key(c["args"][4])[:40], dm.loc(c))
            else:
                ctx.ok("dir_match", "no left-context claim on the copied run", loc=dm.loc(c))
    if not n:
        raise AnalysisBroken("no matcher call on an interior pointer found")


# ----------------------------------------------------------------------------------------
# T


def rule_T1(ctx):
    ctx.begin("T1", floor=2, what="byte steps on line text")
    prog = ctx.prog
    n = 0
    FILES = ("ex.c", "vi.c", "mot.c", "led.c", "cmd.c", "tag.c")

    def local_taint(f, seed):
        tainted = set(seed)
        for s, lv, op, rhs in stores(f.body):
            if rhs is None or lv["k"] not in ("ref", "var"):
                continue
            r = strip_casts(rhs)
            if is_call(r, "lbuf_get"):
                tainted.add(lv["name"])
        changed = True
        while changed:
            changed = False
            for s, lv, op, rhs in stores(f.body):
                if rhs is None or lv["k"] not in ("ref", "var") or lv["name"] in tainted:
                    continue
                r = strip_casts(rhs)
                if (r["k"] == "ref" and r["name"] in tainted) or (
                        is_call(r, ("uc_chr", "uc_next", "uc_prev", "uc_beg")) and
                        any(x["k"] == "ref" and x["name"] in tainted for a in r["args"] for x in walk(a))):
                    if lv.get("ptr") or lv.get("ty", "").startswith("char *"):
                        tainted.add(lv["name"])
                        changed = True
        return tainted
    # a line handed to a static helper of the same file: its parameter is line text too
    seeds = {}
    for f in prog.funcs.values():
        if f.file not in FILES:
            continue
        t0 = local_taint(f, ())
        for c in f.calls():
            g = prog.resolve(f, c["fn"]) if c.get("fn") else None
            if g is None or g.file != f.file or not g.static or g is f:
                continue
            for i, a in enumerate(c["args"][:len(g.params)]):
                a = strip_casts(a)
                if is_call(a, "lbuf_get") or (a["k"] == "ref" and a["name"] in t0):
                    if g.params[i].get("ty", "").startswith("char *"):
                        seeds.setdefault(g.qname, set()).add(g.params[i]["name"])
    for f in prog.funcs.values():
        if f.file not in FILES:
            continue
        tainted = local_taint(f, seeds.get(f.qname, ()))
        if not tainted:
            continue
        for s, lv, op, rhs in stores(f.body):
            if lv["k"] != "ref" or lv["name"] not in tainted:
                continue
            step = None
            if op in ("post++", "pre++"):
                step = 1
            elif op == "+=" and cval(rhs) is not None:
                step = cval(rhs)
            elif op == "+=" and rhs is not None:
                # variable step: decoder length, matcher offset or a string length
                r = strip_casts(rhs)
                src = r
                if r["k"] == "ref":
                    for s2, lv2, op2, rhs2 in stores(f.body):
                        if op2 in ("=", "init") and lv2.get("name") == r["name"] and rhs2 is not None:
                            src = strip_casts(rhs2)
                kind = None
                if is_call(src, ("uc_len",)) and lv["name"] in key(src):
                    kind = "decoded character length"
                elif src["k"] == "sub" and src["base"]["k"] == "ref" and any(
                        key(strip_casts(c["args"][3])) == src["base"]["name"] for c in f.calls(MATCHERS)):
                    kind = "matcher offset"
                elif is_call(src, "strlen"):
                    kind = "string length"
                if kind:
                    n += 1
                    ctx.ok(f.name, "%s advanced by a %s (%s)" % (lv["name"], kind, key(rhs)), loc=f.loc(s))
                else:
                    ctx.note("%s: %s advanced by unclassified %s" % (f.name, lv["name"], key(rhs)))
                continue
            if not step:
                continue
            n += 1
            p = lv["name"]
            # ASCII knowledge: a dominating comparison of *p / p[0] with ASCII constants
            ascii_ok = False
            for c, t in _facts(f, s):
                for cj in flatten_or(c) if t else [c]:
                    if cj["k"] == "bin" and cj["op"] in ("==",) and t and \
                            key(strip_casts(cj["l"])) in ("(*%s)" % p, "%s[0]" % p) and \
                            cval(cj["r"]) is not None and 0 < cval(cj["r"]) < 128:
                        ascii_ok = True
                    if is_call(cj, ("isspace", "isdigit", "isalpha", "isalnum")) and t and p in key(cj):
                        ascii_ok = True
            loop = enclosing(f, s["id"], ("while", "for"))
            if loop is not None and not ascii_ok:
                for cj in flatten_and(loop["c"]) if loop.get("c") else []:
                    ors = flatten_or(cj)
                    if all(x["k"] == "bin" and x["op"] == "==" and cval(x["r"]) is not None and
                           0 < cval(x["r"]) < 128 and p in key(x["l"]) for x in ors):
                        ascii_ok = True
            if ascii_ok:
                ctx.ok(f.name, "byte step on %s under ASCII knowledge" % p, loc=f.loc(s))
            else:
                ctx.violation(f.name, "character-wise step on line text",
                              "%s walks line text and is advanced by %d byte(s) (%s) without a "
                              "test that the byte is ASCII: a multi-byte character is split" % (
                                  p, step, key(s)), f.loc(s))
    if n < 1:
        ctx.broken("no byte steps on line text found")


VALID_CONT = [0x80, 0xbf, 0x95, 0xaa]


def _valid_inputs():
    for b0 in range(1, 256):
        if b0 < 0x80 or b0 < 0xc0 or b0 >= 0xf8:
            yield (b0, 0x41, 0)
            continue
        n = 2 if b0 < 0xe0 else 3 if b0 < 0xf0 else 4
        for combo in itertools.product(VALID_CONT, repeat=n - 1):
            yield (b0,) + combo + (0x41, 0)


def rule_T2(ctx):
    ctx.begin("T2", floor=3, what="private decoders equal the editor's on well-formed input")
    prog = ctx.prog
    pairs = [("uc_len", "uc_len"), ("uc_code", "uc_dec"), ("uc_beg", "uc_beg")]
    for a, b in pairs:
        fa, fb = prog.func(a, file="uc.c"), prog.func(b, file="regex.c")
        diff = None
        cnt = 0
        if a == "uc_beg":
            # pointer into a string: all positions of a few strings
            strs = [(0x41, 0xc3, 0xa9, 0x42, 0), (0xe2, 0x82, 0xac, 0x41, 0), (0xf0, 0x9f, 0x98, 0x80, 0),
                    (0x80, 0x80, 0x41, 0)]
            for sbuf in strs:
                for i in range(len(sbuf) - 1):
                    cnt += 1
                    ra = Interp(prog).call(fa, [Ptr(sbuf), Ptr(sbuf, i)])
                    rb = Interp(prog).call(fb, [Ptr(sbuf), Ptr(sbuf, i)])
                    if not (isinstance(ra, Ptr) and isinstance(rb, Ptr) and ra.off == rb.off):
                        diff = (sbuf, i, ra.off if isinstance(ra, Ptr) else ra, rb.off if isinstance(rb, Ptr) else rb)
        else:
            for buf in _valid_inputs():
                cnt += 1
                try:
                    ra = Interp(prog).call(fa, [Ptr(buf)])
                    rb = Interp(prog).call(fb, [Ptr(buf)])
                except (Unsupported, OverRead) as e:
                    raise AnalysisBroken("decoder not evaluable on %s: %s" % (buf, e))
                if ra != rb and diff is None:
                    diff = (buf, ra, rb)
        if diff:
            ctx.violation(b, "decoder siblings agree",
                          "uc.c:%s and regex.c:%s differ on %s" % (a, b, diff))
        else:
            ctx.ok(b, "uc.c:%s == regex.c:%s on %d well-formed inputs" % (a, b, cnt))


def rule_T3(ctx):
    ctx.begin("T3", floor=3, what="lead-byte classes, masks, encoder thresholds")
    prog = ctx.prog
    ul = prog.func("uc_len", file="uc.c")
    uc = prog.func("uc_code", file="uc.c")
    bad = None
    for b0 in range(0, 256):
        want = 0 if b0 == 0 else 1 if b0 < 0xc0 else 2 if b0 < 0xe0 else 3 if b0 < 0xf0 else 4 if b0 < 0xf8 else 1
        got = Interp(prog).call(ul, [Ptr((b0, 0x80, 0x80, 0x80, 0))])
        if got != want and bad is None:
            bad = (b0, got, want)
    if bad:
        ctx.violation("uc_len", "lead-byte length classes", "uc_len(0x%02x ...) = %s, RFC 3629 class is %s" % bad)
    else:
        ctx.ok("uc_len", "all 256 lead bytes map to their RFC 3629 length")
    bad = None
    cnt = 0
    for buf in _valid_inputs():
        b0 = buf[0]
        if b0 < 0xc0 or b0 >= 0xf8:
            want = b0
        else:
            n = 2 if b0 < 0xe0 else 3 if b0 < 0xf0 else 4
            want = b0 & (0x1f if n == 2 else 0x0f if n == 3 else 0x07)
            for c in buf[1:n]:
                want = (want << 6) | (c & 0x3f)
        got = Interp(prog).call(uc, [Ptr(buf)])
        cnt += 1
        if got != want and bad is None:
            bad = (buf, got, want)
    if bad:
        ctx.violation("uc_code", "decoder masks and shifts", "uc_code%s = %s, expected %s" % bad)
    else:
        ctx.ok("uc_code", "masks/shifts decode %d lead x continuation combinations" % cnt)
    # the scanning helpers agree with the lead-byte length on valid input
    ue = prog.func("uc_end", file="uc.c")
    bad = None
    cnt = 0
    for buf in _valid_inputs():
        r = Interp(prog).call(ue, [Ptr(buf)])
        L = Interp(prog).call(ul, [Ptr(buf)])
        cnt += 1
        if not isinstance(r, Ptr) or r.off != max(L, 1) - 1:
            if buf[0] >= 0x80 and buf[0] < 0xc0:
                continue   # stray continuation byte: not valid UTF-8
            if buf[0] >= 0xf8:
                continue
            bad = (buf, r.off if isinstance(r, Ptr) else r, L)
            break
    if bad:
        ctx.violation("uc_end", "scanner agrees with the lead byte", "uc_end%s -> %s but uc_len = %s" % bad)
    else:
        ctx.ok("uc_end", "continuation scan ends where the lead byte says, %d inputs" % cnt)


def rule_L5(ctx):
    """The literal fast path and the regex engine are siblings behind one interface: for the
    anchors the classifier strips (\\< \\> ^ $) the fast path's accept/reject decision at every
    candidate offset must equal what the engine's own atoms (ratom_match on RA_WBEG / RA_WEND)
    say there.  Both are pure functions of (line, offset); they are evaluated abstractly over
    every line of length <= 3 (+ newline) of a word / non-word / blank alphabet."""
    ctx.begin("L5", floor=1, what="fast-path anchors agree with the engine's atoms")
    prog = ctx.prog
    f = prog.func("rstr_find", file="rstr.c")
    am = prog.func("ratom_match", file="regex.c")
    rec = prog.record("rstr")
    # the atom kinds the parser assigns to \\< and \\>
    kinds = {}
    seen = {cval(n["r"]) for n in am.walk() if n["k"] == "bin" and n["op"] == "==" and
            n["l"]["k"] == "member" and n["l"]["field"] == "ra" and cval(n["r"]) is not None}
    for g in prog.funcs.values():
        if g.file != "regex.c":
            continue
        for n, lv, op, rhs in stores(g.body):
            r = strip_casts(rhs) if rhs is not None else None
            if lv["k"] == "member" and lv["field"] == "ra" and r is not None and r["k"] == "cond":
                c = strip_casts(r["c"])
                if c["k"] == "bin" and c["op"] in ("==", "!=") and cval(c["r"]) in (0x3c, 0x3e) \
                        and cval(r["t"]) is not None and cval(r["f"]) is not None:
                    first = "RA_WBEG" if (cval(c["r"]) == 0x3c) == (c["op"] == "==") else "RA_WEND"
                    other = "RA_WEND" if first == "RA_WBEG" else "RA_WBEG"
                    kinds[first], kinds[other] = cval(r["t"]), cval(r["f"])
    if not kinds and {0x3c, 0x3e} <= seen:
        kinds = {"RA_WBEG": 0x3c, "RA_WEND": 0x3e}
    if "RA_WBEG" not in kinds or "RA_WEND" not in kinds or not {kinds["RA_WBEG"], kinds["RA_WEND"]} <= seen:
        raise AnalysisBroken("regex.c: the atom kinds of \\< and \\> were not found")

    def engine(kind, line, p):
        sp = Ptr(line)
        rs = {"s": Ptr(line, p, sp.log), "o": sp, "flg": 0, "pc": 0, "dep": 0}
        try:
            return Interp(prog).call(am, [{"ra": kinds[kind], "s": None}, rs]) == 0
        except (Unsupported, OverRead) as e:
            raise AnalysisBroken("ratom_match not evaluable: %s" % e)

    alpha = [0x61, 0x2d, 0x20]
    lits = [(0x61,), (0x2d,), (0x2d, 0x61), (0x61, 0x2d), (0x61, 0x61)]
    n_eval = 0
    bad = None
    for L in range(0, 4):
        for combo in itertools.product(alpha, repeat=L):
            line = tuple(combo) + (0x0a, 0)
            slen = len(line) - 1
            for lit in lits:
                for wbeg, wend in ((1, 0), (0, 1), (1, 1), (0, 0)):
                    # reference: first offset where the literal stands and the engine's atoms accept
                    want = -1
                    for p in range(0, slen - len(lit)):
                        if line[p:p + len(lit)] != lit:
                            continue
                        if wbeg and not engine("RA_WBEG", line, p):
                            continue
                        if wend and not engine("RA_WEND", line, p + len(lit)):
                            continue
                        want = p
                        break
                    rs = {fl["name"]: 0 for fl in rec["fields"]}
                    rs["rs"] = None
                    rs["str"] = Ptr(lit + (0,))
                    rs["wbeg"], rs["wend"] = wbeg, wend
                    grps = {}
                    try:
                        ret = Interp(prog).call(f, [rs, Ptr(line), 1, grps, 0])
                    except OverRead as e:
                        if bad is None:
                            bad = (lit, line, wbeg, wend, "OVERREAD %s" % e, want)
                        continue
                    except Unsupported as e:
                        raise AnalysisBroken("rstr_find not evaluable: %s" % e)
                    n_eval += 1
                    got = grps.get(0, -1) if (ret is not None and ret >= 0) else -1
                    if got != want and bad is None:
                        bad = (lit, line, wbeg, wend, got, want)
    # resumed positions: with the left-context flag, the fast path and the engine started at an
    # interior offset k must both answer what the engine answers for the whole line
    fl = matcher_flags(prog)
    n_prev = 0
    prev_bad = None
    if fl["PREV"] is not None and fl["map"].get(fl["PREV"]) is not None:
        REGP = fl["map"][fl["PREV"]]
        FAST = fl["PREV"] | (fl["NOTBOL"] or 0)

        def engine_at(kind, line, o, p, flg):
            sp = Ptr(line)
            rs = {"s": Ptr(line, p, sp.log), "o": Ptr(line, o, sp.log), "flg": flg, "pc": 0, "dep": 0}
            try:
                return Interp(prog).call(am, [{"ra": kinds[kind], "s": None}, rs]) == 0
            except (Unsupported, OverRead) as e:
                raise AnalysisBroken("ratom_match not evaluable: %s" % e)
        for L in range(1, 4):
            for combo in itertools.product(alpha, repeat=L):
                line = tuple(combo) + (0x0a, 0)
                slen = len(line) - 1
                for k in range(1, L + 1):
                    for lit in lits[:3]:
                        for wbeg, wend in ((1, 0), (0, 1), (1, 1)):
                            want = -1            # whole-line semantics, first offset >= k
                            mid = -1             # the engine started at k with the flag
                            for p in range(k, slen - len(lit)):
                                if line[p:p + len(lit)] != lit:
                                    continue
                                whole = (not wbeg or engine_at("RA_WBEG", line, 0, p, 0)) and \
                                    (not wend or engine_at("RA_WEND", line, 0, p + len(lit), 0))
                                part = (not wbeg or engine_at("RA_WBEG", line, k, p, REGP)) and \
                                    (not wend or engine_at("RA_WEND", line, k, p + len(lit), REGP))
                                if whole and want < 0:
                                    want = p - k
                                if part and mid < 0:
                                    mid = p - k
                            rs = {fld["name"]: 0 for fld in rec["fields"]}
                            rs["rs"] = None
                            rs["str"] = Ptr(lit + (0,))
                            rs["wbeg"], rs["wend"] = wbeg, wend
                            grps = {}
                            try:
                                ret = Interp(prog).call(f, [rs, Ptr(line, k), 1, grps, FAST])
                            except (Unsupported, OverRead) as e:
                                raise AnalysisBroken("rstr_find not evaluable at an interior offset: %s" % e)
                            n_prev += 1
                            got = grps.get(0, -1) if (ret is not None and ret >= 0) else -1
                            if (got != want or mid != want) and prev_bad is None:
                                prev_bad = (lit, line, k, wbeg, wend, got, mid, want)
        if prev_bad:
            lit, line, k, wbeg, wend, got, mid, want = prev_bad
            sh = lambda b: "".join(chr(x) if 32 <= x < 127 else "\\x%02x" % x for x in b)
            ctx.violation("rstr_find", "resumed search sees the real preceding character",
                          "pattern %s%s%s resumed at offset %d of the line \"%s\": judged against the whole "
                          "line the first match is at %s, the literal matcher says %s, the engine says %s" % (
                              "\\<" if wbeg else "", sh(lit), "\\>" if wend else "", k, sh(line[:-2]),
                              want, got, mid), f.loc(f.body))
        else:
            ctx.ok("rstr_find", "resumed at an interior offset with the left-context flag, both matchers "
                   "agree with the whole-line verdict on %d (literal, anchors, line, offset) cases" % n_prev)
    # ignore-case: the fast path's byte comparison folds exactly what the engine folds
    # the ignore-case flag of the engine: the bit under which the literal `a` accepts `A`
    icase_bit = None
    for bit in (1, 2, 4, 8, 16, 32, 64, 128):
        line = (0x41, 0x0a, 0)
        sp = Ptr(line)
        st = {"s": Ptr(line, 0, sp.log), "o": sp, "flg": bit, "pc": 0, "dep": 0}
        try:
            if Interp(prog).call(am, [{"ra": 0, "s": Ptr((0x61, 0))}, st]) == 0:
                icase_bit = bit
                break
        except (Unsupported, OverRead):
            continue
    if icase_bit is None:
        raise AnalysisBroken("ratom_match: no flag bit makes the literal `a` accept `A`")
    fold_bad = None
    n_fold = 0
    for a in range(1, 256):
        for b in sorted({a, a ^ 0x20, a | 0x20, a & ~0x20 & 0xff} - {0, 0x0a}):
            if a == 0x0a:
                continue
            line = (b, 0x0a, 0)
            rs = {fl["name"]: 0 for fl in rec["fields"]}
            rs["rs"] = None
            rs["str"] = Ptr((a, 0))
            rs["icase"] = 1
            grps = {}
            sp = Ptr(line)
            st = {"s": Ptr(line, 0, sp.log), "o": sp, "flg": icase_bit, "pc": 0, "dep": 0}
            try:
                ret = Interp(prog).call(f, [rs, Ptr(line), 1, grps, 0])
                eng = Interp(prog).call(am, [{"ra": 0, "s": Ptr((a, 0))}, st])
            except (Unsupported, OverRead) as e:
                raise AnalysisBroken("ignore-case comparison not evaluable: %s" % e)
            n_fold += 1
            fast = ret is not None and ret >= 0 and grps.get(0) == 0
            if fast != (eng == 0) and fold_bad is None:
                fold_bad = (a, b, fast)
    if fold_bad:
        a, b, fast = fold_bad
        ctx.violation("match_case", "ignore-case folding agrees with the regex engine",
                      "with ignore-case the literal byte 0x%02x %s the subject byte 0x%02x in the fast path but "
                      "%s in the engine's literal atom: only ASCII letters fold" % (
                          a, "matches" if fast else "does not match", b,
                          "does not" if fast else "does"), f.loc(f.body))
    else:
        ctx.ok("match_case", "ignore-case: same verdict as ratom_match on %d (pattern byte, subject byte) pairs "
               "(every byte against itself and its 0x20-neighbours)" % n_fold)
    if n_eval < 200:
        raise AnalysisBroken("only %d evaluations" % n_eval)
    if bad:
        lit, line, wbeg, wend, got, want = bad
        sh = lambda b: "".join(chr(x) if 32 <= x < 127 else "\\x%02x" % x for x in b)
        if isinstance(got, str):
            ctx.violation("rstr_find", "word anchors agree with the regex engine",
                          "pattern %s%s%s on the line \"%s\": the literal matcher reads outside the line (%s)" % (
                              "\\<" if wbeg else "", sh(lit), "\\>" if wend else "", sh(line[:-2]), got[9:]),
                          f.loc(f.body))
        else:
          ctx.violation("rstr_find", "word anchors agree with the regex engine",
                      "pattern %s%s%s on the line \"%s\": the literal matcher %s but the engine's "
                      "\\< / \\> atoms %s" % (
                          "\\<" if wbeg else "", sh(lit), "\\>" if wend else "", sh(line[:-2]),
                          "matches at %d" % got if got >= 0 else "finds nothing",
                          "accept first at %d" % want if want >= 0 else "reject every offset"),
                      f.loc(f.body))
    else:
        ctx.ok("rstr_find", "same first accepted offset as ratom_match's RA_WBEG/RA_WEND on %d "
               "(literal, anchors, line) cases: all lines of length <= 3 over {word, '-', blank}" % n_eval)



RULES = {"R4": rule_R4, "R5": rule_R5, "R6": rule_R6, "L1": rule_L1, "L2": rule_L2, "L3": rule_L3,
         "L4": rule_L4, "L5": rule_L5, "M1": rule_M1, "M2": rule_M2, "T1": rule_T1, "T2": rule_T2, "T3": rule_T3}


# ----------------------------------------------------------------------------------------
# T4: byte / character units

CHAR_FUNCS = {"uc_slen", "uc_off", "lbuf_eol", "lbuf_indents", "ren_noeol", "ren_off"}
BYTE_FUNCS = {"strlen", "sbuf_len", "uc_len", "linelength"}
# argument positions with a declared unit
SINKS = {
    "uc_chr": {1: "CHAR"}, "uc_sub": {1: "CHAR", 2: "CHAR"}, "uc_off": {1: "BYTE"},
    "ren_pos": {1: "CHAR"}, "ren_noeol": {1: "CHAR"}, "ren_cwid": {},
    "memcpy": {2: "BYTE"}, "memmove": {2: "BYTE"}, "sbuf_mem": {2: "BYTE"}, "term_push": {1: "BYTE"},
    "strncmp": {2: "BYTE"}, "write": {2: "BYTE"}, "sbuf_cut": {1: "BYTE"}, "malloc": {},
    "lbuf_findchar": {}, "vi_off2col": {2: "CHAR"}, "vi_col2off": {},
}
CHAR_GLOBALS = {"xoff", "xlim"}

# reviewed mixed uses on the pinned tree, one reason each
T4_EXCEPTIONS = {
    ("ren_position", "multibyte"): "`n < strlen(s)` deliberately compares the character count with the byte "
                                    "count of the same string: it is the `has a multi-byte character` test",
    ("tag_goto", "xoff"): "byte offset of strstr() stored into xoff: wrong column on multi-byte lines, "
                          "cannot split a character (observation, DESIGN.md section 5)",
    ("vc_definition", "xoff"): "same as tag_goto (observation)",
}


class _UF:
    def __init__(self):
        self.p = {}
        self.unit = {}
        self.why = {}

    def find(self, x):
        self.p.setdefault(x, x)
        while self.p[x] != x:
            self.p[x] = self.p[self.p[x]]
            x = self.p[x]
        return x

    def label(self, x, u, why):
        r = self.find(x)
        if r in self.unit and self.unit[r] != u:
            return (self.unit[r], self.why[r], u, why)
        self.unit.setdefault(r, u)
        self.why.setdefault(r, why)
        return None

    def union(self, a, b, why):
        ra, rb = self.find(a), self.find(b)
        if ra == rb:
            return None
        ua, ub = self.unit.get(ra), self.unit.get(rb)
        if ua and ub and ua != ub:
            return (ua, self.why[ra], ub, self.why[rb] + " / joined by " + why)
        self.p[ra] = rb
        if ua and not ub:
            self.unit[rb] = ua
            self.why[rb] = self.why[ra]
        return None


T4_SCOPE = {"C07": {"mot.c", "vi.c", "ren.c"}, "C09": {"vi.c", "term.c"}, "C12": {"rstr.c", "rset.c"},
            "C13": {"mot.c", "vi.c"}, "C14": {"ex.c"}, "C17": {"ren.c", "uc.c", "dir.c"},
            "C18": {"ren.c", "uc.c", "dir.c"}}


def _t4_func(prog, f, seeds):
    """Unit inference for one function: (union-find, conflicts, votes for callee parameters,
    unit of the returned value).  seeds: {key: (unit, why)} for this function's parameters."""
    grps = set()
    for c in f.calls(MATCHERS + ("regexec",)):
        g = strip_casts(c["args"][3])
        if g["k"] == "ref":
            grps.add(g["name"])
    uf = _UF()
    conflicts = []
    for k_, (u_, w_) in (seeds or {}).items():
        uf.label(k_, u_, w_)

    def node_of(e):
        """union-find key of an int expression, or None"""
        e = strip_casts(e)
        if e is None:
            return None
        k = e["k"]
        if k == "ref" and not e.get("ptr") and "[" not in e.get("ty", ""):
            if e["cat"] == "global":
                if e["name"] in CHAR_GLOBALS:
                    x = "g:" + e["name"]
                    uf.label(x, "CHAR", "global %s holds a character offset/count" % e["name"])
                    return x
                return None
            return "v:" + e["name"]
        if k == "call" and e.get("fn") in CHAR_FUNCS:
            x = "e:%d" % e["id"]
            uf.label(x, "CHAR", "%s() returns characters" % e["fn"])
            return x
        if k == "call" and e.get("fn") in BYTE_FUNCS:
            x = "e:%d" % e["id"]
            uf.label(x, "BYTE", "%s() returns bytes" % e["fn"])
            return x
        if k == "sub" and strip_casts(e["base"])["k"] == "ref" and strip_casts(e["base"])["name"] in grps:
            x = "e:%d" % e["id"]
            uf.label(x, "BYTE", "%s[] holds matcher byte offsets" % strip_casts(e["base"])["name"])
            return x
        if k == "bin" and e["op"] == "-" and strip_casts(e["l"]).get("ptr") and strip_casts(e["r"]).get("ptr") \
                and "char" in strip_casts(e["l"]).get("ty", ""):
            x = "e:%d" % e["id"]
            uf.label(x, "BYTE", "pointer difference %s" % key(e)[:30])
            return x
        if k == "bin" and e["op"] in ("+", "-"):
            if cval(e["r"]) is not None:
                return node_of(e["l"])
            if cval(e["l"]) is not None:
                return node_of(e["r"])
            a, b = node_of(e["l"]), node_of(e["r"])
            if a and b:
                c_ = uf.union(a, b, "`%s`" % key(e)[:40])
                if c_:
                    conflicts.append((e, c_))
                return a
            return a or b
        if k == "cond":
            a, b = node_of(e["t"]), node_of(e["f"])
            if a and b:
                c_ = uf.union(a, b, "`?:`")
                if c_:
                    conflicts.append((e, c_))
            return a or b
        if k == "un" and e["op"] in ("post++", "pre++", "post--", "pre--"):
            return node_of(e["e"])
        if k == "un" and e["op"] == "*" and strip_casts(e["e"])["k"] == "ref" and not e.get("ptr"):
            return "d:" + strip_casts(e["e"])["name"]
        return None

    for n in f.walk():
        k = n["k"]
        if k == "var" and "init" in n and not n.get("ty", "").endswith("*"):
            a = "v:" + n["name"]
            b = node_of(n["init"])
            if b:
                c_ = uf.union(a, b, "initialiser of %s" % n["name"])
                if c_:
                    conflicts.append((n, c_))
        elif k == "bin" and n["op"] in ("=", "+=", "-=") and not n["l"].get("ptr"):
            a, b = node_of(n["l"]), node_of(n["r"])
            if a and b:
                c_ = uf.union(a, b, "`%s`" % key(n)[:40])
                if c_:
                    conflicts.append((n, c_))
        elif k == "bin" and n["op"] in ("<", "<=", ">", ">=", "==", "!="):
            a, b = node_of(n["l"]), node_of(n["r"])
            if a and b:
                c_ = uf.union(a, b, "comparison `%s`" % key(n)[:50])
                if c_:
                    conflicts.append((n, c_))
        elif k == "call" and n.get("fn") in SINKS:
            for i, u in SINKS[n["fn"]].items():
                if i < len(n["args"]):
                    a = node_of(n["args"][i])
                    if a:
                        c_ = uf.label(a, u, "argument %d of %s() is in %s" % (i + 1, n["fn"], u.lower() + "s"))
                        if c_:
                            conflicts.append((n, c_))
        elif k == "bin" and n["op"] == "+" and n.get("ptr") and "char" in n.get("ty", ""):
            # char pointer + offset: the offset is in bytes
            off = n["r"] if strip_casts(n["l"]).get("ptr") or "[" in strip_casts(n["l"]).get("ty", "") else n["l"]
            a = node_of(off)
            if a:
                c_ = uf.label(a, "BYTE", "added to the char pointer in `%s`" % key(n)[:40])
                if c_:
                    conflicts.append((n, c_))
        elif k == "sub" and "char" in strip_casts(n["base"]).get("ty", "") and \
                strip_casts(n["base"]).get("ty", "").count("*") + strip_casts(n["base"]).get("ty", "").count("[") == 1:
            a = node_of(n["idx"])
            if a:
                c_ = uf.label(a, "BYTE", "index into the byte string `%s`" % key(n["base"])[:30])
                if c_:
                    conflicts.append((n, c_))
    # what this function tells its callees: the unit of each argument it passes
    votes = []
    for c in f.calls():
        fn = c.get("fn")
        g = prog.resolve(f, fn) if fn else None
        if g is None or fn in SINKS or fn in CHAR_FUNCS or fn in BYTE_FUNCS:
            continue
        for i, a in enumerate(c["args"]):
            if i >= len(g.params):
                break
            a = strip_casts(a)
            pty = g.params[i]["ty"].replace(" ", "")
            if pty == "int*" and a["k"] == "un" and a["op"] == "&":
                x = node_of(a["e"])
                kk = "d:" + g.params[i]["name"]
            elif pty == "int*" and a["k"] == "ref":
                x = "d:" + a["name"]
                kk = "d:" + g.params[i]["name"]
            else:
                # plain int parameters are not seeded: rows, counts and offsets share the type
                continue
            if x is None:
                continue
            u = uf.unit.get(uf.find(x))
            votes.append((g.qname, kk, u, "%s passes %s" % (f.name, key(a)[:24])))
    return uf, conflicts, votes


def _t4_seeds(prog):
    """Units of int / int * parameters inferred from what every call site passes (to a fixed
    point): a parameter gets a unit only when every labelled call site agrees."""
    seeds = {}
    for rnd in range(4):
        tally = {}
        for f in prog.funcs.values():
            if f.file in ("stag.c", "regex.c", "conf.c"):
                continue
            uf, conflicts, votes = _t4_func(prog, f, seeds.get(f.qname))
            for q, kk, u, why in votes:
                if u:
                    tally.setdefault((q, kk), {}).setdefault(u, why)
        new = {}
        for (q, kk), us in tally.items():
            if len(us) == 1:
                u, why = next(iter(us.items()))
                new.setdefault(q, {})[kk] = (u, "every labelled call site agrees (%s)" % why)
        if new == seeds:
            break
        seeds = new
    return seeds


def rule_T4(ctx):
    scope = T4_SCOPE.get(ctx.prop)
    ctx.begin("T4", floor=1 if scope else 20, what="functions checked for byte/character unit consistency")
    prog = ctx.prog
    n_funcs = 0
    seeds = _t4_seeds(prog)
    for f in prog.funcs.values():
        if f.file in ("stag.c", "regex.c", "conf.c"):
            continue
        if scope and f.file not in scope:
            continue
        uf, conflicts, votes = _t4_func(prog, f, seeds.get(f.qname))
        if not uf.unit:
            continue
        n_funcs += 1
        if not conflicts:
            ctx.ok(f.name, "byte and character quantities are never mixed (%d unit classes)" % len(
                {uf.find(x) for x in uf.p}))
            continue
        for n, (u1, w1, u2, w2) in conflicts[:3]:
            exc = None
            kk = key(n)
            if n["k"] == "bin" and n["op"] in ("<", ">", "!=", "==") and _multibyte_test(prog, f, n):
                exc = T4_EXCEPTIONS[("ren_position", "multibyte")]
            if (f.name, "xoff") in T4_EXCEPTIONS and "xoff" in kk + w1 + w2:
                exc = T4_EXCEPTIONS[(f.name, "xoff")]
            if exc:
                ctx.note("%s: %s -- not armed: %s" % (f.name, kk[:50], exc))
                continue
            ctx.violation(f.name, "bytes and characters are not mixed",
                          "`%s` uses one quantity both as %s (%s) and as %s (%s): on a line with "
                          "multi-byte characters the two differ" % (kk[:60], u1, w1, u2, w2), f.loc(n))
        if not any(r.func == f.name and r.rule == "T4" for r in ctx.results[-4:]):
            ctx.ok(f.name, "only reviewed mixed uses (see notes)")


RULES["T4"] = rule_T4
